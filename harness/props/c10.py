"""C10 - model formulae and symbolic time courses evaluate to what they denote.

Sections:
  timecourses   utils.step_function / blocks / events / interp / linear_interp /
                _eval_for / _conv_fx_gx / convolve_functions / TimeConvolver:
                exact correspondence with coq/C10/Model.v through lambdify_t(expr)(times)
                on dyadic inputs + property oracles (last-wins, block containing t,
                superposition, hits-samples/fill, Riemann sum / np.convolve).
  formulae      Formula + - *, Factor, Formula.design on integer record arrays:
                exact correspondence of the SET of (coefficient, monomial, column)
                triples with the model + oracles (column = term evaluated row-wise,
                indicator partition, pairwise products, order-preserving removal).
  designs       contrast matrices select the named columns; stack_designs /
                stack_contrasts bookkeeping; event_design / block_design against a
                direct evaluation.
"""
import itertools
from fractions import Fraction

import numpy as np

from ..kit import cnat, cq, cql, cz, czl, frac

HDR = ("From Coq Require Import List ZArith QArith.\n"
       "From NV.C10 Require Import Model SplineModel.\n")


# ----------------------------------------------------------------------------
# helpers
# ----------------------------------------------------------------------------
def dy(rng, lo=-4, hi=4, den=4):
    """random dyadic rational in [lo, hi] with denominator `den`"""
    return Fraction(int(rng.integers(lo * den, hi * den + 1)), den)


def fl(x):
    return float(x)


def fracs(arr):
    return [frac(float(v)) for v in np.asarray(arr, dtype=float).ravel()]


def cpairs(pairs):
    return "[" + "; ".join("(%s, %s)" % (cq(a), cq(b)) for a, b in pairs) + "]"


def copt_ql(xs):
    return "None" if xs is None else "(Some %s)" % cql(xs)


def nat(v):
    """a number as a user would write it: Python int when integral, else float"""
    v = Fraction(v)
    return int(v) if v.denominator == 1 else float(v)


GRID_VARIANTS = ("int64", "int32", "float32", "2d", "2d-fortran", "strided")


def grid_variant(xs, variant):
    """(indices into xs, array) - the same sample times as another dtype / memory layout"""
    if variant in ("int64", "int32"):
        idx = [i for i, x in enumerate(xs) if Fraction(x).denominator == 1]
        return idx, np.array([int(xs[i]) for i in idx], dtype=variant)
    idx = list(range(len(xs)))
    base = np.array([fl(x) for x in xs], dtype=float)
    if variant == "float32":
        return idx, base.astype(np.float32)
    if variant == "strided":
        return idx, np.repeat(base, 2)[::2]
    if len(idx) % 2:
        idx = idx + [0]
    arr = np.array([fl(xs[i]) for i in idx], dtype=float).reshape(2, -1)
    return idx, (np.asfortranarray(arr) if variant == "2d-fortran" else arr)


def evaluate(U, expr, xs, ck=None, sig=None, replay=None):
    """lambdify_t(expr)(xs) broadcast to xs.shape (a constant expression lambdifies to a scalar).
    With `ck`: the value at a time must not depend on the dtype / memory layout of the sampling grid -
    the same times are re-evaluated as int64/int32 (integral times only), float32, 2-D, Fortran-ordered and
    strided grids and compared with the float64 result (all inputs are dyadic, so every variant is exact)."""
    lam = U.lambdify_t(expr)
    res = lam(np.asarray([fl(x) for x in xs], dtype=float))
    got = fracs(np.broadcast_to(np.asarray(res, dtype=float), (len(xs),)))
    if ck is not None:
        for variant in GRID_VARIANTS:
            idx, arr = grid_variant(xs, variant)
            if not idx:
                continue
            try:
                r = lam(arr)
                r = np.broadcast_to(np.asarray(r, dtype=float), arr.shape)
                if r.shape != arr.shape:
                    raise ValueError("result shape %s for a grid of shape %s" % (r.shape, arr.shape))
                alt = fracs(r)
            except Exception as e:  # noqa
                rp = dict(replay or {})
                rp.update({"grid": arr.tolist(), "grid_dtype": str(arr.dtype), "grid_shape": list(arr.shape), "error": "%s: %s" % (type(e).__name__, e)})
                ck.fail("%s/sampling-grid/%s/raises" % (sig, variant),
                        "evaluating on a %s sampling grid raised %s: %s (the float64 grid works)" % (variant, type(e).__name__, e), rp)
                continue
            ck.count((sig, variant, tuple(xs), repr(replay)), bucket="grid:" + variant)
            bad = [k for k, i in enumerate(idx) if alt[k] != got[i]]
            if bad:
                k = bad[0]
                rp = dict(replay or {})
                rp.update({"grid": arr.tolist(), "grid_dtype": str(arr.dtype), "grid_shape": list(arr.shape), "t": str(xs[idx[k]]),
                           "value_on_this_grid": str(alt[k]), "value_on_float64_grid": str(got[idx[k]])})
                ck.fail("%s/sampling-grid/%s" % (sig, variant),
                        "the value at t=%s is %s on a %s sampling grid but %s on the float64 grid" % (xs[idx[k]], alt[k], variant, got[idx[k]]), rp)
    return got


class Kern:
    """kernel language shared with Model.kern: poly / box / ramp"""
    _uid = [0]

    def __init__(self, kind, p):
        self.kind, self.p = kind, p
        Kern._uid[0] += 1
        self.name = "c10k%d" % Kern._uid[0]

    @staticmethod
    def random(rng, allow_const=True):
        k = int(rng.integers(0, 3))
        if k == 0:
            deg = int(rng.integers(0 if allow_const else 1, 3))
            c = [dy(rng, -2, 2, 2) for _ in range(deg + 1)]
            if c[-1] == 0:
                c[-1] = Fraction(1)
            return Kern("poly", c)
        lo = dy(rng, -2, 2, 2)
        hi = lo + Fraction(int(rng.integers(1, 7)), 2)
        if k == 1:
            h = dy(rng, -3, 3, 2)
            return Kern("box", (lo, hi, h if h != 0 else Fraction(1)))
        return Kern("ramp", (lo, hi))

    def coq(self):
        if self.kind == "poly":
            return "(KPoly %s)" % cql(self.p)
        if self.kind == "box":
            return "(KBox %s %s %s)" % tuple(cq(v) for v in self.p)
        return "(KRamp %s %s)" % tuple(cq(v) for v in self.p)

    def at(self, s):
        """exact value (independent re-statement, Fractions)"""
        s = Fraction(s)
        if self.kind == "poly":
            return sum((c * s ** i for i, c in enumerate(self.p)), Fraction(0))
        lo, hi = self.p[0], self.p[1]
        if not (lo <= s < hi):
            return Fraction(0)
        return self.p[2] if self.kind == "box" else s - lo

    def sym(self):
        """callable: sympy expression -> sympy expression (what `events` calls as f(T - time))"""
        import sympy
        from sympy.utilities.lambdify import implemented_function
        if self.kind == "poly":
            cs = [sympy.Rational(c.numerator, c.denominator) for c in self.p]
            return lambda s: sum((c * s ** i for i, c in enumerate(cs)), sympy.Integer(0))
        lo, hi = fl(self.p[0]), fl(self.p[1])
        if self.kind == "box":
            h = fl(self.p[2])
            return implemented_function(self.name, lambda x: np.where((np.asarray(x) >= lo) & (np.asarray(x) < hi), h, 0.0))
        return implemented_function(self.name, lambda x: np.where((np.asarray(x) >= lo) & (np.asarray(x) < hi),
                                                                    np.asarray(x, dtype=float) - lo, 0.0))

    def describe(self):
        return "%s%s" % (self.kind, [str(v) for v in self.p])


def sample_points(rng, knots, n_extra=4):
    ks = sorted(set(knots))
    xs = list(ks)
    for a, b in zip(ks, ks[1:]):
        xs.append((a + b) / 2)
    if ks:
        xs += [ks[0] - Fraction(1, 4), ks[0] - 3, ks[-1] + Fraction(1, 4), ks[-1] + 3]
    xs += [dy(rng, -6, 10, 8) for _ in range(n_extra)]
    xs += [Fraction(int(v)) for v in rng.integers(-6, 11, size=3)]      # whole-number times (integer-dtype grids)
    return xs


class Batch:
    """collects Coq boolean terms with the replay data to report a disagreement"""

    def __init__(self, ck, sig, show):
        self.ck, self.sig, self.show = ck, sig, show
        self.terms, self.meta = [], []

    def add(self, term, model_term, replay):
        self.terms.append(term)
        self.meta.append((model_term, replay))

    def run(self):
        ck = self.ck
        if not self.terms or ck.build is None or not ck.build.ok:
            return 0
        res = ck.coq_bools(HDR, self.terms, name="".join(c if c.isalnum() else "_" for c in self.sig))
        ck.cov["traces_validated_against_impl"] += len(res)
        for ok, (mt, rp) in zip(res, self.meta):
            if not ok:
                try:
                    mv = ck.coq_show(HDR, mt)
                except Exception as e:  # noqa
                    mv = "coq_show failed: %s" % e
                rp = dict(rp)
                rp["model_value"] = mv
                ck.fail(self.sig, "model and implementation disagree: %s" % self.show(rp), rp)
                break
        return len(res)


# ----------------------------------------------------------------------------
# section 1: time courses
# ----------------------------------------------------------------------------
def sec_step(ck, U):
    rng = ck.rng("step")
    B = Batch(ck, "step_function/model-vs-impl", lambda r: "step_function(%s, %s, fill=%s) at %s -> impl %s" % (
        r["times"], r["values"], r["fill"], r["xs"], r["impl"]))
    N = ck.n(60, 600)
    for i in range(N):
        n = int(rng.integers(1, 6))
        mode = ["increasing", "unsorted", "ties"][i % 3]
        if mode == "increasing":
            ts = sorted(set(dy(rng, -4, 6, 4) for _ in range(n)))
        elif mode == "unsorted":
            ts = [dy(rng, -4, 6, 4) for _ in range(n)]
        else:
            ts = [dy(rng, -1, 1, 1) for _ in range(n)]
        vs = [dy(rng, -5, 5, 4) for _ in ts]
        fill = dy(rng, -3, 3, 2)
        xs = sample_points(rng, ts, 3)
        num = nat if i % 2 else fl           # numbers as floats, or as a user writes them (ints where integral)
        expr = U.step_function([num(t) for t in ts], [num(v) for v in vs], fill=num(fill))
        got = evaluate(U, expr, xs, ck, "step_function", {"times": [str(t) for t in ts], "values": [str(v) for v in vs], "fill": str(fill)})
        ck.count(("step", tuple(ts), tuple(vs), fill), nontrivial=len(ts) > 1, bucket="step:" + mode)
        # oracle: last listed time <= x wins, else fill
        for x, g in zip(xs, got):
            want = fill
            for t, v in zip(ts, vs):
                if t <= x:
                    want = v
            if g != want:
                ck.fail("step_function/last-wins/" + mode,
                        "step_function(%s,%s,fill=%s)(%s) = %s, sequential overwrite gives %s" % (ts, vs, fill, x, g, want),
                        {"times": [str(t) for t in ts], "values": [str(v) for v in vs], "fill": str(fill), "x": str(x), "impl": str(g)})
                break
        if mode == "increasing":
            for t, v in zip(ts, vs):
                if got[xs.index(t)] != v:
                    ck.fail("step_function/hits-samples", "f(times[i]) != values[i] at t=%s" % t,
                            {"times": [str(t) for t in ts], "values": [str(v) for v in vs], "t": str(t)})
        mt = "map (step_eval %s (fin_pairs %s)) %s" % (cq(fill), cpairs(zip(ts, vs)), cql(xs))
        B.add("ql_eqb (%s) %s" % (mt, cql(got)), mt,
              {"times": [str(t) for t in ts], "values": [str(v) for v in vs], "fill": str(fill),
               "xs": [str(x) for x in xs], "impl": [str(g) for g in got]})
        if i == 1:
            ck.sample({"call": "step_function(%s, %s, fill=%s)" % ([str(t) for t in ts], [str(v) for v in vs], fill),
                       "at": [str(x) for x in xs[:6]], "impl": [str(g) for g in got[:6]]})
    n = B.run()
    ck.section("step_function", cases=N, model_cases=n)


def gen_blocks(rng, mode):
    n = int(rng.integers(1, 5))
    if mode in ("sorted", "unsorted", "touching"):
        cuts = sorted(dy(rng, -4, 8, 4) for _ in range(2 * n))
        if mode == "touching":
            cuts = sorted(set(dy(rng, -2, 6, 2) for _ in range(n + 1)))
            ivs = list(zip(cuts, cuts[1:])) or [(Fraction(0), Fraction(1))]
        else:
            ivs = [(cuts[2 * i], cuts[2 * i + 1]) for i in range(n)]
        if mode == "unsorted" and len(ivs) > 1:
            while True:
                perm = list(rng.permutation(len(ivs)))
                if perm != sorted(perm):
                    break
            ivs = [ivs[j] for j in perm]
    else:  # overlapping, arbitrary
        ivs = []
        for _ in range(n):
            a = dy(rng, -4, 6, 4)
            ivs.append((a, a + Fraction(int(rng.integers(0, 12)), 4)))
    return ivs


def sec_blocks(ck, U):
    rng = ck.rng("blocks")
    B = Batch(ck, "blocks/model-vs-impl", lambda r: "blocks(%s, %s) at %s -> impl %s" % (
        r["intervals"], r["amplitudes"], r["xs"], r["impl"]))
    N = ck.n(80, 800)
    modes = ["sorted", "unsorted", "touching", "overlapping"]
    F_ = Fraction
    cases = [("unsorted", [(F_(5), F_(6)), (F_(1), F_(2))], [F_(3), F_(4)]),
             # sort-key ties (blocks sorts by tuple(interval), stably): equal intervals keep their listed order
             ("overlapping", [(F_(1), F_(3)), (F_(1), F_(3))], [F_(2), F_(5)]),
             ("overlapping", [(F_(1), F_(3)), (F_(1), F_(2)), (F_(0), F_(4))], [F_(2), F_(5), F_(7)]),
             ("overlapping", [(F_(2), F_(3)), (F_(1), F_(10))], [F_(5), F_(2)]),
             ("unsorted", [(F_(2), F_(2)), (F_(2), F_(4)), (F_(0), F_(2))], [F_(9), F_(1), F_(3)])]
    for i in range(N):
        mode = modes[i % 4]
        ivs = gen_blocks(rng, mode)
        r = int(rng.integers(0, 4))
        amps = None if r == 0 else [dy(rng, -4, 4, 2) for _ in range(len(ivs) + (1 if r == 1 else 0))]
        cases.append((mode, ivs, amps))
    for i, (mode, ivs, amps) in enumerate(cases):
        knots = [t for iv in ivs for t in iv]
        xs = sample_points(rng, knots, 3)
        num = nat if i % 2 else fl
        expr = U.blocks([(num(a), num(b)) for a, b in ivs], None if amps is None else [num(a) for a in amps])
        got = evaluate(U, expr, xs, ck, "blocks", {"intervals": [(str(a), str(b)) for a, b in ivs],
                                                   "amplitudes": None if amps is None else [str(a) for a in amps]})
        ck.count(("blocks", tuple(ivs), None if amps is None else tuple(amps)), nontrivial=len(ivs) > 1, bucket="blocks:" + mode)
        eff = list(amps) if amps is not None else [Fraction(1)] * len(ivs)
        pairs = list(zip(ivs, eff))
        disjoint = all(a <= b for a, b in ivs) and all(
            p[1] <= q[0] or q[1] <= p[0] for p, q in itertools.combinations(ivs, 2))
        is_sorted = all(a <= b for a, b in ivs) and all(p[1] <= q[0] for p, q in zip(ivs, ivs[1:]))
        # oracle: amplitude of the block [on, off) containing x, else 0 (well defined for disjoint blocks)
        if disjoint and len(pairs) == len(ivs):
            for x, g in zip(xs, got):
                hit = [amp for (a, b), amp in pairs if a <= x < b]
                want = hit[0] if hit else Fraction(0)
                if g != want:
                    sig = "blocks/sorted-disjoint-intervals" if is_sorted else "blocks/unsorted-disjoint-intervals"
                    ck.fail(sig, "blocks(%s, %s) at t=%s returns %s; the block containing t has amplitude %s" % (
                        [(str(a), str(b)) for a, b in ivs], None if amps is None else [str(a) for a in amps], x, g, want),
                        {"intervals": [(str(a), str(b)) for a, b in ivs], "amplitudes": None if amps is None else [str(a) for a in amps],
                         "t": str(x), "impl": str(g), "expected": str(want)})
                    break
        mt = "map (blocks_eval %s %s) %s" % (cpairs(ivs), copt_ql(amps), cql(xs))
        B.add("ql_eqb (%s) %s" % (mt, cql(got)), mt,
              {"intervals": [(str(a), str(b)) for a, b in ivs], "amplitudes": None if amps is None else [str(a) for a in amps],
               "xs": [str(x) for x in xs], "impl": [str(g) for g in got]})
        if i == 3:
            ck.sample({"call": "blocks(%s, %s)" % ([(str(a), str(b)) for a, b in ivs], None if amps is None else [str(a) for a in amps]),
                       "at": [str(x) for x in xs[:6]], "impl": [str(g) for g in got[:6]]})
    n = B.run()
    ck.section("blocks", cases=len(cases), model_cases=n)


def sec_events(ck, U):
    import sympy
    rng = ck.rng("events")
    B = Batch(ck, "events/model-vs-impl", lambda r: "events(%s, %s, f=%s, g=%s) at %s -> impl %s" % (
        r["times"], r["amplitudes"], r["kernel"], r["g"], r["xs"], r["impl"]))
    N = ck.n(70, 700)
    a = sympy.Symbol('a')
    gs = [("a", [Fraction(0), Fraction(1)], a), ("a**2", [Fraction(0), Fraction(0), Fraction(1)], a ** 2),
          ("2*a+1", [Fraction(1), Fraction(2)], 2 * a + 1)]
    for i in range(N):
        n = int(rng.integers(1, 6))
        mode = ["distinct", "coincident", "unsorted"][i % 3]
        if mode == "distinct":
            ts = sorted(set(dy(rng, 0, 8, 2) for _ in range(n)))
        elif mode == "coincident":
            base = [dy(rng, 0, 4, 2) for _ in range(max(1, n // 2))]
            ts = [base[int(rng.integers(0, len(base)))] for _ in range(n + 1)]
        else:
            ts = [dy(rng, 0, 8, 2) for _ in range(n)]
        r = int(rng.integers(0, 3))
        amps = None if r == 0 else [dy(rng, -3, 3, 2) for _ in ts]
        K = Kern.random(rng)
        gname, gc, gsym = gs[0] if amps is None or i % 2 == 0 else gs[1 + (i // 2) % 2]
        xs = sample_points(rng, ts, 4)
        kw = {} if gname == "a" else {"g": gsym}
        num = nat if i % 2 else fl
        expr = U.events([num(t) for t in ts], None if amps is None else [num(v) for v in amps], f=K.sym(), **kw)
        got = evaluate(U, expr, xs, ck, "events", {"times": [str(t) for t in ts], "amplitudes": None if amps is None else [str(v) for v in amps],
                                                   "kernel": K.describe(), "g": gname})
        ck.count(("events", tuple(ts), None if amps is None else tuple(amps), K.describe(), gname),
                 nontrivial=len(ts) > 1, bucket="events:%s:%s" % (mode, K.kind))
        eff = amps if amps is not None else [Fraction(1)] * len(ts)
        G = Kern("poly", gc)
        for x, gv in zip(xs, got):
            want = sum((G.at(am) * K.at(x - t) for t, am in zip(ts, eff)), Fraction(0))
            if gv != want:
                ck.fail("events/superposition/" + mode,
                        "events(%s, %s, f=%s, g=%s)(%s) = %s but sum_i g(a_i) f(t - t_i) = %s" % (
                            [str(t) for t in ts], None if amps is None else [str(v) for v in amps], K.describe(), gname, x, gv, want),
                        {"times": [str(t) for t in ts], "amplitudes": None if amps is None else [str(v) for v in amps],
                         "kernel": K.describe(), "g": gname, "t": str(x), "impl": str(gv), "expected": str(want)})
                break
        mt = "map (events_eval (keval %s) (keval %s) %s %s) %s" % (K.coq(), G.coq(), cql(ts), copt_ql(amps), cql(xs))
        B.add("ql_eqb (%s) %s" % (mt, cql(got)), mt,
              {"times": [str(t) for t in ts], "amplitudes": None if amps is None else [str(v) for v in amps],
               "kernel": K.describe(), "g": gname, "xs": [str(x) for x in xs], "impl": [str(v) for v in got]})
        if i == 1:
            ck.sample({"call": "events(%s, %s, f=%s)" % ([str(t) for t in ts], None if amps is None else [str(v) for v in amps], K.describe()),
                       "at": [str(x) for x in xs[:5]], "impl": [str(v) for v in got[:5]]})
    n = B.run()
    ck.section("events", cases=N, model_cases=n)


def sec_interp(ck, U):
    rng = ck.rng("interp")
    B = Batch(ck, "interp/model-vs-impl", lambda r: "%s(%s, %s, fill=%s) at %s -> impl %s" % (
        r["fn"], r["times"], r["values"], r["fill"], r["xs"], r["impl"]))
    N = ck.n(50, 500)
    for i in range(N):
        n = int(rng.integers(2, 6))
        ts = [dy(rng, -3, 3, 2)]
        for _ in range(n - 1):
            ts.append(ts[-1] + Fraction([1, 2, 4, 1, 1][int(rng.integers(0, 5))], [1, 2][int(rng.integers(0, 2))]))
        vs = [dy(rng, -4, 4, 4) for _ in ts]
        fill = dy(rng, -3, 3, 2) if i % 3 else Fraction(0)
        xs = sample_points(rng, ts, 3)
        fn = U.interp if i % 2 else U.linear_interp
        num = nat if i % 4 >= 2 else fl
        expr = fn([num(t) for t in ts], [num(v) for v in vs], fill=num(fill))
        got = evaluate(U, expr, xs, ck, "interp", {"fn": fn.__name__, "times": [str(t) for t in ts], "values": [str(v) for v in vs], "fill": str(fill)})
        ck.count(("interp", tuple(ts), tuple(vs), fill), bucket="interp:n=%d" % len(ts))
        for x, g in zip(xs, got):
            if x < ts[0] or x > ts[-1]:
                if g != fill:
                    ck.fail("interp/fill-outside", "interp(%s,%s,fill=%s)(%s) = %s outside the sample range" % (ts, vs, fill, x, g),
                            {"times": [str(t) for t in ts], "values": [str(v) for v in vs], "fill": str(fill), "t": str(x), "impl": str(g)})
                    break
            elif x in ts and g != vs[ts.index(x)]:
                ck.fail("interp/hits-samples", "interp(%s,%s)(%s) = %s, sample value is %s" % (ts, vs, x, g, vs[ts.index(x)]),
                        {"times": [str(t) for t in ts], "values": [str(v) for v in vs], "t": str(x), "impl": str(g)})
                break
        mt = "opts (map (interp_eval %s %s) %s)" % (cq(fill), cpairs(zip(ts, vs)), cql(xs))
        B.add("match %s with Some l => ql_eqb l %s | None => false end" % (mt, cql(got)), mt,
              {"fn": fn.__name__, "times": [str(t) for t in ts], "values": [str(v) for v in vs], "fill": str(fill),
               "xs": [str(x) for x in xs], "impl": [str(g) for g in got]})
    n = B.run()
    ck.section("interp", cases=N, model_cases=n)


def sec_conv(ck, U):
    rng = ck.rng("conv")
    B = Batch(ck, "convolve/model-vs-impl", lambda r: "%s(f=%s, g=%s, %s, %s, dt=%s, fill=%s) at %s -> impl %s" % (
        r["via"], r["f"], r["g"], r["f_interval"], r["g_interval"], r["dt"], r["fill"], r["xs"], r["impl"]))
    N = ck.n(40, 400)
    for i in range(N):
        dt = [Fraction(1), Fraction(1, 2), Fraction(1, 4)][i % 3]
        F = Kern.random(rng, allow_const=False)
        G = Kern.random(rng, allow_const=False)

        def interval():
            a = dy(rng, -2, 2, 4)
            b = a + Fraction(int(rng.integers(1, 9)), 4) * (4 * dt if dt < 1 else 2)
            return (a, b)
        fiv, giv = interval(), interval()
        if i % 5 == 4:
            fiv = (fiv[1], fiv[0])          # sorted(interval) in _eval_for, min() for the origin
        fill = Fraction(0) if i % 4 else dy(rng, -2, 2, 2)
        mnf, mxf, mng, mxg = min(fiv), max(fiv), min(giv), max(giv)
        nf = len([k for k in range(1000) if mnf + k * dt < mxf])
        ng = len([k for k in range(1000) if mng + k * dt < mxg])
        if nf + ng - 1 < 2 or nf + ng > 40:
            continue
        times = [mnf + mng + k * dt for k in range(nf + ng - 1)]
        xs = times[:] + [t + dt / 2 for t in times[:-1:2]] + [times[0] - dt, times[-1] + dt / 4, times[-1] + 3]
        via = "TimeConvolver" if i % 2 else "convolve_functions"
        fexpr, gexpr = F.sym()(U.T), G.sym()(U.T)
        fI, gI = [fl(v) for v in fiv], [fl(v) for v in giv]
        try:
            if via == "TimeConvolver":
                expr = U.TimeConvolver(fexpr, fI, fl(dt), fill=fl(fill)).convolve(gexpr, gI)
            else:
                expr = U.convolve_functions(fexpr, gexpr, fI, gI, fl(dt), fill=fl(fill))
            got = evaluate(U, expr, xs, ck, "convolve", {"via": via, "f": F.describe(), "g": G.describe(), "f_interval": [str(v) for v in fiv],
                                                         "g_interval": [str(v) for v in giv], "dt": str(dt), "fill": str(fill)})
        except Exception as e:  # noqa
            ck.fail("convolve/raises", "%s raised %s: %s" % (via, type(e).__name__, e),
                    {"f": F.describe(), "g": G.describe(), "f_interval": [str(v) for v in fiv], "g_interval": [str(v) for v in giv], "dt": str(dt)})
            continue
        ck.count(("conv", F.describe(), G.describe(), fiv, giv, dt, fill, via), bucket="conv:%s:dt=%s" % (via, dt))
        # oracle: grid lengths of _eval_for
        fv = U._eval_for(fexpr, fI, fl(dt))
        gv = U._eval_for(gexpr, gI, fl(dt))
        if (len(fv), len(gv)) != (nf, ng):
            ck.fail("convolve/eval_for-grid-length", "_eval_for grid lengths %s, expected %s" % ((len(fv), len(gv)), (nf, ng)),
                    {"f_interval": [str(v) for v in fiv], "g_interval": [str(v) for v in giv], "dt": str(dt)})
        # oracle: at grid time_k the value is dt * sum_i F(s_i) G(time_k - s_i)  (Riemann sum, exact)
        for k, tk in enumerate(times):
            want = dt * sum((F.at(mnf + j * dt) * G.at(tk - (mnf + j * dt)) for j in range(nf) if 0 <= k - j < ng), Fraction(0))
            if got[k] != want:
                ck.fail("convolve/riemann-sum", "%s(f=%s,g=%s,%s,%s,dt=%s) at t=%s gives %s, dt*sum f(s)g(t-s) = %s" % (
                    via, F.describe(), G.describe(), [str(v) for v in fiv], [str(v) for v in giv], dt, tk, got[k], want),
                    {"via": via, "f": F.describe(), "g": G.describe(), "f_interval": [str(v) for v in fiv],
                     "g_interval": [str(v) for v in giv], "dt": str(dt), "t": str(tk), "impl": str(got[k]), "expected": str(want)})
                break
        # oracle: direct numerical convolution with numpy (1e-10)
        direct = np.convolve([fl(F.at(mnf + j * dt)) for j in range(nf)], [fl(G.at(mng + j * dt)) for j in range(ng)]) * fl(dt)
        if np.max(np.abs(direct - np.array([fl(v) for v in got[:len(times)]]))) > 1e-10:
            ck.fail("convolve/direct-numpy", "convolved function differs from np.convolve of the samples by more than 1e-10",
                    {"via": via, "f": F.describe(), "g": G.describe(), "f_interval": [str(v) for v in fiv],
                     "g_interval": [str(v) for v in giv], "dt": str(dt)})
        for x, g in zip(xs, got):
            if (x < times[0] or x > times[-1]) and g != fill:
                ck.fail("convolve/fill-outside", "value %s at t=%s outside the convolution support, fill=%s" % (g, x, fill),
                        {"via": via, "t": str(x), "fill": str(fill), "f_interval": [str(v) for v in fiv], "g_interval": [str(v) for v in giv], "dt": str(dt)})
                break
        mt = "opts (map (convolve_eval (keval %s) (keval %s) (%s, %s) (%s, %s) %s %s) %s)" % (
            F.coq(), G.coq(), cq(fiv[0]), cq(fiv[1]), cq(giv[0]), cq(giv[1]), cq(dt), cq(fill), cql(xs))
        B.add("match %s with Some l => ql_eqb l %s | None => false end" % (mt, cql(got)), mt,
              {"via": via, "f": F.describe(), "g": G.describe(), "f_interval": [str(v) for v in fiv],
               "g_interval": [str(v) for v in giv], "dt": str(dt), "fill": str(fill),
               "xs": [str(x) for x in xs], "impl": [str(g) for g in got]})
        if len(B.terms) == 2:
            ck.sample({"call": "%s(f=%s, g=%s, %s, %s, dt=%s)" % (via, F.describe(), G.describe(), [str(v) for v in fiv], [str(v) for v in giv], dt),
                       "grid_times": [str(t) for t in times[:5]], "impl": [str(g) for g in got[:5]]})
    n = B.run()
    ck.section("convolve", cases=len(B.terms), model_cases=n)


# ----------------------------------------------------------------------------
# section 2: formulae
# ----------------------------------------------------------------------------
TERM_POOL = ["x", "y", "z", "age", "A1", "b2", "Zed", "w0", "m", "t9", "K", "ab", "sez", "G"]
FAC_POOL = ["f", "g", "sex", "Grp", "c3", "zz", "a", "B", "q7", "Yf"]
LEVEL_POOLS = [None, None, ["a", "b", "c"], ["f", "m", "x"], ["B", "a", "C"], ["1x", "y2", "Z"]]   # None: integer levels 1..3


# (dtype, wide range lo..hi, small range lo..hi) of a numeric record field
NUM_DTYPES = [(np.float64, -3, 3, -3, 3), (np.int64, -3, 3, -3, 3), (np.float32, -3, 3, -3, 3), (np.uint8, 0, 20, 0, 6),
              (np.int8, -12, 12, -3, 3), (np.uint16, 0, 300, 0, 6), (np.int32, -50000, 50000, -3, 3), (np.bool_, 0, 1, 0, 1),
              (np.float64, -3, 3, -3, 3), (np.int16, -200, 200, -3, 3)]


class Universe:
    """numeric terms + factors with names drawn from pools whose mutual sort order varies (term names before /
    after the factor-level names, mixed case, digits), integer or string levels, shuffled record field order.
    Model rows hold integers: numeric values, and level CODES 1..3 for the factor columns."""

    def __init__(self, rng, FM, nt, nfac, nrows, wide=False):
        self.FM = FM
        self.num_names = [TERM_POOL[k] for k in rng.choice(len(TERM_POOL), size=nt, replace=False)]
        fpool = [n for n in FAC_POOL if n not in self.num_names]
        self.fac_names = [fpool[k] for k in rng.choice(len(fpool), size=nfac, replace=False)]
        self.lev_pool = [LEVEL_POOLS[int(rng.integers(0, len(LEVEL_POOLS)))] for _ in range(nfac)]
        self.nt, self.nfac = nt, nfac
        # field dtypes of the record array vary: Formula.design must evaluate the terms in float64 whatever the
        # storage type (values are chosen so that products / powers leave the range of the narrow and unsigned types)
        self.num_dtype = [NUM_DTYPES[int(rng.integers(0, len(NUM_DTYPES)))] for _ in range(nt)]
        fac_int = [np.int_, np.int8, np.uint8, np.int32]
        rows = []
        for _ in range(nrows):
            rows.append([int(rng.integers(d[1 if wide else 3], d[2 if wide else 4] + 1)) for d in self.num_dtype]
                        + [int(rng.integers(1, 4)) for _ in range(nfac)])
        self.rows = rows
        fields = [(n, self.num_dtype[c][0]) for c, n in enumerate(self.num_names)] + [
            (n, fac_int[int(rng.integers(0, 4))] if self.lev_pool[j] is None else "U2") for j, n in enumerate(self.fac_names)]
        order = [int(k) for k in rng.permutation(len(fields))]           # design() reads fields by NAME
        self.data = np.array([tuple(self.py_value(c, r[c]) for c in order) for r in rows], dtype=[fields[c] for c in order])
        self.terms = [FM.Term(n) for n in self.num_names]
        self.atoms = [("num", c, None) for c in range(nt)]
        self.sym2atom = {n: c for c, n in enumerate(self.num_names)}
        self.atom_name = list(self.num_names)
        self.factors = []
        for j, name in enumerate(self.fac_names):
            col = nt + j
            present = sorted(set(r[col] for r in rows))
            levels = present if rng.integers(0, 3) else [1, 2, 3][:int(rng.integers(1, 4))]
            if rng.integers(0, 2):
                levels = [levels[k] for k in rng.permutation(len(levels))]
            self.factors.append(self.make_factor(j, levels))

    def py_value(self, c, v):
        if c < self.nt or self.lev_pool[c - self.nt] is None:
            return v
        return self.lev_pool[c - self.nt][v - 1]

    def make_factor(self, j, codes):
        """Factor over the level codes `codes` of factor j; registers its level atoms (once)"""
        name, col = self.fac_names[j], self.nt + j
        idx = []
        for lev in codes:
            key = "%s_%s" % (name, self.py_value(col, lev))
            if key not in self.sym2atom:
                self.sym2atom[key] = len(self.atoms)
                self.atoms.append(("lev", col, lev))
                self.atom_name.append(key)
            idx.append(self.sym2atom[key])
        return (self.FM.Factor(name, [self.py_value(col, lev) for lev in codes]), idx, list(codes), col)

    def describe(self):
        return {"fields": list(self.data.dtype.names), "field_dtypes": [str(self.data.dtype[n]) for n in self.data.dtype.names], "atoms": self.atom_name,
                "records": [list(map(str, r)) for r in self.data.tolist()]}

    def coq_atoms(self):
        return "[" + "; ".join("ANum %s" % cnat(c) if k == "num" else "ALev %s %s" % (cnat(c), cz(l)) for k, c, l in self.atoms) + "]"

    def coq_data(self):
        return "[" + "; ".join(czl(r) for r in self.rows) + "]"

    def atomvals(self, row):
        return [row[c] if k == "num" else (1 if row[c] == l else 0) for k, c, l in self.atoms]

    def canon(self, e):
        """sympy expression -> (integer coefficient, exponent vector); fail-closed"""
        import sympy
        c, rest = sympy.sympify(e).as_coeff_Mul()
        if c != int(c) or int(c) < 1:
            raise ValueError("coefficient %r in %r" % (c, e))
        mon = [0] * len(self.atoms)
        for base, ex in rest.as_powers_dict().items():
            if base == 1:
                continue
            if not base.is_Symbol or str(base) not in self.sym2atom or ex != int(ex) or int(ex) < 1:
                raise ValueError("cannot canonicalise %r" % (e,))
            mon[self.sym2atom[str(base)]] += int(ex)
        return int(c), tuple(mon)

    def meval(self, mon, row):
        v = 1
        for a, e in zip(self.atomvals(row), mon):
            v *= a ** e
        return v


def gen_formula(rng, U, depth):
    """returns (python Formula, coq fexpr, description)"""
    FM = U.FM
    if depth == 0 or rng.integers(0, 4) == 0:
        k = min(3, int(rng.integers(0, 6 if U.nfac else 3)))      # with factors present, half of the leaves are factors
        if k == 0:
            return FM.I, "EOne", "I"
        if k == 3:
            fac, idx, levels, col = U.factors[int(rng.integers(0, U.nfac))]
            return fac, "(EAtoms true %s)" % ("[" + "; ".join(cnat(i) for i in idx) + "]"), "Factor(%s,%s)" % (fac.name, [str(l) for l in fac.levels])
        size = 1 if k == 1 else int(rng.integers(1, U.nt + 1))
        sel = [int(v) for v in rng.choice(U.nt, size=size, replace=False)]
        if k == 1:
            f = U.terms[sel[0]].formula
        else:
            f = FM.Formula([U.terms[s] for s in sel])
        return f, "(EAtoms false %s)" % ("[" + "; ".join(cnat(i) for i in sel) + "]"), "F[%s]" % ",".join(U.num_names[s] for s in sel)
    a, ca, da = gen_formula(rng, U, depth - 1)
    r = int(rng.integers(0, 7))
    if r == 6:   # "power": f*f
        return _apply(U, "*", a, a, ca, ca, da, da)
    b, cb, db = gen_formula(rng, U, depth - 1)
    op = "+" if r < 2 else "*" if r < 5 else "-"
    return _apply(U, op, a, b, ca, cb, da, db)


ORDER_SENSITIVE = [0]


def _apply(U, op, a, b, ca, cb, da, db):
    FM = U.FM
    if op == "+":
        return a + b, "(EAdd %s %s)" % (ca, cb), "(%s + %s)" % (da, db)
    if op == "-":
        return a - b, "(ESub %s %s)" % (ca, cb), "(%s - %s)" % (da, db)
    if FM.is_factor(a) and list(a.terms) != list(b.terms) and set(a.terms) == set(b.terms):
        # `Factor * other` takes the `self == other` shortcut only if other's terms are in the SAME order; after a product
        # that order is sympy's (not modelled) - this order-sensitive corner is left out of the correspondence
        ORDER_SENSITIVE[0] += 1
        return a + b, "(EAdd %s %s)" % (ca, cb), "(%s + %s)" % (da, db)
    return a * b, "(EMul %s %s)" % (ca, cb), "(%s * %s)" % (da, db)


def check_ops(ck, FM, rng, U):
    """oracle on the algebra itself: + concatenates, - removes preserving order, * = distinct pairwise products"""
    a, _, da = gen_formula(rng, U, 1)
    b, _, db = gen_formula(rng, U, 1)
    ta, tb = list(a.terms), list(b.terms)
    if list((a + b).terms) != ta + tb:
        ck.fail("formula/add-not-concatenation", "(%s)+(%s) terms %s" % (da, db, list((a + b).terms)), {"a": da, "b": db})
    want = [t for t in ta if t not in tb]
    if list((a - b).terms) != want:
        ck.fail("formula/sub-not-order-preserving-removal", "(%s)-(%s) terms %s, expected %s" % (da, db, list((a - b).terms), want),
                {"a": da, "b": db, "impl": [str(t) for t in (a - b).terms], "expected": [str(t) for t in want]})
    if not (FM.is_factor(a) and a == b):
        prod = list((a * b).terms)
        import sympy
        pw = set(sympy.Mul(s, o) for s in ta for o in tb)   # plain sympy product (Formula.__mul__ uses Term.__mul__, not FactorTerm's idempotent one)
        if set(prod) != pw or len(prod) != len(pw):
            sig = "formula/mul-duplicates" if set(prod) == pw else "formula/mul-not-pairwise-products"
            ck.fail(sig, "(%s)*(%s) terms %s, distinct pairwise products %s" % (da, db, prod, sorted(map(str, pw))),
                    {"a": da, "b": db, "impl": [str(t) for t in prod], "expected": sorted(map(str, pw))})
    ck.count(("ops", da, db), bucket="formula:ops")


def name_order_feature(U, mult):
    """structural feature of a formula for failure signatures: which kinds of atoms it uses and how their names sort"""
    used = set(a for mon in mult for a, e in enumerate(mon) if e)
    nums = sorted(U.atom_name[a] for a in used if U.atoms[a][0] == "num")
    levs = sorted(U.atom_name[a] for a in used if U.atoms[a][0] == "lev")
    if not levs:
        return "numeric-terms-only"
    if not nums:
        return "factor-terms-only"
    if nums[0] < levs[-1] and levs[0] < nums[-1]:
        return "mixed/term-and-level-names-interleaved"
    return "mixed/term-name-sorts-before-level-names" if nums[-1] < levs[0] else "mixed/level-names-sort-before-term-name"


def sec_formulae(ck, FM):
    rng = ck.rng("formulae")
    B = Batch(ck, "design/model-vs-impl", lambda r: "%s .design(%s) -> impl columns %s" % (r["formula"], r["rows"], r["impl"]))
    N = ck.n(150, 1500)
    n_dup = 0
    n_big = 0
    dtypes_seen = {}
    feats = {}
    for i in range(N):
        nt = 1 + i % 3
        nfac = [0, 1, 1, 2, 2][(i // 3) % 5]
        U = Universe(rng, FM, nt, nfac, int(rng.integers(1, 6)), wide=(i % 3 != 0))
        f, cexpr, desc = gen_formula(rng, U, 1 + i % 3)
        check_ops(ck, FM, rng, U)
        impl = None
        try:
            d = f.design(U.data)
            exprs = f.design_expr
            names = d.dtype.names
            if len(names) != len(exprs):
                raise AssertionError("design has %d columns for %d design expressions" % (len(names), len(exprs)))
            impl = []
            for e, nm in zip(exprs, names):
                k, mon = U.canon(e)
                col = [frac(float(v)) for v in np.asarray(d[nm], dtype=float).ravel()]
                if any(v.denominator != 1 for v in col) or len(col) != len(U.rows):
                    raise AssertionError("non-integer or mis-shaped column %s: %s" % (nm, col))
                impl.append((k, mon, [int(v) for v in col]))
            # named-field view (recarray, return_float=False) against the design expressions and the float matrix
            if list(names) != [str(e) for e in exprs] and list(names) != ["intercept"]:
                ck.fail("design/field-names", "%s: recarray fields %s, design expressions %s" % (desc, list(names), [str(e) for e in exprs]),
                        {"formula": desc, "universe": U.describe(), "fields_of_design": list(names)})
            Dm = np.asarray(f.design(U.data, return_float=True), dtype=float).reshape(len(U.rows), -1)
            if Dm.shape[1] != len(names) or any(not np.array_equal(Dm[:, j], np.asarray(d[nm], dtype=float).ravel()) for j, nm in enumerate(names)):
                ck.fail("design/float-vs-named-fields", "%s: design(return_float=True) columns differ from the recarray fields %s" % (desc, list(names)),
                        {"formula": desc, "universe": U.describe(), "float": Dm.tolist(), "named": {nm: np.asarray(d[nm], dtype=float).ravel().tolist() for nm in names}})
        except (ValueError, AttributeError, TypeError) as e:
            if len(f.terms) != 0:
                ck.fail("design/raises", "%s .design raised %s: %s" % (desc, type(e).__name__, e),
                        {"formula": desc, "rows": U.rows, "universe": U.describe()})
                continue
            impl = None
        terms = list(f.terms)
        mult = {}
        for t in terms:
            mult[U.canon(t)[1]] = mult.get(U.canon(t)[1], 0) + 1
        if any(abs(U.meval(mon, r)) * m >= 2 ** 53 for mon, m in mult.items() for r in U.rows):
            n_big += 1          # a term value is not exactly representable in float64: outside the exact island
            continue
        dup = any(v > 1 for v in mult.values())
        n_dup += dup
        dts = sorted(set(np.dtype(U.num_dtype[a][0]).name for mon in mult for a, e in enumerate(mon) if e and U.atoms[a][0] == "num"))
        for dn in dts:
            dtypes_seen[dn] = dtypes_seen.get(dn, 0) + 1
        narrow = any(dn not in ("float64", "int64") for dn in dts)
        ck.count(("design", desc, tuple(map(tuple, U.rows))), nontrivial=len(terms) > 1,
                 bucket="design:terms=%s:%s%s" % (len(terms) if len(terms) < 6 else "6+", name_order_feature(U, mult), ":dup" if dup else ""))
        feats[name_order_feature(U, mult)] = feats.get(name_order_feature(U, mult), 0) + 1
        # oracle: one column per distinct term, column = term evaluated row-wise
        if impl is not None:
            cols = {mon: (k, col) for k, mon, col in impl}
            if len(cols) != len(impl) or set(cols) != set(mult):
                ck.fail("design/columns-vs-terms", "%s: design monomials %s, formula terms %s" % (desc, sorted(cols), sorted(mult)),
                        {"formula": desc, "rows": U.rows, "universe": U.describe()})
            else:
                for mon, m in mult.items():
                    k, col = cols[mon]
                    want = [U.meval(mon, r) for r in U.rows]
                    if k == 1 and col == want:
                        continue
                    if m > 1 and k == m and col == [m * w for w in want]:
                        ck.fail("design/duplicate-term-column-scaled",
                                "%s lists the term %s %d times; its design column is %d*term = %s instead of %s" % (desc, mon, m, m, col, want),
                                {"formula": desc, "rows": U.rows, "universe": U.describe(), "term": list(mon), "impl": col, "expected": want})
                    else:
                        tname = "*".join("%s%s" % (U.atom_name[a], "" if e == 1 else "**%d" % e) for a, e in enumerate(mon) if e) or "1"
                        ck.fail("design/column-not-term/" + name_order_feature(U, mult) + ("/narrow-or-unsigned-field-dtype" if narrow else ""),
                                "%s: design field of term %s is %s*%s, the term evaluated on the records gives %s" % (desc, tname, k, col, want),
                                {"formula": desc, "rows": U.rows, "universe": U.describe(), "term": tname, "impl": col, "expected": want})
                        break
        cimpl = "None" if impl is None else "(Some [%s])" % "; ".join(
            "(%s, %s, %s)" % (cz(k), "[" + "; ".join(cnat(e) for e in mon) + "]", czl(col)) for k, mon, col in impl)
        mt = "design %s %s %s" % (U.coq_atoms(), cexpr, U.coq_data())
        B.add("design_agrees %s %s %s %s" % (U.coq_atoms(), cexpr, U.coq_data(), cimpl), mt,
              {"formula": desc, "universe": U.describe(), "atoms": [list(a) for a in U.atoms], "rows": U.rows,
               "impl": None if impl is None else [[k, list(m), c] for k, m, c in impl]})
        if i in (7, 20):
            ck.sample({"formula": desc, "universe": U.describe(), "rows": U.rows[:3],
                       "design_columns": None if impl is None else [(k, list(m), c[:3]) for k, m, c in impl[:5]]})
    # Factor partition oracle
    nF = ck.n(30, 300)
    for i in range(nF):
        U = Universe(rng, FM, 1, 1, int(rng.integers(1, 7)))
        fname = U.fac_names[0]
        codes = [r[1] for r in U.rows]
        col = [U.py_value(1, c) for c in codes]
        ulev = sorted(set(col))
        fac = FM.Factor.fromcol(U.data[fname], fname) if i % 2 else FM.Factor(fname, ulev)
        d = fac.design(U.data)
        M = np.array([[float(v) for v in row] for row in d.tolist()]).reshape(len(col), -1)
        ck.count(("factor", fname, tuple(col)), bucket="factor:levels=%d" % len(ulev))
        ok = np.all((M == 0) | (M == 1)) and np.all(M.sum(1) == 1) and M.shape[1] == len(ulev)
        if ok:
            for lev in ulev:
                nm = "%s_%s" % (fname, lev)
                if nm not in d.dtype.names or [int(v) for v in np.asarray(d[nm]).ravel()] != [1 if c == lev else 0 for c in col]:
                    ok = False
        if not ok:
            ck.fail("factor/indicators-partition", "Factor %s design of column %s is not the level-indicator partition: %s %s" % (fname, col, d.dtype.names, M.tolist()),
                    {"factor": fname, "column": [str(c) for c in col], "names": list(d.dtype.names), "design": M.tolist()})
    n = B.run()
    ck.section("formulae", cases=N, model_cases=n, formulas_with_repeated_term=n_dup, factor_cases=nF, name_order_features=feats, numeric_field_dtypes_used=dtypes_seen, skipped_not_float64_exact=n_big,
               products_replaced_because_shortcut_is_order_sensitive=ORDER_SENSITIVE[0])


# ----------------------------------------------------------------------------
# section 2b: natural splines (formulae.natural_spline, design.natural_spline)
# ----------------------------------------------------------------------------
def spline_want(order, knots, intercept, xs):
    """independent statement (Fractions): names and columns of the spline basis; x**0 = 1, knot function 0 up to and
    including the knot, (x-k)**order after it"""
    cols = [(i, "poly", [Fraction(x) ** i for x in xs]) for i in range(order + 1)]
    cols += [(order + 1 + j, "knot", [(Fraction(x) - k) ** order if x > k else Fraction(0) for x in xs]) for j, k in enumerate(knots)]
    return cols if intercept else cols[1:]


def sec_spline(ck, FM, DS):
    """natural_spline(t, knots, order, intercept).design(data) and fmri.design.natural_spline(tvals, ...):
    orders 0..4 (order 0 = piecewise-constant basis), 0..5 knots in any order (repeated knots, knots outside the data),
    data that hit knots exactly / lie left / right / between, float64 / float32 / int64 / int32 fields, knots written
    as ints or floats, optional arguments omitted.  Columns are read BY NAME (ns_<i>(<term>))."""
    import re
    rng = ck.rng("spline")
    B = Batch(ck, "natural_spline/model-vs-impl", lambda r: "natural_spline(%s, knots=%s, order=%s, intercept=%s) on %s -> impl names %s rows %s" % (
        r["term"], r["knots"], r["order"], r["intercept"], r["data"], r["impl_names"], r["impl_rows"]))
    N = ck.n(90, 900)
    n_named = n_wrap = n_many = 0
    for i in range(N):
        order = i % 5                                      # 0,1,2,3,4
        nk = [1, 2, 0, 3, 1, 5, 2][i % 7] if i % 11 else 8  # now and then more than 10 functions (names ns_10.. sort before ns_2)
        kmode = ["increasing", "unsorted", "repeated", "outside-data"][(i // 5) % 4]
        den = [1, 2, 4][i % 3]
        if kmode == "outside-data":
            knots = [Fraction(int(v)) for v in rng.integers(5, 8, size=nk)]
        else:
            knots = [dy(rng, -3, 3, den) for _ in range(nk)]
        if kmode == "increasing":
            knots = sorted(set(knots))
        elif kmode == "repeated" and knots:
            knots = knots + [knots[0]]
        intercept = bool((i // 2) % 2)
        dt = ["float64", "float64", "int64", "float32", "int32"][(i // 3) % 5]
        if dt in ("int64", "int32"):
            xs = [Fraction(int(v)) for v in rng.integers(-4, 5, size=int(rng.integers(1, 7)))] + [Fraction(int(k)) for k in knots[:2] if k.denominator == 1]
        else:
            xs = list(knots[:3]) + [k + Fraction(1, 4) for k in knots[:1]] + [k - Fraction(1, 4) for k in knots[:1]] + \
                 [dy(rng, -4, 4, 4) for _ in range(int(rng.integers(1, 5)))] + [Fraction(0)]
        order_f = "order-0" if order == 0 else "order>=1"
        tname = ["x", "t", "age", "Zed"][i % 4]
        num = nat if i % 2 else fl
        kw = {}
        if knots or i % 3:
            kw["knots"] = [num(k) for k in knots]
        if order != 3 or i % 2:
            kw["order"] = order
        want = spline_want(order, knots, intercept, xs)
        rp = {"term": tname, "knots": [str(k) for k in knots], "order": order, "intercept": intercept, "data": [str(x) for x in xs],
              "field_dtype": dt, "kwargs": {k: (v if k != "knots" else [repr(a) for a in v]) for k, v in kw.items()}}
        data = np.array([fl(x) for x in xs]).astype(dt).view(np.dtype([(tname, dt)]))
        ck.count(("spline", order, tuple(knots), intercept, tuple(xs), dt), nontrivial=bool(knots), bucket="spline:%s/%s/%s" % (order_f, kmode, dt))
        n_many += len(want) > 10
        if not want:
            continue            # empty Formula: covered by the formulae section (design raises)
        try:
            f = FM.natural_spline(FM.Term(tname), intercept=intercept, **kw) if (intercept or i % 2) else FM.natural_spline(FM.Term(tname), **kw)
            terms = list(f.terms)
            d = f.design(data)
            names = list(d.dtype.names)
            Dm = np.asarray(f.design(data, return_float=True), dtype=float).reshape(len(xs), -1)
        except Exception as e:  # noqa
            ck.fail("natural_spline/raises/" + order_f, "natural_spline(...).design raised %s: %s" % (type(e).__name__, e), rp)
            continue
        # docstring: len(knots) + order (+1) terms, all distinct
        if len(terms) != len(want) or len(set(str(t) for t in terms)) != len(terms):
            ck.fail("natural_spline/term-count/" + order_f, "%d terms (%d distinct) for %d knots, order %d, intercept=%s: expected %d" % (
                len(terms), len(set(str(t) for t in terms)), len(knots), order, intercept, len(want)), dict(rp, terms=[str(t) for t in terms]))
            continue
        # terms in listing order are ns_s(t), ns_{s+1}(t), ...
        idx_terms = []
        for t in terms:
            m = re.fullmatch(r"ns_(\d+)\(%s\)" % re.escape(tname), str(t))
            idx_terms.append(int(m.group(1)) if m else None)
        if idx_terms != [w[0] for w in want]:
            ck.fail("natural_spline/term-names", "terms %s, expected ns_%s" % ([str(t) for t in terms], [w[0] for w in want]), dict(rp, terms=[str(t) for t in terms]))
            continue
        if sorted(names) != sorted(str(t) for t in terms):
            ck.fail("design/field-names/natural_spline", "recarray fields %s for terms %s" % (names, [str(t) for t in terms]), dict(rp, fields=names))
            continue
        # every column, read by name, is the spline function evaluated on the data
        impl_rows_ok = True
        impl_cols = {}
        for idx, kind, col in want:
            nm = "ns_%d(%s)" % (idx, tname)
            got = fracs(d[nm])
            impl_cols[idx] = got
            if got != col and impl_rows_ok:
                impl_rows_ok = False
                k = None if kind == "poly" else knots[idx - order - 1]
                bad = [r for r in range(len(xs)) if got[r] != col[r]][0]
                where = "" if kind == "poly" else ("/datum-at-knot" if xs[bad] == k else "/datum-left-of-knot" if xs[bad] < k else "/datum-right-of-knot")
                ck.fail("natural_spline/column-not-spline-function/%s/%s-column%s" % (order_f, kind, where),
                        "column %s at %s = %s is %s, the spline function %s gives %s" % (
                            nm, tname, xs[bad], got[bad], "x**%d" % idx if kind == "poly" else "(x-%s)**%d * (x > %s)" % (k, order, k), col[bad]),
                        dict(rp, column=nm, datum=str(xs[bad]), impl=str(got[bad]), expected=str(col[bad])))
        n_named += 1
        if Dm.shape[1] != len(names) or any(fracs(Dm[:, j]) != fracs(d[nm]) for j, nm in enumerate(names)):
            ck.fail("design/float-vs-named-fields/natural_spline", "design(return_float=True) columns differ from the recarray fields %s" % names,
                    dict(rp, float=Dm.tolist()))
        # fmri.design.natural_spline = the same design on a field 't' (column order = field order of the formula's design)
        if dt == "float64" or i % 2:
            try:
                kw2 = dict(kw)
                if not intercept or i % 2:
                    kw2["intercept"] = intercept          # default of the wrapper is True
                W = np.asarray(DS.natural_spline(np.array([fl(x) for x in xs]).astype(dt), **kw2), dtype=float).reshape(len(xs), -1)
                wn = [int(re.fullmatch(r"ns_(\d+)\(.*\)", nm).group(1)) for nm in names]
                if W.shape[1] != len(want) or any(fracs(W[:, j]) != dict((w[0], w[2]) for w in want)[ix] for j, ix in enumerate(wn)):
                    ck.fail("design.natural_spline/columns/" + order_f, "fmri.design.natural_spline(%s, %s) columns are not the spline functions (in field order %s)" % (
                        [str(x) for x in xs], kw2, wn), dict(rp, wrapper_kwargs=repr(kw2), impl=W.tolist()))
                n_wrap += 1
            except Exception as e:  # noqa
                ck.fail("design.natural_spline/raises", "fmri.design.natural_spline raised %s: %s" % (type(e).__name__, e), rp)
        # model
        rows = [[impl_cols[w[0]][r] for w in want] for r in range(len(xs))]
        mt = "(ns_names (natural_spline %d %s %s), ns_design %d %s %s %s)" % (
            order, cql(knots), "true" if intercept else "false", order, cql(knots), "true" if intercept else "false", cql(xs))
        B.add("ns_agrees %d %s %s %s [%s] [%s]" % (order, cql(knots), "true" if intercept else "false", cql(xs),
                                                     "; ".join("%d%%nat" % v for v in idx_terms), "; ".join(cql(r) for r in rows)),
              mt, dict(rp, impl_names=idx_terms, impl_rows=[[str(v) for v in r] for r in rows]))
        if i in (0, 5):
            ck.sample({"call": "natural_spline(Term(%r), %s, intercept=%s).design" % (tname, kw, intercept), "data": [str(x) for x in xs],
                       "fields": names, "rows": [[str(v) for v in r] for r in rows[:4]]})
    n = B.run()
    ck.section("natural_spline", cases=N, named_designs=n_named, wrapper_cases=n_wrap, model_cases=n, cases_with_more_than_10_functions=n_many,
               note="with more than 10 functions Formula.design orders the fields by NAME (ns_10 before ns_2): columns are compared by name")


# ----------------------------------------------------------------------------
# section 3: contrasts and design bookkeeping
# ----------------------------------------------------------------------------
def sec_contrasts(ck, FM):
    rng = ck.rng("contrasts")
    N = ck.n(40, 400)
    done = 0
    for i in range(N):
        nt = 1 + i % 3
        U = Universe(rng, FM, nt, i % 2, int(rng.integers(4, 9)))
        parts = [FM.Formula([t]) for t in U.terms]
        names = list(U.num_names)
        f = sum(parts[1:], parts[0])
        if U.nfac:
            fac = U.make_factor(0, sorted(set(r[nt] for r in U.rows)))[0]
            f = f + fac
        elif i % 4 == 0:
            f = f + FM.I
        D = np.atleast_2d(f.design(U.data, return_float=True))
        if D.shape[0] != len(U.rows):
            D = D.T
        if np.linalg.matrix_rank(D) < D.shape[1] or D.shape[1] < 2:
            continue
        colnames = [str(e) for e in f.design_expr]
        k = int(rng.integers(1, nt + 1))
        sel = sorted(int(v) for v in rng.choice(nt, size=k, replace=False))
        cons = {"c_" + "_".join(names[s] for s in sel): FM.Formula([U.terms[s] for s in sel])}
        if U.nfac:
            cons["fac"] = fac
        try:
            D2, C = f.design(U.data, contrasts=cons)
        except Exception as e:  # noqa
            ck.fail("contrast/raises", "design(..., contrasts=%s) raised %s: %s" % (sorted(cons), type(e).__name__, e),
                    {"rows": U.rows, "universe": U.describe(), "design_columns": colnames, "contrasts": sorted(cons)})
            continue
        done += 1
        ck.count(("contrast", tuple(map(tuple, U.rows)), tuple(sel)), bucket="contrast:cols=%d" % D.shape[1])
        for key, cf in cons.items():
            want_names = [str(e) for e in cf.design_expr]
            want = np.zeros((len(want_names), len(colnames)))
            for r, nm in enumerate(want_names):
                want[r, colnames.index(nm)] = 1
            got = np.atleast_2d(C[key])
            if got.shape != want.shape or np.max(np.abs(got - want)) > 1e-8:
                ck.fail("contrast/selects-named-columns",
                        "contrast %s of a full-rank design with columns %s is %s, expected the selector of %s" % (key, colnames, np.round(got, 6).tolist(), want_names),
                        {"rows": U.rows, "universe": U.describe(), "design_columns": colnames, "contrast": want_names, "impl": got.tolist()})
                break
    ck.section("contrasts", cases=done)
    ck.trust.append("np.linalg.pinv (oracle): contrast selection is checked numerically (1e-8) on full-column-rank designs only")


def sec_stack(ck, DS):
    rng = ck.rng("stack")
    N = ck.n(40, 400)
    for i in range(N):
        nrow = int(rng.integers(2, 6))
        k = int(rng.integers(1, 4))
        pairs, blocks_, col0 = [], [], 0
        for j in range(k):
            nc = int(rng.integers(1, 4))
            X = rng.integers(-3, 4, size=(nrow, nc)).astype(float)
            if nc == 1 and rng.integers(0, 2):
                X = X[:, 0]
            cons = {}
            for c in range(int(rng.integers(0, 3))):
                if rng.integers(0, 2):
                    cons["c%d_%d" % (j, c)] = rng.integers(-2, 3, size=nc).astype(float)
                else:
                    cons["c%d_%d" % (j, c)] = rng.integers(-2, 3, size=(2, nc)).astype(float)
            form = int(rng.integers(0, 3))
            pairs.append(X if (form == 0 and not cons) else ((X,) if (form == 1 and not cons) else (X, cons)))
            blocks_.append((col0, nc, X.reshape(nrow, -1), cons))
            col0 += nc
        X, C = DS.stack_designs(*pairs)
        X = np.asarray(X)
        ck.count(("stack", i), bucket="stack:k=%d" % k)
        if X.ndim == 1:
            X = X[:, None]
        ok = X.shape == (nrow, col0)
        for c0, nc, Xj, cons in blocks_:
            ok = ok and np.array_equal(X[:, c0:c0 + nc], Xj)
            for nm, c in cons.items():
                got = C.get(nm)
                if got is None:
                    ok = False
                    continue
                if k == 1:      # a single pair is returned unchanged
                    ok = ok and np.array_equal(got, c)
                    continue
                want = np.zeros(c.shape[:-1] + (col0,))
                want[..., c0:c0 + nc] = c
                ok = ok and got.shape == want.shape and np.array_equal(got, want)
        ok = ok and set(C) == set(nm for b in blocks_ for nm in b[3])
        if not ok:
            ck.fail("stack_designs/block-bookkeeping", "stack_designs of %d designs: columns / zero-padded contrasts are not in their blocks" % k,
                    {"blocks": [(c0, nc, Xj.tolist(), {n: v.tolist() for n, v in cons.items()}) for c0, nc, Xj, cons in blocks_],
                     "X": X.tolist(), "contrasts": {n: np.asarray(v).tolist() for n, v in C.items()}})
            break
        keys = [nm for nm in C if np.asarray(C[nm]).shape[-1] == col0]
        if len(keys) >= 2:
            C2 = dict(C)
            DS.stack_contrasts(C2, "stacked", keys[:2])
            want = np.vstack([C[keys[0]], C[keys[1]]])
            if not np.array_equal(C2["stacked"], want) or any(not np.array_equal(C2[n], C[n]) for n in C):
                ck.fail("stack_contrasts/vstack", "stack_contrasts did not vstack the named contrasts", {"keys": keys[:2]})
    ck.section("stack", cases=N)


def effect_amplitudes(levels_by_factor, subset, ev):
    """event-space contrast of the effect of the factors `subset` (main effect / interaction, reference = last level):
    one amplitude vector over the events per tuple of non-reference levels:  prod_f (1[lev_f = i_f] - 1[lev_f = ref_f])"""
    rows = []
    for combo in itertools.product(*[levels_by_factor[f][:-1] for f in subset]):
        amp = []
        for e in ev:
            v = 1
            for f, lv in zip(subset, combo):
                v *= (1 if e[f] == lv else 0) - (1 if e[f] == levels_by_factor[f][-1] else 0)
            amp.append(v)
        rows.append(amp)
    return rows


def sec_event_block_design(ck, U, DS, FM):
    """event_design with 1..3 HRFs, 1..2 factors, optional level_contrasts:
    columns = for every HRF and every level combination the sum of shifted kernels (exact);
    contrasts: what `<effect>_<l>` / `constant_<l>` / `<level>_<l>` measures, X . C^T, is the named combination of
    event time courses built from HRF number l (on a full-column-rank design this pins C uniquely)."""
    rng = ck.rng("evdesign")
    N = ck.n(16, 120)
    n_con = 0
    for i in range(N):
        nh = 1 + i % 3
        pool = [Kern("box", (Fraction(0), Fraction(3, 2), Fraction(1))), Kern("ramp", (Fraction(0), Fraction(2))),
                Kern("box", (Fraction(1, 2), Fraction(3), Fraction(2))), Kern("ramp", (Fraction(1), Fraction(5, 2)))]
        Ks = [pool[k] for k in rng.choice(len(pool), size=nh, replace=False)]
        hs = tuple(K.sym() for K in Ks)
        nfac = 1 + (i // 3) % 2
        fnames = ["cond", "side"][:nfac]
        nlev = [int(rng.integers(2, 4)) if nfac == 1 else 2 for _ in range(nfac)]
        combos = list(itertools.product(*[range(1, n + 1) for n in nlev]))
        ne = len(combos) + int(rng.integers(0, 4))
        evl = combos + [combos[int(rng.integers(0, len(combos)))] for _ in range(ne - len(combos))]
        evl = [evl[k] for k in rng.permutation(len(evl))]
        if i % 5 == 4:
            onsets = [dy(rng, 0, 9, 2) for _ in range(ne)]                     # coincident onsets possible
        else:
            onsets = [Fraction(int(v), 2) for v in rng.choice(19, size=ne, replace=False)]
        if i % 4 == 0:
            onsets = sorted(onsets)
        level_contrasts = bool((i // 2) % 2)
        spec = FM.make_recarray([(fl(o),) + tuple(e) for o, e in zip(onsets, evl)], ("time",) + tuple(fnames))
        t = np.arange(0, 14, 0.5)
        rp = {"onsets": [str(o) for o in onsets], "factors": fnames, "levels": [list(e) for e in evl], "kernels": [K.describe() for K in Ks],
              "level_contrasts": level_contrasts, "t": "arange(0, 14, 0.5)"}
        try:
            X, c = DS.event_design(spec, t, hrfs=hs, level_contrasts=level_contrasts)
        except Exception as e:  # noqa
            ck.fail("event_design/raises", "event_design raised %s: %s" % (type(e).__name__, e), rp)
            continue
        ck.count(("event_design", tuple(onsets), tuple(evl), tuple(K.describe() for K in Ks), level_contrasts),
                 bucket="event_design:hrfs=%d:factors=%d" % (nh, nfac))
        X = np.asarray(X, dtype=float).reshape(len(t), -1)

        def course(K, amp):
            return np.array([fl(sum((a * K.at(frac(tt) - o) for o, a in zip(onsets, amp)), Fraction(0))) for tt in t])
        # columns: for every HRF and every level combination one column = sum of shifted kernels (exact).  The column
        # ORDER is not assumed (Formula.design orders by coefficient name b0, b1, b10, b11, b2, ... once there are > 10 terms)
        nc = len(combos)
        by_combo = {}
        for o, e in zip(onsets, evl):
            by_combo.setdefault(e, []).append(o)
        onset_sets = [tuple(sorted(v)) for v in by_combo.values()]
        if len(set(onset_sets)) < len(onset_sets):
            # two conditions with the same onsets give the SAME symbolic regressor: Formula.design merges equal terms into one
            # column k*term (known finding design/duplicate-term-column-scaled, here reached through event_design)
            if X.shape[1] < nh * nc:
                ck.fail("design/duplicate-term-column-scaled",
                        "event_design: two conditions with identical onsets are merged into one doubled column (%d columns for %d conditions x %d HRFs)" % (
                            X.shape[1], nc, nh), dict(rp, X_shape=list(X.shape)))
            continue
        want_cols = {(l, cb): course(K, [1 if e == cb else 0 for e in evl]) for l, K in enumerate(Ks) for cb in combos}
        ok = X.shape == (len(t), nh * nc)
        free = list(range(X.shape[1])) if ok else []
        for key_, w in want_cols.items():
            hit = [j for j in free if np.array_equal(X[:, j], w)]
            if not hit:
                ok = False
                break
            free.remove(hit[0])
        if not ok:
            ck.fail("event_design/columns/hrfs=%s" % ("1" if nh == 1 else "many"),
                    "event_design columns are not, for every HRF, the per-level sums of shifted kernels", dict(rp, X=X.tolist()))
            continue
        if np.linalg.matrix_rank(X) < X.shape[1]:
            continue
        n_con += 1
        levels_by_factor = [list(range(1, n + 1)) for n in nlev]
        ev = [tuple(e) for e in evl]
        expected = {}
        for l, K in enumerate(Ks):
            expected["constant_%d" % l] = [course(K, [1] * ne)]
            for r in range(1, nfac + 1):
                for subset in itertools.combinations(range(nfac), r):
                    key = ":".join(fnames[f] for f in subset) + "_%d" % l
                    expected[key] = [course(K, amp) for amp in effect_amplitudes(levels_by_factor, subset, ev)]
        if set(expected) - set(c) or (not level_contrasts and set(c) - set(expected)):
            ck.fail("event_design/contrast-names", "contrast keys %s, expected %s" % (sorted(c), sorted(expected)), dict(rp, keys=sorted(c)))
            continue
        for key in sorted(c):
            C = np.atleast_2d(np.asarray(c[key], dtype=float))
            if C.shape[1] != X.shape[1]:
                ck.fail("event_design/contrast-shape", "contrast %s has shape %s for a design with %d columns" % (key, C.shape, X.shape[1]), dict(rp, key=key))
                break
            meas = X @ C.T
            if key in expected:
                want = expected[key]
                good = meas.shape[1] == len(want) and all(
                    any(np.max(np.abs(meas[:, j] - w)) < 1e-8 for j in range(meas.shape[1])) for w in want)
                kind = "constant" if key.startswith("constant") else ("interaction" if ":" in key else "main-effect")
            else:   # level contrast `<level column>_<l>`: exactly one column, inside the block of HRF l
                l = int(key.rsplit("_", 1)[1])
                good = meas.shape[1] == 1 and any(np.max(np.abs(meas[:, 0] - want_cols[(l, cb)])) < 1e-8 for cb in combos)
                kind = "level"
            if not good:
                l = int(key.rsplit("_", 1)[1])
                ck.fail("event_design/contrast-measures-named-terms/%s/%s" % (kind, "single-hrf" if nh == 1 else ("first-hrf" if l == 0 else "later-hrf")),
                        "contrast %r of event_design with %d HRFs: X.C^T is not the %s time course built from HRF %d (C = %s)" % (
                            key, nh, kind, l, np.round(C, 6).tolist()),
                        dict(rp, key=key, contrast=C.tolist(), X=X.tolist()))
                break
        if i == 1:
            ck.sample({"call": "event_design(onsets=%s, levels=%s, hrfs=%s)" % (rp["onsets"], rp["levels"], rp["kernels"]),
                       "contrast_keys": sorted(c), "X_shape": list(X.shape)})
    # block_design: 1..2 HRFs, blocks of two kinds; convolved regressors and what the contrasts measure against
    # direct numerical convolution (np.convolve) of the block train with the kernel samples, 1e-10
    for i in range(ck.n(6, 30)):
        nh = 1 + i % 2
        Ks = [Kern("box", (Fraction(0), Fraction(int(rng.integers(1, 4))), Fraction(1, 2))), Kern("ramp", (Fraction(0), Fraction(2)))][:nh]
        if i % 4 >= 2:
            Ks = Ks[::-1]
        hs = tuple(K.sym() for K in Ks)
        nb = int(rng.integers(2, 4))
        cuts = sorted(set(int(v) for v in rng.choice(12, size=2 * nb, replace=False)))
        ivs = [(cuts[2 * j], cuts[2 * j + 1]) for j in range(nb)]
        kinds = [1 + (j + i) % 2 for j in range(nb)]
        with_factor = i % 3 != 0
        t = np.arange(0, 16, 1.0)
        dt, pad = 0.25, 1.0
        kw = dict(hrfs=hs, convolution_padding=pad, convolution_dt=dt, hrf_interval=(0., 4.))
        rows = [(float(a), float(b)) + ((k,) if with_factor else ()) for (a, b), k in zip(ivs, kinds)]
        fields = ("start", "end") + (("kind",) if with_factor else ())
        rp = {"blocks": ivs, "kinds": kinds if with_factor else None, "kernels": [K.describe() for K in Ks], "dt": dt, "padding": pad,
              "hrf_interval": [0, 4], "t": "arange(0, 16, 1.0)"}
        try:
            X, c = DS.block_design(FM.make_recarray(rows, fields), t, **kw)
        except Exception as e:  # noqa
            ck.fail("block_design/raises", "block_design raised %s: %s (blocks %s)" % (type(e).__name__, e, ivs), rp)
            continue
        X = np.asarray(X, dtype=float).reshape(len(t), -1)
        lo, hi = ivs[0][0] - pad, ivs[-1][1] + pad
        g1 = np.arange(lo, hi, dt)
        g2 = np.arange(0., 4., dt)

        def direct(K, amp):
            bv = np.array([sum(a_ for (a, b), a_ in zip(ivs, amp) if a <= s_ < b) for s_ in g1], dtype=float)
            hv = np.array([fl(K.at(frac(s_))) for s_ in g2])
            cv = np.convolve(bv, hv) * dt
            return np.interp(t, np.arange(len(cv)) * dt + lo, cv, left=0, right=0)
        groups = [[1 if k == lev else 0 for k in kinds] for lev in (1, 2)] if with_factor else [[1] * nb]
        ck.count(("block_design", tuple(ivs), tuple(kinds), with_factor, tuple(K.describe() for K in Ks)),
                 bucket="block_design:hrfs=%d:%s" % (nh, "factor" if with_factor else "plain"))
        want_cols = [direct(K, g) for K in Ks for g in groups]
        free = list(range(X.shape[1]))
        ok = X.shape[1] == len(want_cols)
        for w in want_cols:
            hit = [j for j in free if np.max(np.abs(X[:, j] - w)) < 1e-10]
            if not ok or not hit:
                ok = False
                break
            free.remove(hit[0])
        if not ok:
            ck.fail("block_design/direct-convolution", "block_design regressors differ from direct np.convolve of the block trains and kernel samples (blocks %s)" % ivs,
                    dict(rp, impl=X.tolist(), expected=np.array(want_cols).T.tolist()))
            continue
        if np.linalg.matrix_rank(X) == X.shape[1]:
            for l, K in enumerate(Ks):
                exp = {"constant_%d" % l: direct(K, [1] * nb)}
                if with_factor:
                    exp["kind_%d" % l] = direct(K, [1 if k == 1 else -1 for k in kinds])
                for key, w in exp.items():
                    if key not in c:
                        ck.fail("block_design/contrast-names", "contrast keys %s lack %s" % (sorted(c), key), dict(rp, keys=sorted(c)))
                        continue
                    m = X @ np.asarray(c[key], dtype=float).reshape(-1)
                    if np.max(np.abs(m - w)) > 1e-8:
                        ck.fail("block_design/contrast-measures-named-terms/%s" % ("single-hrf" if nh == 1 else ("first-hrf" if l == 0 else "later-hrf")),
                                "contrast %r of block_design with %d HRFs: X.c is not the time course built from HRF %d" % (key, nh, l),
                                dict(rp, key=key, contrast=np.asarray(c[key]).tolist()))
        # the same blocks listed out of time order must give the same regressors
        try:
            Xr, _ = DS.block_design(FM.make_recarray(rows[::-1], fields), t, **kw)
            Xr = np.asarray(Xr, dtype=float).reshape(len(t), -1)
            same = Xr.shape == X.shape and np.max(np.abs(Xr - X)) <= 1e-10
        except Exception:  # noqa
            same = False
        if not same:
            ck.fail("blocks/unsorted-disjoint-intervals",
                    "block_design with the block_spec rows %s (reverse time order) gives different regressors than in time order" % list(reversed(ivs)),
                    dict(rp, blocks=list(reversed(ivs))))
    ck.section("event_block_design", event_cases=N, event_contrast_cases_full_rank=n_con)


def run(ck):
    ck.cov["rule"] = (
        "time courses: random (times, values)/(intervals, amplitudes)/(onsets, amplitudes, kernel, g)/(f, g, intervals, dt) "
        "with dyadic rationals (denominator <= 8) so that every float operation is exact; each case is evaluated through "
        "lambdify_t(expr)(times) at all knots, midpoints, outside points and random points; buckets: increasing/unsorted/ties, "
        "sorted/unsorted/touching/overlapping blocks, distinct/coincident/unsorted onsets x kernel kind. "
        "formulae: random expression trees (depth <= 3, ops + - * and f*f) over 1..3 numeric terms and 0..2 factors, integer "
        "record arrays with 1..5 rows; compared as the set of (coefficient, monomial, column). A case is distinct by its full input; "
        "non-trivial when it has more than one time/interval/onset/term.")
    ck.coq_build()
    ck.overlay()
    from nipy.modalities.fmri import utils as U
    from nipy.modalities.fmri import design as DS
    from nipy.algorithms.statistics.formula import formulae as FM
    sec_step(ck, U)
    sec_blocks(ck, U)
    sec_events(ck, U)
    sec_interp(ck, U)
    sec_conv(ck, U)
    sec_formulae(ck, FM)
    sec_spline(ck, FM, DS)
    sec_contrasts(ck, FM)
    sec_stack(ck, DS)
    sec_event_block_design(ck, U, DS, FM)
    ck.trust.append("sympy (lambdify, implemented_function, Symbol/Mul canonical forms, diff), scipy.interpolate.interp1d (linear) and "
                    "np.convolve are oracles: the model states their defining formulas and the correspondence samples them exactly on dyadic inputs")
    ck.trust.append("sympy's term ORDER is not modelled: design columns are compared as a set of (coefficient, monomial, column) triples")
    ck.assume.append("floats: all correspondence inputs are dyadic rationals small enough that every float operation of the implementation is exact")
