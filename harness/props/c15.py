"""C15 - intrinsic volumes, Euler characteristic and EC densities are exact.

Sections
  tables   Generated/IntvolTables.v (executed utils.py helpers + table construction parsed from
           intvol.pyx): flattening of the coordinate tables by the model == what the helpers return
           for the real strides of every tested shape; decompose2d/3d == K(full box).
  ec       EC1d/EC2d/EC3d: compiled module AND the de-cythonised current .pyx source, on every mask
           of small grids + random masks; exact comparison with the Coq model (vm_compute) and with
           an independent face enumeration of K(mask); invariance oracles (position, padding, slab).
  lips     Lips1d/2d/3d property oracles (box formula, invariances, permutation, rescaling, mu0 == EC).
  rft      ECquasi algebra (exact over Q against the Coq model), IntrinsicVolumes.__mul__, EC density
           oracles (rho_0 == tail probability, Gaussian Hermite closed form, t/chi2/F closed forms).
"""
import ast
import itertools
import math
import re
from fractions import Fraction

import numpy as np

from ..kit import cnat, cz, czl, cq, cql, clist, cbool, REPO
from ..translate import intvoltables as T

HDR = ("From Coq Require Import ZArith List Bool QArith.\nFrom NV.Generated Require Import IntvolTables.\n"
       "From NV.C15 Require Import Model.\nClose Scope Q_scope.\nOpen Scope Z_scope.\n")


# ====================================================================== de-cythoniser
class DecythonError(Exception):
    pass


INT_T = {"np.npy_intp", "np.intp_t", "np.uint8_t", "np.uint64_t", "np.int64_t", "int", "long", "Py_ssize_t"}
FLT_T = {"double", "np.float_t", "np.float64_t"}
UNSIGNED_BITS = {"np.uint8_t": 8, "np.uint64_t": 64}
ARR_DT = {"np.uint8_t": np.uint8, "np.intp_t": np.intp, "np.float_t": np.float64, "np.float64_t": np.float64}


def _coerce_arr(x, dtype, ndim, name):
    x = np.asarray(x)
    if x.ndim != ndim:
        raise ValueError("Buffer has wrong number of dimensions (expected %d, got %d) [%s]" % (ndim, x.ndim, name))
    if x.dtype != np.dtype(dtype):
        raise ValueError("Buffer dtype mismatch, expected %s but got %s [%s]" % (np.dtype(dtype), x.dtype, name))
    return x


def _coerce_uint(x, bits):
    return int(x) & ((1 << bits) - 1)


class _Typer(ast.NodeTransformer):
    """After every assignment to a cdef-typed name insert the C conversion."""

    def __init__(self, types):
        self.types = types

    def _conv(self, name):
        t = self.types[name]
        if t[0] == "int":
            src = "%s = int(%s)" % (name, name)
        elif t[0] == "uint":
            src = "%s = __coerce_uint(%s, %d)" % (name, name, t[1])
        elif t[0] == "float":
            src = "%s = float(%s)" % (name, name)
        else:
            src = "%s = __coerce_arr(%s, __dt[%r], %d, %r)" % (name, name, t[1], t[2], name)
        return ast.parse(src).body[0]

    def _names(self, tgt):
        if isinstance(tgt, ast.Name):
            return [tgt.id]
        if isinstance(tgt, (ast.Tuple, ast.List)):
            return [n for e in tgt.elts for n in self._names(e)]
        return []

    def visit_Assign(self, node):
        self.generic_visit(node)
        names = [n for t in node.targets for n in self._names(t) if n in self.types]
        return [node] + [self._conv(n) for n in names]

    def visit_AugAssign(self, node):
        self.generic_visit(node)
        names = [n for n in self._names(node.target) if n in self.types]
        return [node] + [self._conv(n) for n in names]


def decythonise(text, fname):
    """Python source of the .pyx function `fname` (a plain `def` with `cdef:` declaration blocks)."""
    body = T.pyx_function(text, fname).rstrip() + "\n"
    lines = body.split("\n")
    out = []
    types = {}
    i = 0
    while i < len(lines):
        ln = lines[i]
        m = re.match(r"^(\s*)cdef:\s*$", ln)
        if not m:
            out.append(ln)
            i += 1
            continue
        ind = len(m.group(1))
        i += 1
        while i < len(lines):
            d = lines[i]
            if d.strip() == "" or d.strip().startswith("#"):
                i += 1
                continue
            if len(d) - len(d.lstrip()) <= ind:
                break
            decl = d.split("#")[0].strip()
            mm = re.match(r"^(np\.ndarray\[\s*([\w.]+)\s*,\s*ndim\s*=\s*(\d)\s*\]|[\w.]+)\s+(.+)$", decl)
            if not mm:
                raise DecythonError("%s: cannot parse cdef declaration %r" % (fname, decl))
            ty = mm.group(1)
            if mm.group(2):
                if mm.group(2) not in ARR_DT:
                    raise DecythonError("%s: unknown buffer dtype %r" % (fname, mm.group(2)))
                tinfo = ("arr", mm.group(2), int(mm.group(3)))
            elif ty in UNSIGNED_BITS:
                tinfo = ("uint", UNSIGNED_BITS[ty])
            elif ty in INT_T:
                tinfo = ("int",)
            elif ty in FLT_T:
                tinfo = ("float",)
            else:
                raise DecythonError("%s: unknown C type %r" % (fname, ty))
            for item in mm.group(4).split(","):
                item = item.strip()
                m3 = re.match(r"^(\w+)(?:\s*=\s*(.+))?$", item)
                if not m3:
                    raise DecythonError("%s: cannot parse declarator %r" % (fname, item))
                types[m3.group(1)] = tinfo
                if m3.group(2) is not None:
                    out.append(" " * (ind) + "%s = %s" % (m3.group(1), m3.group(2)))
            i += 1
    src = "\n".join(out)
    try:
        tree = ast.parse(src)
    except SyntaxError as e:
        raise DecythonError("%s: not Python after removing the cdef blocks: %s" % (fname, e))
    fn = tree.body[0]
    if ast.get_docstring(fn) is not None:
        fn.body = fn.body[1:]
    code_only = ast.unparse(fn)
    for bad in ("cdef", "cpdef", "nogil", "cimport"):
        if re.search(r"\b%s\b" % bad, code_only):
            raise DecythonError("%s: Cython construct %r outside a cdef block" % (fname, bad))
    tree = _Typer(types).visit(tree)
    ast.fix_missing_locations(tree)
    return tree, types


def load_source_impl(names):
    """exec the de-cythonised functions; helper names resolve to the current /repo modules."""
    from nipy.algorithms.statistics import utils as U
    from nipy.utils.arrays import strides_from
    from nipy.algorithms.statistics import intvol as compiled
    text = (REPO / T.PYX).read_text()
    ns = {"np": np, "strides_from": strides_from, "cube_with_strides_center": U.cube_with_strides_center,
          "join_complexes": U.join_complexes, "check_cast_bin8": U.check_cast_bin8,
          "__coerce_arr": _coerce_arr, "__coerce_uint": _coerce_uint, "__dt": ARR_DT,
          "PI": math.pi, "dok_matrix": None}
    # the cpdef numeric kernels (mu*_tet ...) are taken from the compiled module: they are `nogil` C
    for k in ("mu3_tet", "mu2_tet", "mu1_tet", "mu2_tri", "mu1_tri", "mu1_edge", "_mu1_tetface"):
        ns[k] = getattr(compiled, k)
    for n in names:
        tree, _ = decythonise(text, n)
        exec(compile(tree, "<decythonised %s>" % n, "exec"), ns)
    return ns


# ====================================================================== independent K(mask)
_KCACHE = {}


def kuhn_complex(shape):
    """All simplices (as sorted tuples of C-order flat indices, by number of vertices) of the Kuhn
    triangulation of the lattice whose vertices lie in the array of `shape`: every unit cube q + [0,1]^d
    (also those sticking out of the array) is cut into the d! simplices along the monotone paths
    q -> q+e_s(1) -> q+e_s(1)+e_s(2) ...; faces = non-empty vertex subsets."""
    shape = tuple(shape)
    if shape in _KCACHE:
        return _KCACHE[shape]
    d = len(shape)
    strides = [int(np.prod(shape[i + 1:])) for i in range(d)]
    found = set()
    for q in itertools.product(*[range(-1, s) for s in shape]):
        for perm in itertools.permutations(range(d)):
            path = [tuple(q)]
            for ax in perm:
                v = list(path[-1])
                v[ax] += 1
                path.append(tuple(v))
            path = [v for v in path if all(0 <= v[i] < shape[i] for i in range(d))]
            for r in range(1, len(path) + 1):
                for sub in itertools.combinations(path, r):
                    found.add(tuple(sorted(sum(x * s for x, s in zip(v, strides)) for v in sub)))
    by = {k: np.array(sorted(s for s in found if len(s) == k), dtype=np.intp).reshape(-1, k) for k in range(1, d + 2)}
    _KCACHE[shape] = by
    return by


def face_counts(mask):
    """[#vertices, #edges, #triangles, #tetrahedra] of K(mask) (length 4, zero padded)."""
    mask = np.asarray(mask).astype(bool)
    by = kuhn_complex(mask.shape)
    fm = mask.reshape(-1)
    out = [0, 0, 0, 0]
    for k, arr in by.items():
        out[k - 1] = int(fm[arr].all(axis=1).sum()) if len(arr) else 0
    return out


def chi_of(counts):
    return counts[0] - counts[1] + counts[2] - counts[3]


# ====================================================================== helpers
def cmask(mask):
    return clist([cbool(bool(x)) for x in np.asarray(mask).reshape(-1)])


def model_mask(mask):
    sh = mask.shape + (1,) * (3 - mask.ndim)
    return "(mask_of_list %s %s %s)" % (cnat(sh[1]), cnat(sh[2]), cmask(mask))


def model_ec_term(mask):
    sh = mask.shape
    if mask.ndim == 3:
        return "EC3d %s %s %s %s" % (cnat(sh[0]), cnat(sh[1]), cnat(sh[2]), model_mask(mask))
    if mask.ndim == 2:
        return "EC2d %s %s %s" % (cnat(sh[0]), cnat(sh[1]), model_mask(mask))
    return "EC1d %s %s" % (cnat(sh[0]), model_mask(mask))


def origin_triangle(mask):
    """structural feature behind the EC2d defect: a triangle whose first vertex has flat index 0"""
    return mask.ndim == 2 and mask.shape[0] > 1 and mask.shape[1] > 1 and bool(mask[0, 0]) and bool(mask[1, 1]) \
        and (bool(mask[0, 1]) or bool(mask[1, 0]))


def n_origin_triangles(mask):
    if not (mask.ndim == 2 and mask.shape[0] > 1 and mask.shape[1] > 1 and mask[0, 0] and mask[1, 1]):
        return 0
    return int(bool(mask[0, 1])) + int(bool(mask[1, 0]))


def all_masks(shape):
    n = int(np.prod(shape))
    for bits in range(2 ** n):
        yield np.array([(bits >> i) & 1 for i in range(n)], dtype=np.uint8).reshape(shape)


def call_ec(fn, mask):
    try:
        v = fn(mask)
    except Exception as e:  # noqa
        return ("raises", type(e).__name__ + ": " + str(e)[:80])
    fv = float(v)
    if fv != int(fv):
        return ("non-integer", fv)
    return int(fv)


# ====================================================================== section: tables
def tables(ck, shapes):
    from nipy.algorithms.statistics import utils as U
    from nipy.utils.arrays import strides_from
    terms, meta = [], []
    for sh in shapes:
        d = len(sh)
        if d == 1:
            continue
        psh = tuple(s + 1 for s in sh)
        strides = np.array(strides_from(psh, np.bool_), dtype=np.intp)
        if d == 3:
            centers = [c for c in itertools.product((0, 1), repeat=3) if any(c)]
            zero, ss = (0, 0, 0), "(strides3 %s %s)" % (cnat(sh[1]), cnat(sh[2]))
            names = {4: "src3_d4", 3: "src3_d3", 2: "src3_d2"}
        else:
            centers = [c for c in itertools.product((0, 1), repeat=2) if any(c)]
            zero, ss = (0, 0), "(strides2 %s)" % cnat(sh[1])
            names = {3: "(d2_of src2_d3)", 2: "(d2_of src2_d2)"}
        union = U.join_complexes(*[U.cube_with_strides_center(c, strides) for c in centers])
        c = U.cube_with_strides_center(zero, strides)
        for k, nm in names.items():
            impl = sorted(tuple(int(v) for v in s) for s in c[k].difference(union[k]))
            ck.count(("tab", sh, k), bucket="tables")
            terms.append("Harness.zmat_eqb (flat_table %s %s) %s" % (ss, nm, clist([clist([cz(v) for v in s]) for s in impl])))
            meta.append((sh, k, impl))
    if ck.build.ok:
        res = ck.coq_bools(HDR, terms, name="tables")
        ck.cov["traces_validated_against_impl"] += len(res)
        for ok, (sh, k, impl) in zip(res, meta):
            if not ok:
                ck.fail("tables/model-vs-helpers", "flattened generated table d%d for mask shape %s differs from "
                        "c[%d].difference(union[%d]) computed by utils.py with the real strides: %s" % (k, sh, k, k, impl),
                        {"shape": sh, "k": k, "helpers": impl})
                break
    # decompose2d / decompose3d enumerate K(full box) exactly once
    dshapes = [(2, 2), (2, 3), (3, 2), (4, 3), (2, 2, 2), (2, 3, 2), (3, 2, 4), (3, 3, 3)]
    # degenerate arrays: an axis of length 1 in every position (thin slabs, lines, single voxels)
    dshapes += [(1, 1), (1, 2), (2, 1), (1, 5), (5, 1), (1, 1, 1), (1, 1, 4), (1, 4, 1), (4, 1, 1), (1, 2, 3), (2, 1, 3), (2, 3, 1), (1, 3, 3), (3, 1, 3), (3, 3, 1)]
    if ck.thorough():
        dshapes += [(5, 4), (4, 5, 3), (2, 5, 5)]
    for sh in dshapes:
        by = kuhn_complex(sh)
        dec = U.decompose3d if len(sh) == 3 else U.decompose2d
        for dim in range(1, len(sh) + 2):
            try:
                got = [tuple(sorted(int(v) for v in (s if dim > 1 else [s]))) for s in dec(sh, dim=dim)]
            except Exception as e:  # noqa
                ck.fail("tables/decompose-raises", "decompose%dd(%s, dim=%d) raised %s" % (len(sh), sh, dim, e),
                        {"shape": sh, "dim": dim})
                continue
            want = [tuple(int(v) for v in r) for r in by[dim]]
            ck.count(("dec", sh, dim), bucket="decompose")
            if sorted(got) != sorted(want):
                dup = len(got) - len(set(got))
                ck.fail("tables/decompose-vs-K", "decompose%dd(%s, dim=%d) yields %d simplices (%d duplicates), the "
                        "triangulation of the full box has %d; missing %s extra %s" % (
                            len(sh), sh, dim, len(got), dup, len(want), sorted(set(want) - set(got))[:3],
                            sorted(set(got) - set(want))[:3]), {"shape": sh, "dim": dim})
    for sh in dshapes:
        fn = U.test_EC3 if len(sh) == 3 else U.test_EC2
        want_counts = face_counts(np.ones(sh, np.uint8))
        ck.count(("testEC", sh), bucket="decompose")
        try:
            r = [int(v) for v in fn(sh)]
        except Exception as e:  # noqa
            ck.fail("tables/test_EC-raises", "utils.test_EC%d(%s) raised %s" % (len(sh), sh, e), {"shape": sh})
            continue
        # test_EC3 -> (ts, fs, es, vs, ec); test_EC2 -> (fs, es, vs, ec)
        got_counts = list(reversed(r[:-1])) + [0] * (4 - len(r[:-1]))
        if got_counts != want_counts or r[-1] != chi_of(want_counts):
            feat = "thin" if min(sh) == 1 else "full"
            ck.fail("tables/test_EC-vs-K/%s" % feat, "utils.test_EC%d(%s) = %s: the triangulated solid box has %s vertices/edges/triangles/tetrahedra, "
                    "Euler characteristic %d" % (len(sh), sh, r, want_counts, chi_of(want_counts)), {"shape": sh, "returned": r, "face_counts": want_counts})
    ck.section("tables", shapes_flattened=len(meta), decompose_shapes=len(dshapes))


# ====================================================================== section: ec
def ec_cases(ck):
    """(mask, bucket) list, small to large."""
    cases = []
    if ck.thorough():
        ex = [(1,), (2,), (3,), (8,), (1, 1), (1, 3), (3, 1), (2, 2), (3, 3), (2, 4), (1, 1, 1), (2, 2, 2), (1, 2, 3), (2, 2, 3), (3, 2, 2), (2, 1, 2)]
    else:
        ex = [(1,), (2,), (6,), (1, 1), (1, 3), (3, 1), (1, 5), (2, 2), (2, 3), (3, 2), (1, 1, 1), (1, 1, 3), (1, 3, 1), (3, 1, 1), (2, 2, 2),
              (2, 1, 2), (1, 2, 2), (2, 2, 1)]
    for sh in ex:
        for m in all_masks(sh):
            cases.append((m, "exhaustive:%s" % "x".join(map(str, sh))))
    rng = ck.rng("ec-random")
    nr = ck.n(150, 1500)
    for t in range(nr):
        d = int(rng.integers(1, 4))
        sh = tuple(int(x) for x in rng.integers(1, 7, size=d)) if d > 1 else (int(rng.integers(1, 30)),)
        p = float(rng.choice([0.3, 0.5, 0.7, 0.9]))
        m = (rng.random(sh) < p).astype(np.uint8)
        cases.append((m, "random:%dd" % d))
    # solid boxes placed so that they touch faces / edges / corners of the array
    for sh, sl in [((4, 4, 4), (slice(0, 2), slice(0, 3), slice(0, 4))), ((4, 4, 4), (slice(2, 4), slice(1, 4), slice(0, 4))),
                   ((3, 5, 4), (slice(1, 3), slice(0, 5), slice(3, 4))), ((5, 5), (slice(0, 3), slice(0, 2))),
                   ((5, 5), (slice(2, 5), slice(3, 5))), ((5, 5), (slice(1, 4), slice(0, 5))), ((7,), (slice(0, 3),)), ((7,), (slice(4, 7),))]:
        m = np.zeros(sh, np.uint8)
        m[sl] = 1
        cases.append((m, "box-touching-border"))
    return cases


def ec(ck, impls):
    cases = ec_cases(ck)
    shapes = sorted(set(m.shape for m, _ in cases), key=lambda s: (len(s), int(np.prod(s)), s))
    tables(ck, shapes)
    names = {1: "EC1d", 2: "EC2d", 3: "EC3d"}
    terms, meta = [], []
    spec_terms, spec_meta = [], []
    n_spec = ck.n(120, 1200)
    rng = ck.rng("ec-variants")
    for idx, (m, bucket) in enumerate(cases):
        d = m.ndim
        counts = face_counts(m)
        want = chi_of(counts)
        key = (m.shape, m.tobytes())
        ck.count(("ec",) + key, nontrivial=bool(m.any()), bucket=bucket)
        vals = {}
        for iname, mod in impls.items():
            v = call_ec(mod[names[d]], m)
            vals[iname] = v
            if v != want:
                feat = "origin-triangle" if (origin_triangle(m) and isinstance(v, int) and want - v == n_origin_triangles(m)) else (
                    "raises" if isinstance(v, tuple) else "count")
                ck.fail("ec-vs-faces/%dd/%s" % (d, feat),
                        "%s [%s] of mask %s (shape %s) = %s; the complex K(mask) has %s vertices/edges/triangles/tetrahedra, "
                        "Euler characteristic %d" % (names[d], iname, m.tolist(), m.shape, v, counts, want),
                        {"function": names[d], "impl": iname, "shape": m.shape, "mask": m.tolist(), "returned": v,
                         "face_counts": counts, "expected": want})
        if "source" in vals and vals["source"] != vals["compiled"]:
            ck.fail("ec-source-vs-compiled/%dd" % d, "%s: the de-cythonised .pyx source returns %s, the compiled module %s on mask %s" % (
                names[d], vals["source"], vals["compiled"], m.tolist()), {"shape": m.shape, "mask": m.tolist()})
        v = vals.get("source", vals["compiled"]) if ck.freshness.get("nipy.algorithms.statistics.intvol") != "fresh" else vals["compiled"]
        if isinstance(v, int):
            terms.append("Z.eqb (%s) %s" % (model_ec_term(m), cz(v)))
            meta.append((m, v))
        if bucket.startswith("random") and len(spec_terms) < n_spec or (m.size <= 4 and m.all()):
            sh = m.shape + (1,) * (3 - d)
            a = "%s %s %s %s" % (cnat(sh[0]), cnat(sh[1]), cnat(sh[2]), model_mask(m))
            spec_terms.append("Harness.zlist_eqb [nK %s 0; nK %s 1; nK %s 2; nK %s 3] %s" % (a, a, a, a, clist([cz(x) for x in counts])))
            spec_meta.append((m, counts))
        if idx % 97 == 0 and m.any():
            ck.sample({"call": "%s(mask)" % names[d], "shape": m.shape, "mask": m.tolist(), "returned": vals["compiled"],
                       "faces_of_K(mask)": counts})
        # ---------------- invariance oracles on the implementation (position, padding, slab embedding)
        if bucket.startswith("random") or idx % 7 == 0:
            pads = [tuple((int(rng.integers(0, 3)), int(rng.integers(0, 3))) for _ in range(d)), tuple((1, 0) for _ in range(d)),
                    tuple((0, 1) for _ in range(d))]
            for iname, mod in impls.items():
                base = vals[iname]
                for pw in pads:
                    mp = np.pad(m, pw)
                    vp = call_ec(mod[names[d]], mp)
                    if vp != base:
                        feat = "origin-triangle" if (origin_triangle(m) or origin_triangle(mp)) else "other"
                        ck.fail("ec-invariance/%dd/%s" % (d, feat), "%s [%s]: mask %s gives %s, the same region padded by %s gives %s" % (
                            names[d], iname, m.tolist(), base, pw, vp), {"shape": m.shape, "mask": m.tolist(), "pad": pw, "impl": iname})
                # the lattice triangulation (chains of the product order) is symmetric under permutations of the axes
                for perm in itertools.permutations(range(d)):
                    mt = np.ascontiguousarray(m.transpose(perm))
                    vt = call_ec(mod[names[d]], mt)
                    if vt != base:
                        feat = "origin-triangle" if (origin_triangle(m) or origin_triangle(mt)) else "axis-permutation"
                        ck.fail("ec-invariance/%dd/%s" % (d, feat), "%s [%s]: mask %s gives %s, with axes permuted by %s it gives %s" % (
                            names[d], iname, m.tolist(), base, perm, vt), {"shape": m.shape, "mask": m.tolist(), "perm": perm, "impl": iname})
                if d < 3:
                    for ax in range(d + 1):
                        ms = np.expand_dims(m, ax)
                        vs = call_ec(mod[names[d + 1]], ms)
                        if vs != base:
                            feat = "origin-triangle" if (origin_triangle(m) or origin_triangle(ms)) else "other"
                            ck.fail(("ec-invariance/%dd/%s" % (d, feat)) if feat == "origin-triangle" else "ec-invariance/slab-%dd-in-%dd" % (d, d + 1),
                                    "%s [%s] of mask %s = %s but %s of the same mask as a one-voxel slab (new axis %d) = %s" % (
                                        names[d], iname, m.tolist(), base, names[d + 1], ax, vs),
                                    {"shape": m.shape, "mask": m.tolist(), "axis": ax, "impl": iname})
    # ---------------- correspondence with the Coq model
    if ck.build.ok:
        res = ck.coq_bools(HDR, terms, name="ec")
        ck.cov["traces_validated_against_impl"] += len(res)
        for ok, (m, v) in zip(res, meta):
            if not ok:
                mv = ck.coq_show(HDR, model_ec_term(m))
                ck.fail("ec-model-vs-impl/%dd" % m.ndim, "model and implementation disagree on mask %s (shape %s): impl %s, model %s" % (
                    m.tolist(), m.shape, v, mv), {"shape": m.shape, "mask": m.tolist(), "impl": v, "model": mv})
                break
        res = ck.coq_bools(HDR, spec_terms, shard=40, name="spec")
        for ok, (m, counts) in zip(res, spec_meta):
            if not ok:
                ck.fail("ec-spec-enumeration/%dd" % m.ndim, "Coq enumeration Kenum of K(mask) and the independent Python face enumeration "
                        "disagree on mask %s: python %s" % (m.tolist(), counts), {"shape": m.shape, "mask": m.tolist(), "python": counts})
                break
    ck.section("ec", masks=len(cases), model_terms=len(terms), spec_enumeration_terms=len(spec_terms), impls=sorted(impls),
               exhaustive_shapes=sorted(set(b for _, b in cases if b.startswith("exhaustive"))))


# ====================================================================== section: lips
def affine_coords(shape, A, t):
    """coords[:, idx] = A @ idx + t, shape (N,) + shape"""
    idx = np.indices(shape).reshape(len(shape), -1).astype(float)
    return (A @ idx + t[:, None]).reshape((A.shape[0],) + tuple(shape))


def close(a, b, tol=1e-10):
    a, b = np.asarray(a, float), np.asarray(b, float)
    return a.shape == b.shape and bool(np.all(np.abs(a - b) <= tol * (1 + np.maximum(np.abs(a), np.abs(b)))))


def lips(ck, intvol):
    fn = {1: intvol.Lips1d, 2: intvol.Lips2d, 3: intvol.Lips3d}
    rng = ck.rng("lips")
    nb = ck.n(60, 600)
    # ---- solid boxes with spacings: 1, a+b+c, ab+bc+ca, abc (a = (n-1)*spacing: edge lengths in the coordinates)
    for t in range(nb):
        d = int(rng.integers(1, 4))
        arr = tuple(int(x) for x in rng.integers(2, 7, size=d))
        lo = [int(rng.integers(0, s - 1)) for s in arr]
        hi = [int(rng.integers(l + 2, s + 1)) for l, s in zip(lo, arr)]          # at least 2 voxels per side
        if t % 3 == 0:
            lo = [0] * d                                                             # touching the origin corner
        if t % 3 == 1:
            hi = list(arr)                                                           # touching the far corner
        mask = np.zeros(arr, np.uint8)
        mask[tuple(slice(l, h) for l, h in zip(lo, hi))] = 1
        sp = rng.choice([0.5, 1.0, 1.5, 2.0, 3.0], size=d) if t % 2 == 0 else rng.uniform(0.3, 3.0, size=d)
        off = rng.uniform(-5, 5, size=d)
        coords = affine_coords(arr, np.diag(sp), off)
        e = [(h - l - 1) * s for l, h, s in zip(lo, hi, sp)]
        e3 = e + [0.0] * (3 - d)
        want = [1.0, e3[0] + e3[1] + e3[2], e3[0] * e3[1] + e3[1] * e3[2] + e3[0] * e3[2], e3[0] * e3[1] * e3[2]][:d + 1]
        ck.count(("lipsbox", arr, tuple(lo), tuple(hi), tuple(np.round(sp, 6))), bucket="lips:box-%dd" % d)
        try:
            got = np.asarray(fn[d](coords, mask), float)
        except Exception as ex:  # noqa
            ck.fail("lips-box/%dd/raises" % d, "Lips%dd raised %s on a solid box %s..%s in array %s" % (d, ex, lo, hi, arr),
                    {"array": arr, "lo": lo, "hi": hi, "spacing": sp.tolist()})
            continue
        if not close(got, want):
            bad = [k for k in range(d + 1) if not close(got[k], want[k])]
            ck.fail("lips-box/%dd/mu%s" % (d, "".join(map(str, bad))),
                    "Lips%dd of the solid box [%s, %s) in array %s with spacings %s returns %s, box formula gives %s" % (
                        d, lo, hi, arr, sp.tolist(), got.tolist(), want),
                    {"array": arr, "lo": lo, "hi": hi, "spacing": sp.tolist(), "offset": off.tolist(), "returned": got.tolist(), "expected": want})
        if t < 2:
            ck.sample({"call": "Lips%dd(coords, box)" % d, "array": arr, "box": [lo, hi], "spacing": sp.tolist(), "returned": got.tolist(), "box_formula": want})
    # ---- arbitrary masks, general affine coordinates: mu0 == EC, invariances, permutation, rescaling, rotation
    nm = ck.n(60, 500)
    for t in range(nm):
        d = int(rng.integers(1, 4))
        sh = tuple(int(x) for x in rng.integers(2, 6, size=d))
        if t % 4 == 3 and d > 1:                                # thin arrays: an axis of length 1 in a random position
            sh = tuple(1 if i == t % d else v for i, v in enumerate(sh))
        mask = (rng.random(sh) < rng.choice([0.5, 0.7, 0.9])).astype(np.uint8)
        if t % 5 == 0:
            mask[(0,) * d] = 1
            mask[tuple(min(1, v - 1) for v in sh)] = 1
        N = 3
        A = rng.uniform(-2, 2, size=(N, d)) + 2 * np.eye(N, d)
        tr = rng.uniform(-3, 3, size=N)
        coords = affine_coords(sh, A, tr)
        ck.count(("lipsmask", sh, mask.tobytes(), t), nontrivial=bool(mask.any()), bucket="lips:mask-%dd" % d)
        base = np.asarray(fn[d](coords, mask), float)
        rep = {"shape": sh, "mask": mask.tolist(), "A": A.tolist(), "t": tr.tolist()}
        want0 = chi_of(face_counts(mask))
        if not close(base[0], want0):
            ck.fail("lips-mu0-vs-faces/%dd" % d, "Lips%dd mu0 = %s but K(mask) has Euler characteristic %d (mask %s)" % (
                d, base[0], want0, mask.tolist()), rep)
        if not np.all(np.isfinite(base)):
            ck.fail("lips-nonfinite/%dd" % d, "Lips%dd returns %s" % (d, base.tolist()), rep)
            continue
        # position / padding (the coordinates of the common voxels are the same)
        pw = tuple((int(rng.integers(0, 3)), int(rng.integers(0, 3))) for _ in range(d))
        mp = np.pad(mask, pw)
        cp = affine_coords(mp.shape, A, tr - A @ np.array([p[0] for p in pw], float))
        got = np.asarray(fn[d](cp, mp), float)
        if not close(got, base):
            ck.fail("lips-invariance/%dd/padding" % d, "Lips%dd changes from %s to %s when the mask is padded by %s" % (d, base.tolist(), got.tolist(), pw),
                    dict(rep, pad=pw))
        # axis permutation (the lattice triangulation is symmetric under permutations of the axes)
        for perm in itertools.permutations(range(d)):
            if perm == tuple(range(d)):
                continue
            got = np.asarray(fn[d](coords.transpose((0,) + tuple(q + 1 for q in perm)), mask.transpose(perm)), float)
            if not close(got, base):
                ck.fail("lips-invariance/%dd/axis-permutation" % d, "Lips%dd changes from %s to %s under the axis permutation %s" % (
                    d, base.tolist(), got.tolist(), perm), dict(rep, perm=perm))
        # rescaling of the coordinates: mu_k scales with s^k; rotation: unchanged
        sc = float(rng.choice([0.5, 2.0, 3.0]))
        got = np.asarray(fn[d](coords * sc, mask), float)
        # (rescaling and rotation change the conditioning of the Gram determinants: 1e-8 instead of 1e-10)
        if not close(got, base * sc ** np.arange(d + 1), 1e-8):
            ck.fail("lips-invariance/%dd/rescaling" % d, "Lips%dd(%g * coords) = %s, expected s^k * %s" % (d, sc, got.tolist(), base.tolist()),
                    dict(rep, scale=sc))
        Qm, _ = np.linalg.qr(rng.normal(size=(N, N)))
        got = np.asarray(fn[d](np.tensordot(Qm, coords, axes=(1, 0)), mask), float)
        if not close(got, base, 1e-8):
            ck.fail("lips-invariance/%dd/rotation" % d, "Lips%dd changes from %s to %s under an orthogonal map of the coordinates" % (
                d, base.tolist(), got.tolist()), dict(rep, Q=Qm.tolist()))
        # thin slab: Lips3d squeezes
        if d < 3:
            ax = int(rng.integers(0, d + 1))
            sh3 = list(sh)
            sh3.insert(ax, 1)
            while len(sh3) < 3:
                sh3.append(1)
            got = np.asarray(intvol.Lips3d(coords.reshape((N,) + tuple(sh3)), mask.reshape(sh3)), float)
            if not close(got[:d + 1], base) or np.any(got[d + 1:] != 0):
                ck.fail("lips-invariance/slab-%dd-in-3d" % d, "Lips3d of the %s slab = %s, Lips%dd = %s" % (sh3, got.tolist(), d, base.tolist()), rep)
    # ---- mu3_tet: the rational part v2 (Gram determinant) of the model vs the compiled kernel, integer coordinates
    terms, meta = [], []
    for t in range(ck.n(80, 600)):
        cs = [[int(v) for v in rng.integers(-4, 5, size=3)] for _ in range(4)]
        if t % 4 == 0:
            cs[3] = [cs[0][i] + cs[1][i] - cs[2][i] for i in range(3)] if t % 8 else cs[2]      # coplanar / repeated vertex: volume 0
        D = {(i, j): float(np.dot(cs[i], cs[j])) for i in range(4) for j in range(i, 4)}
        mu3 = float(intvol.mu3_tet(D[0, 0], D[0, 1], D[0, 2], D[0, 3], D[1, 1], D[1, 2], D[1, 3], D[2, 2], D[2, 3], D[3, 3]))
        ck.count(("mu3", tuple(map(tuple, cs))), bucket="lips:mu3_tet")
        det = int(round(np.linalg.det(np.array([np.subtract(cs[i], cs[3]) for i in range(3)], float))))
        if abs(6 * mu3 - abs(det)) > 1e-9 * (1 + abs(det)):
            ck.fail("mu3_tet/volume", "mu3_tet of the tetrahedron %s = %s, |det|/6 = %s" % (cs, mu3, abs(det) / 6.), {"vertices": cs})
        v2 = int(round((6 * mu3) ** 2))
        pts = " ".join("(%d, %d, %d)" % tuple(c) for c in cs)
        terms.append("Z.eqb (Z.max 0 (tet_v2 %s)) %s" % (pts, cz(v2)))
        meta.append((cs, mu3))
    if ck.build.ok:
        res = ck.coq_bools(HDR, terms, name="mu3")
        ck.cov["traces_validated_against_impl"] += len(res)
        for ok, (cs, mu3) in zip(res, meta):
            if not ok:
                ck.fail("mu3_tet/model-vs-impl", "model v2 and (6*mu3_tet)^2 disagree for the tetrahedron %s (mu3_tet = %s)" % (cs, mu3), {"vertices": cs})
                break
    ck.trust.append("Lips1d/2d/3d are checked as property oracles at relative tolerance 1e-10 (sqrt/acos of libm are oracles); "
                    "only mu0 (= the EC enumeration with the same generated tables) and the Gram determinant of the generated tetrahedra are proved")
    ck.section("lips", boxes=nb, masks=nm, tolerance=1e-10)


# ====================================================================== section: rft
def fr_poly_mul(a, b):
    out = [Fraction(0)] * (len(a) + len(b) - 1)
    for i, x in enumerate(a):
        for j, y in enumerate(b):
            out[i + j] += x * y
    return out


def fr_poly_add(a, b):
    n = max(len(a), len(b))
    a = [Fraction(0)] * (n - len(a)) + list(a)
    b = [Fraction(0)] * (n - len(b)) + list(b)
    return [x + y for x, y in zip(a, b)]


def fr_strip(a):
    a = list(a)
    while len(a) > 1 and a[0] == 0:
        a = a[1:]
    return a


class RefQuasi:
    """independent exact reference: numerator coefficients (highest first), m, exponent as Fractions;
    value(x) = num(x) / (1 + x^2/m)^exponent"""

    def __init__(self, c, m, e):
        self.c, self.m, self.e = fr_strip([Fraction(x) for x in c]), Fraction(m), Fraction(e)

    def denom(self):
        return [1 / self.m, Fraction(0), Fraction(1)]

    def raise_to(self, E):
        k = E - self.e
        assert k.denominator == 1 and k >= 0
        c = self.c
        for _ in range(int(k)):
            c = fr_poly_mul(c, self.denom())
        return RefQuasi(c, self.m, E)

    def add(self, o):
        E = max(self.e, o.e)
        return RefQuasi(fr_poly_add(self.raise_to(E).c, o.raise_to(E).c), self.m, E)

    def mul(self, o):
        return RefQuasi(fr_poly_mul(self.c, o.c), self.m, self.e + o.e)

    def scale(self, s):
        return RefQuasi([x * s for x in self.c], self.m, self.e)

    def pow(self, n):
        r = RefQuasi([1], self.m, 0)
        for _ in range(n):
            r = r.mul(self)
        return RefQuasi(r.c, self.m, self.e * n)

    def deriv(self):
        n = len(self.c) - 1
        dn = [x * (n - i) for i, x in enumerate(self.c[:-1])] or [Fraction(0)]
        # (N / D^e)' = (N' D - e N D') / D^(e+1)
        a = fr_poly_mul(dn, self.denom())
        b = [x * (-self.e) for x in fr_poly_mul(self.c, [2 / self.m, Fraction(0)])]
        return RefQuasi(fr_poly_add(a, b), self.m, self.e + 1)

    def same(self, q):
        """exactly the same rational function (exponents may differ by an integer)"""
        E = max(self.e, frac_of(q.exponent))
        k = E - frac_of(q.exponent)
        if k.denominator != 1 or (E - self.e).denominator != 1 or frac_of(q.m) != self.m:
            return False
        mine = self.raise_to(E).c
        c = [frac_of(x) for x in q.coeffs]
        for _ in range(int(k)):
            c = fr_poly_mul(c, self.denom())
        return fr_strip(mine) == fr_strip(c)


def frac_of(x):
    return Fraction(*float(x).as_integer_ratio())


def rft_algebra(ck, rft):
    rng = ck.rng("ecquasi")
    n = ck.n(150, 1500)
    for t in range(n):
        m = int(rng.choice([1, 2, 4, 8, 16]))
        def rnd():
            deg = int(rng.integers(0, 4))
            c = [int(v) for v in rng.integers(-4, 5, size=deg + 1)]
            if c[0] == 0:
                c[0] = 1
            e = Fraction(int(rng.integers(0, 7)), 2)
            return c, e
        (c1, e1), (c2, e2) = rnd(), rnd()
        if (e1 - e2).denominator != 1:
            e2 = e2 + Fraction(1, 2)
        q1, q2 = rft.ECquasi(c1, m=m, exponent=float(e1)), rft.ECquasi(c2, m=m, exponent=float(e2))
        r1, r2 = RefQuasi(c1, m, e1), RefQuasi(c2, m, e2)
        k = int(rng.integers(0, 4))
        s = float(rng.choice([-2.0, 0.5, 3.0]))
        ops = {
            "change_exponent": (lambda: q1.change_exponent(k), lambda: r1, e1 + k),
            "add": (lambda: q1 + q2, lambda: r1.add(r2), max(e1, e2)),
            "sub": (lambda: q1 - q2, lambda: r1.add(r2.scale(-1)), max(e1, e2)),
            "mul": (lambda: q1 * q2, lambda: r1.mul(r2), e1 + e2),
            "scalar-mul": (lambda: q1 * s, lambda: r1.scale(frac_of(s)), e1),
            "pow": (lambda: q1 ** k, lambda: r1.pow(k), e1 * k),
            "deriv": (lambda: q1.deriv(), lambda: r1.deriv(), e1 + 1),
        }
        for name, (impl, ref, eexp) in ops.items():
            ck.count(("quasi", name, tuple(c1), tuple(c2), m, e1, e2, k, s), bucket="rft:ecquasi")
            rep = {"op": name, "c1": c1, "e1": float(e1), "c2": c2, "e2": float(e2), "m": m, "k": k, "scalar": s}
            try:
                got = impl()
            except Exception as ex:  # noqa
                ck.fail("ecquasi/%s/raises" % name, "ECquasi %s raised %s" % (name, ex), rep)
                continue
            want = ref()
            if not want.same(got):
                ck.fail("ecquasi/%s/value" % name, "ECquasi %s: got coeffs %s exponent %s (m=%s), which is not the rational function "
                        "num %s / (1+x^2/%d)^%s" % (name, got.coeffs.tolist(), got.exponent, got.m, [str(x) for x in want.c], m, want.e), rep)
            elif frac_of(got.exponent) != eexp:
                ck.fail("ecquasi/%s/exponent" % name, "ECquasi %s: exponent %s, documented %s" % (name, got.exponent, eexp), rep)
            # __call__ agrees with the reference value at dyadic points
            for x in (0.0, 0.5, -1.0, 2.0):
                D = 1 + Fraction(*x.as_integer_ratio()) ** 2 / m
                num = sum(cf * Fraction(*x.as_integer_ratio()) ** (len(want.c) - 1 - i) for i, cf in enumerate(want.c))
                val = float(num) / float(D) ** float(want.e)
                try:
                    gv = float(got(x))
                except Exception:  # noqa
                    gv = float("nan")
                if not close(gv, val, 1e-12):
                    ck.fail("ecquasi/%s/call" % name, "ECquasi %s evaluated at %s gives %s, expected %s" % (name, x, gv, val), dict(rep, x=x))
    # IntrinsicVolumes.__mul__ is the (full) convolution; it does not change its operands; exact comparison with the Coq model iv_mul
    terms, meta = [], []
    for t in range(ck.n(40, 400)):
        a = [int(v) for v in rng.integers(-3, 4, size=int(rng.integers(1, 5)))]
        b = [int(v) for v in rng.integers(-3, 4, size=int(rng.integers(1, 5)))]
        A, B = rft.IntrinsicVolumes(a), rft.IntrinsicVolumes(b)
        got = (A * B).mu.tolist()
        want = [float(v) for v in fr_poly_mul([Fraction(x) for x in a], [Fraction(x) for x in b])]
        ck.count(("ivmul", tuple(a), tuple(b)), bucket="rft:intrinsic-volumes-mul")
        if got != want:
            ck.fail("intrinsic-volumes-mul", "IntrinsicVolumes(%s) * IntrinsicVolumes(%s) = %s, the convolution is %s" % (a, b, got, want), {"a": a, "b": b})
        if A.mu.tolist() != [float(v) for v in a] or B.mu.tolist() != [float(v) for v in b] or A.order != len(a) - 1:
            ck.fail("intrinsic-volumes-mul/operand-mutated", "a * b changed an operand: a.mu %s (was %s), b.mu %s (was %s)" % (A.mu.tolist(), a, B.mu.tolist(), b),
                    {"a": a, "b": b})
        if all(float(v) == int(v) for v in got):
            terms.append("Harness.zlist_eqb (iv_mul %s %s) %s" % (czl(a), czl(b), czl([int(v) for v in got])))
            meta.append(("mul", a, b, got))
        # object level: an ECcone with integer regions, evaluated with the default search region; stored regions afterwards
        srch = [int(v) for v in rng.integers(0, 4, size=int(rng.integers(1, 4)))]
        srch[0] = 1
        cone = rft.ECcone(mu=[1], search=srch, product=b)
        for ncall in (1, 2):
            cone(np.array([1.5]))
            after = [cone.mu.tolist(), cone.search.mu.tolist(), cone.product.mu.tolist()]
            st = "(mkcone [1] %s %s)" % (czl(srch), czl(b))
            stn = st if ncall == 1 else "(snd (call_src %s None))" % st
            if all(float(v) == int(v) for r in after for v in r):
                terms.append("let st' := snd (call_src %s None) in Harness.zlist_eqb (c_mu st') %s && Harness.zlist_eqb (c_search st') %s "
                             "&& Harness.zlist_eqb (c_product st') %s" % (stn, czl([int(v) for v in after[0]]), czl([int(v) for v in after[1]]),
                                                                          czl([int(v) for v in after[2]])))
                meta.append(("call", srch, b, after))
    if ck.build.ok:
        res = ck.coq_bools(HDR, terms, name="rftregions")
        ck.cov["traces_validated_against_impl"] += len(res)
        for ok, mt in zip(res, meta):
            if not ok:
                if mt[0] == "mul":
                    ck.fail("intrinsic-volumes-mul/model-vs-impl", "model iv_mul %s %s differs from the implementation's %s" % (mt[1], mt[2], mt[3]), {"a": mt[1], "b": mt[2]})
                else:
                    ck.fail("eccone-state/model-vs-impl", "ECcone(mu=[1], search=%s, product=%s): stored (mu, search.mu, product.mu) after evaluation are %s, "
                            "the model (flags read from rft.py) says otherwise" % (mt[1], mt[2], mt[3]), {"search": mt[1], "product": mt[2], "after": mt[3]})
                break
    ck.section("rft-algebra", ecquasi_cases=n)


def rft_densities(ck, rft):
    from scipy import stats
    from scipy.special import gammaln, gammasgn
    xs = np.array([0.1, 0.5, 1.0, 1.7, 2.5, 3.3, 4.0, 6.0])
    if ck.thorough():
        xs = np.concatenate([xs, np.linspace(0.05, 9.0, 40)])
    # small, moderate and LARGE finite denominator degrees of freedom (long time series): Gamma((dfd+1)/2) itself overflows from dfd = 343
    # (non-integer dfd: effective / Satterthwaite degrees of freedom)
    dfds = [2.5, 3, 5, 7.5, 10, 23.7, 30, 40, 100, 343, 400, 1000, 10000, 1000000] if not ck.thorough() else \
        [2.5, 3, 4, 5, 7, 7.5, 10, 20, 23.7, 30, 40, 50, 100, 100.3, 300, 343, 344, 400, 1000, 5000, 10000, 100000, 1000000]
    dfns = [1, 2, 3, 5, 8, 22, 23] if not ck.thorough() else [1, 2, 3, 4, 5, 6, 8, 12, 22, 23, 30]

    def evaluate(sig, what, got, rep):
        """`got` may be a thunk: constructing or evaluating the statistic must not raise"""
        if not callable(got):
            return got
        try:
            return got()
        except Exception as e:  # noqa
            sg = sig.split("/")
            ck.fail("/".join(sg[:1] + ["raises"] + sg[1:2]), "%s raised %s: %s" % (what.split(" vs ")[0], type(e).__name__, e), rep)
            return None

    def chk(sig, what, got, want, rep, tol=1e-9, dfd=0., scale=0.):
        """relative 1e-9; differences of log-Gamma values of size ~dfd lose about dfd * 1e-16, which is added for large dfd"""
        ck.count((sig, repr(rep)), bucket="rft:density")
        got = evaluate(sig, what, got, rep)
        if got is None:
            return
        got, want = np.asarray(got, float), np.asarray(want, float)
        extra = 4e-15 * float(dfd)
        if not np.all(np.isfinite(got)):
            i = int(np.argmin(np.isfinite(got)))
            ck.fail(sig.split("/")[0] + "/non-finite/" + sig.split("/")[1], "%s: at x=%s got %s (not finite), expected %s" % (what, xs[i], got[i], want[i]),
                    dict(rep, x=float(xs[i]), got=str(got[i]), expected=float(want[i])))
            return
        # `scale` = sum of |terms| of the expansion the code evaluates: densities change sign, rounding of the sum is 1e-12 * scale
        bad = ~(np.abs(got - want) <= (tol + extra) * (np.abs(want) + 1e-12) + 1e-14 + extra * np.max(np.abs(want)) + 1e-12 * scale)
        if bad.any():
            i = int(np.argmax(bad))
            ck.fail(sig, "%s: at x=%s got %s, expected %s" % (what, xs[i], got[i], want[i]), dict(rep, x=float(xs[i]), got=float(got[i]), expected=float(want[i])))

    def neg_gamma(k, m, d):
        """structural feature of the rft.Q defect: for a sphere coefficient mu[kk] != 0 that enters the density of dimension d,
        Q(kk + d, dfd=m) evaluates exp(-gammaln(a)) at a = (m + 2 - j + 2L)/2 with Gamma(a) < 0"""
        mu = rft.spherical_search(k).mu
        return any(gammasgn((m + 2 - (kk + d) + 2 * L) / 2.) < 0 for kk in range(k) if mu[kk] != 0 and kk + d > 0
                   for L in range((kk + d - 1) // 2 + 1))

    # rho_0 == upper tail probability, from moderate thresholds to far in the tail, compared relatively (no absolute floor)
    xt = np.concatenate([xs, [7.0, 8.5, 10.0, 12.0, 15.0]])

    def chk_tail(sig, what, got, want, rep, dfd=0.):
        ck.count((sig, repr(rep)), bucket="rft:density")
        got = evaluate(sig, what, got, rep)
        if got is None:
            return
        got, want = np.asarray(got, float), np.asarray(want, float)
        bad = ~(np.abs(got - want) <= (1e-9 + 4e-15 * float(dfd)) * np.abs(want) + 1e-300)
        if bad.any():
            i = int(np.argmax(bad))
            sg = sig.split("/")
            feat = "non-finite" if not np.isfinite(got[i]) else ("far-tail" if want[i] < 1e-9 else None)
            ck.fail("/".join(sg[:1] + ([feat] if feat else []) + sg[1:]), "%s: at threshold %s got %.17g, tail probability %.17g" % (what, xthr[i], got[i], want[i]),
                    dict(rep, x=float(xthr[i]), got=float(got[i]) if np.isfinite(got[i]) else str(got[i]), expected=float(want[i])))

    xthr = xt
    chk_tail("rho0/gaussian", "Gaussian().density(x, 0) vs norm.sf", lambda: rft.Gaussian().density(xt, 0), stats.norm.sf(xt), {})
    for m in dfds:
        chk_tail("rho0/t", "TStat(dfd=%g).density(x, 0) vs t.sf" % m, lambda: rft.TStat(dfd=m).density(xt, 0), stats.t.sf(xt, m), {"dfd": m}, dfd=m)
    for k in dfns:
        xthr = xt ** 2
        chk_tail("rho0/chi2", "ChiSquared(dfn=%d).density(x, 0) vs chi2.sf" % k, lambda: rft.ChiSquared(dfn=k).density(xthr, 0), stats.chi2.sf(xthr, k), {"dfn": k})
        for m in dfds:
            xthr = xt ** 2 / k
            chk_tail("rho0/F/%s" % ("negative-gamma-in-Q" if neg_gamma(k, m, 0) else "other"),
                     "FStat(dfn=%d, dfd=%g).density(x, 0) vs f.sf" % (k, m), lambda: rft.FStat(dfn=k, dfd=m).density(xthr, 0),
                     stats.f.sf(xthr, k, m), {"dfn": k, "dfd": m}, dfd=m)
    # Gaussian: (2 pi)^-(d+1)/2 He_{d-1}(x) exp(-x^2/2); He by the three-term recurrence (independent of hermitenorm)
    def He(n, x):
        a, b = np.ones_like(x), x
        if n == 0:
            return a
        for j in range(1, n):
            a, b = b, x * b - j * a
        return b
    for d in range(1, 8):
        chk("density/gaussian", "Gaussian().density(x, %d) vs Hermite closed form" % d, lambda: rft.Gaussian().density(xs, d),
            (2 * np.pi) ** (-(d + 1) / 2.) * He(d - 1, xs) * np.exp(-xs ** 2 / 2), {"dim": d})
    # t field (Worsley 1994), dims 1..3
    for m in dfds:
        base = np.exp(-(m - 1) / 2. * np.log1p(xs ** 2 / m))                                  # closed forms evaluated in log space
        c2 = np.exp(gammaln((m + 1) / 2.) - gammaln(m / 2.) - 0.5 * np.log(m / 2.))
        forms = {1: (2 * np.pi) ** -1 * base, 2: (2 * np.pi) ** -1.5 * c2 * xs * base,
                 3: (2 * np.pi) ** -2 * ((m - 1.) / m * xs ** 2 - 1) * base}
        for d, want in forms.items():
            chk("density/t", "TStat(dfd=%g).density(x, %d) vs Worsley closed form" % (m, d), lambda: rft.TStat(dfd=m).density(xs, d), want, {"dfd": m, "dim": d}, dfd=m)
    # chi-squared field (Worsley 1994), dims 1..3
    for k in dfns:
        c = 1.0 / (2 ** ((k - 2) / 2.) * np.exp(gammaln(k / 2.)))
        forms = {1: (2 * np.pi) ** -0.5 * c * xs ** ((k - 1) / 2.) * np.exp(-xs / 2),
                 2: (2 * np.pi) ** -1 * c * xs ** ((k - 2) / 2.) * np.exp(-xs / 2) * (xs - (k - 1)),
                 3: (2 * np.pi) ** -1.5 * c * xs ** ((k - 3) / 2.) * np.exp(-xs / 2) * (xs ** 2 - (2 * k - 1) * xs + (k - 1) * (k - 2))}
        for d, want in forms.items():
            chk("density/chi2", "ChiSquared(dfn=%d).density(x, %d) vs Worsley closed form" % (k, d), lambda: rft.ChiSquared(dfn=k).density(xs, d), want,
                {"dfn": k, "dim": d}, scale=ref_cone(np.sqrt(xs), ref_sphere(k), np.inf, [0.0] * d + [1.0])[1])
    # F field (Worsley 1994), dims 1..2
    for k in dfns:
        for m in dfds:
            u = k * xs / m
            g = np.exp(gammaln((m + k - 1) / 2.) - gammaln(m / 2.) - gammaln(k / 2.))
            g2 = np.exp(gammaln((m + k - 2) / 2.) - gammaln(m / 2.) - gammaln(k / 2.))
            pw = np.exp(-(m + k - 2) / 2. * np.log1p(u))
            forms = {1: (2 * np.pi) ** -0.5 * g * np.sqrt(2.) * u ** ((k - 1) / 2.) * pw,
                     2: (2 * np.pi) ** -1 * g2 * u ** ((k - 2) / 2.) * pw * ((m - 1) * u - (k - 1))}
            for d, want in forms.items():
                # structural feature: Q(j, dfd) takes gammaln((m+2-j+2L)/2) at an argument where Gamma is negative (log|Gamma| loses the sign)
                neg = neg_gamma(k, m, d)
                chk("density/F/%s" % ("negative-gamma-in-Q" if neg else "other"), "FStat(dfn=%d, dfd=%g).density(x, %d) vs Worsley closed form" % (k, m, d),
                    lambda: rft.FStat(dfn=k, dfd=m).density(xs, d), want, {"dfn": k, "dfd": m, "dim": d}, dfd=m,
                    scale=ref_cone(np.sqrt(xs * k), ref_sphere(k), m, [0.0] * d + [1.0])[1])
    # ---- rho_0 for numerator df / sphere dimensions up to the hundreds and non-integer dfd, thresholds at given tail probabilities
    tails = np.array([0.9, 0.5, 0.1, 1e-3, 1e-8])
    for k in ([22, 23, 30, 64, 120] if not ck.thorough() else [16, 22, 23, 30, 40, 64, 100, 120, 200]):
        for m in (7.5, 23.7, 40, 1000, np.inf):
            if np.isfinite(m):
                thr, mk0, arg = stats.f.isf(tails, k, m), (lambda: rft.FStat(dfn=k, dfd=m)), (lambda t: np.sqrt(t * k))
                want, nm = stats.f.sf(thr, k, m), "FStat(dfn=%d, dfd=%g)" % (k, m)
            else:
                thr, mk0, arg = stats.chi2.isf(tails, k), (lambda: rft.ChiSquared(dfn=k)), np.sqrt
                want, nm = stats.chi2.sf(thr, k), "ChiSquared(dfn=%d)" % k
            ck.count(("rho0-large", k, m), bucket="rft:density")
            got = evaluate("rho0-large-dfn/x", nm + ".density(x, 0)", lambda: mk0().density(thr, 0), {"dfn": k, "dfd": m, "x": thr.tolist()})
            if got is None:
                continue
            got = np.asarray(got, float)
            _, scale = ref_cone(arg(thr), ref_sphere(k), m, [1.0])
            cond = scale / np.abs(want)                       # conditioning of the alternating Hermite expansion the code evaluates
            bad = ~(np.abs(got - want) <= 1e-9 * np.abs(want))
            if bad.any():
                i = int(np.argmax(bad))
                err = abs(got[i] - want[i])
                if not np.isfinite(got[i]):
                    feat = "non-finite"
                elif err <= 1e-12 * scale[i]:
                    feat = "cancellation"                     # within the rounding error of the ill-conditioned alternating sum the code evaluates
                elif k - 2 >= HERMITE_EXACT:
                    feat = "hermitenorm-inexact"              # He_{k-2} enters; np.around(hermitenorm(n).c) is not exact from n = 27
                else:
                    feat = "value"
                ck.fail("rho0-large-dfn/%s" % feat,
                        "%s.density(%.6g, 0) = %.12g, upper tail probability %.12g (relative error %.3g; sum|terms|/value = %.3g)" % (
                            nm, thr[i], got[i], want[i], abs(got[i] - want[i]) / want[i], cond[i]),
                        {"dfn": k, "dfd": m, "x": float(thr[i]), "got": float(got[i]) if np.isfinite(got[i]) else str(got[i]), "expected": float(want[i])})
    # ---- large finite dfd: every density is finite and converges (first order in 1/dfd) to its dfd = inf limit
    limits = [("t", lambda v: rft.TStat(dfd=v), lambda: rft.Gaussian(), xs, range(0, 6))]
    for k in (2, 5):
        limits.append(("F", (lambda k: lambda v: rft.FStat(dfn=k, dfd=v))(k), (lambda k: lambda: rft.FStat(dfn=k, dfd=np.inf))(k), xs, range(0, 5)))
        limits.append(("Hotelling", (lambda k: lambda v: rft.Hotelling(k=k, dfd=v))(k), (lambda k: lambda: rft.Hotelling(k=k, dfd=np.inf))(k), xs ** 2, range(0, 4)))
        limits.append(("Roy", (lambda k: lambda v: rft.Roy(dfn=3, dfd=v, k=k))(k), (lambda k: lambda: rft.Roy(dfn=3, dfd=np.inf, k=k))(k), xs, range(0, 4)))
        limits.append(("OneSidedF", (lambda k: lambda v: rft.OneSidedF(k + 1, dfd=v))(k), (lambda k: lambda: rft.OneSidedF(k + 1, dfd=np.inf))(k), xs, range(0, 4)))
    grid = [40, 100, 343, 400, 1000, 10000, 100000, 1000000]
    for li, (name, mk, mklim, xx, dims) in enumerate(limits):
        lim = mklim()
        for d in dims:
            want = np.asarray(lim.density(xx, d), float)
            prev = None
            for v in grid:
                ck.count(("conv", name, d, v, li), bucket="rft:large-dfd")
                rep = {"statistic": name, "dfd": v, "dim": d, "x": xx.tolist()}
                got = evaluate("density/large-dfd-limit/" + name, "%s with dfd=%g: density of order %d" % (name, v, d), lambda: mk(v).density(xx, d), rep)
                if got is None:
                    prev = None
                    continue
                got = np.asarray(got, float)
                if not np.all(np.isfinite(got)):
                    ck.fail("density/non-finite/%s" % name, "%s with dfd=%g: density of order %d is %s" % (name, v, d, got.tolist()), rep)
                    prev = None
                    continue
                err = float(np.max(np.abs(got - want)))
                if prev is not None and err > 2.0 * prev[1] * prev[0] / v + 1e-8 * (1 + float(np.max(np.abs(want)))):
                    ck.fail("density/large-dfd-limit/%s" % name, "%s density of order %d: distance to the dfd=inf limit is %.3g at dfd=%g but %.3g at dfd=%g "
                            "(no 1/dfd convergence)" % (name, d, prev[1], prev[0], err, v), rep)
                prev = (v, err)
            if prev is not None and prev[1] > 1e-4 * (1 + float(np.max(np.abs(want)))):
                ck.fail("density/large-dfd-limit/%s" % name, "%s density of order %d at dfd=%g is still %.3g away from the dfd=inf limit" % (name, d, prev[0], prev[1]),
                        {"statistic": name, "dim": d})
    ck.trust.append("EC densities are compared numerically (relative 1e-9 with scipy.stats tail probabilities and the closed forms of "
                    "Worsley (1994) for Gaussian/t/chi2/F fields; scipy.special.gammaln/hermitenorm, scipy.stats and np.poly1d are oracles")
    ck.section("rft-densities", thresholds=len(xs), dfd=dfds, dfn=dfns)


def rft_repeat(ck, rft):
    """Every statistic object is a pure function of (x, search): evaluated several times (default search, explicit search,
    density, pvalue, interleaved thresholds) it returns identical results, equal to those of a freshly built object, and
    its stored regions (mu, search.mu, product.mu) are not changed by evaluation.  rho_0 is the tail probability."""
    from scipy import stats
    x1 = np.array([2.0, 6.0, 12.0, 20.0])
    x2 = np.array([0.7, 3.1, 9.5, 30.0])
    sregion = [1., 4., 6., 4.]
    inf = np.inf

    def hot_tail(k, v):
        return (lambda x: stats.f.sf(x * (v - k + 1.) / (v * k), k, v - k + 1)) if np.isfinite(v) else (lambda x: stats.chi2.sf(x, k))

    cases = [("Gaussian", lambda **kw: rft.Gaussian(**kw), lambda x: stats.norm.sf(x), {})]
    for v in ([5, 7.5, 23.7, 40, 1000, inf] if not ck.thorough() else [3, 5, 7.5, 12, 23.7, 40, 100.3, 343, 1000, 1e5, inf]):
        cases.append(("TStat", (lambda v: lambda **kw: rft.TStat(dfd=v, **kw))(v), (lambda v: lambda x: stats.t.sf(x, v) if np.isfinite(v) else stats.norm.sf(x))(v), {"dfd": v}))
        for k in (((2, 5, 22) if v in (23.7, inf) else (2, 5)) if not ck.thorough() else (1, 2, 3, 5, 8, 22, 25)):
            cases.append(("FStat", (lambda k, v: lambda **kw: rft.FStat(dfn=k, dfd=v, **kw))(k, v),
                          (lambda k, v: lambda x: stats.f.sf(x, k, v) if np.isfinite(v) else stats.chi2.sf(k * x, k))(k, v), {"dfn": k, "dfd": v}))
            if not np.isfinite(v) or v - k + 1 > 0:
                cases.append(("Hotelling", (lambda k, v: lambda **kw: rft.Hotelling(k=k, dfd=v, **kw))(k, v), hot_tail(k, v), {"k": k, "dfd": v}))
            # Roy with k = 1: the product region is the 0-sphere (two points): twice the F tail
            cases.append(("Roy", (lambda k, v: lambda **kw: rft.Roy(dfn=k, dfd=v, k=1, **kw))(k, v),
                          (lambda k, v: lambda x: 2 * (stats.f.sf(x, k, v) if np.isfinite(v) else stats.chi2.sf(k * x, k)))(k, v), {"dfn": k, "dfd": v, "k": 1}))
            cases.append(("Roy", (lambda k, v: lambda **kw: rft.Roy(dfn=k, dfd=v, k=3, **kw))(k, v), None, {"dfn": k, "dfd": v, "k": 3}))
            cases.append(("OneSidedF", (lambda k, v: lambda **kw: rft.OneSidedF(k + 1, dfd=v, **kw))(k, v), None, {"dfn": k + 1, "dfd": v}))
    for k in (1, 2, 3, 5, 22, 23):
        cases.append(("ChiSquared", (lambda k: lambda **kw: rft.ChiSquared(dfn=k, **kw))(k), (lambda k: lambda x: stats.chi2.sf(x, k))(k), {"dfn": k}))
        # a Gaussian linear form maximised over the unit sphere of R^k is |Z|: chi_k tail
        cases.append(("MultilinearForm", (lambda k: lambda **kw: rft.MultilinearForm(k, **kw))(k), (lambda k: lambda x: stats.chi.sf(x, k))(k), {"dims": [k]}))
        cases.append(("ChiBarSquared", (lambda k: lambda **kw: rft.ChiBarSquared(dfn=k, **kw))(k), None, {"dfn": k}))
    cases.append(("MultilinearForm", lambda **kw: rft.MultilinearForm(2, 3, **kw), None, {"dims": [2, 3]}))
    cases.append(("MultilinearForm", lambda **kw: rft.MultilinearForm(2, 2, 4, **kw), None, {"dims": [2, 2, 4]}))

    def snap(o):
        return {"mu": np.array(getattr(o.mu, "mu", o.mu), float).copy(), "order": int(o.order), "search.mu": np.array(o.search.mu, float).copy(),
                "product.mu": np.array(o.product.mu, float).copy()}

    def same(a, b):
        return isinstance(a, np.ndarray) and isinstance(b, np.ndarray) and a.shape == b.shape and bool(np.all((a == b) | (np.isnan(a) & np.isnan(b))))

    n_obj = 0
    for cname, mk, tail, params in cases:
        for fixed in (None, sregion):
            kw = {} if fixed is None else {"search": fixed}
            rep = {"class": cname, "params": params, "constructor_search": fixed, "x": x1.tolist()}
            ck.count(("repeat", cname, repr(params), fixed is None), bucket="rft:repeat")
            n_obj += 1

            def F(msg, what):
                ck.fail("rft-repeat/%s/%s" % (what, cname), "%s(%s%s): %s" % (cname, params, "" if fixed is None else ", search=%s" % fixed, msg), rep)
            try:
                o = mk(**kw)
                before = snap(o)
                A = [np.asarray(o(x1), float)]                 # first evaluation
                A.append(np.asarray(o(x1), float))             # again
                B = np.asarray(o(x2), float)                   # other thresholds in between
                A.append(np.asarray(o(x1), float))
                D0 = np.asarray(o.density(x1, 0), float)
                A.append(np.asarray(o(x1), float))
                S1 = np.asarray(o(x1, search=[1., 2., 3.]), float)
                A.append(np.asarray(o(x1), float))
                S2 = np.asarray(o(x1, search=[1., 2., 3.]), float)
                A.append(np.asarray(o.pvalue(x1), float))
                D2a = np.asarray(o.density(x1, 2), float)
                D2b = np.asarray(o.density(x1, 2), float)
                A.append(np.asarray(o(x1), float))
                after = snap(o)
                fresh1 = np.asarray(mk(**kw)(x1), float)
                fresh2 = np.asarray(mk(**kw)(x2), float)
                dens = [np.asarray(mk(**kw).density(x1, i), float) for i in range(4)]
            except Exception as e:  # noqa
                F("evaluation raised %s: %s" % (type(e).__name__, e), "raises")
                continue
            for i, a in enumerate(A[1:], start=2):
                if not same(a, A[0]):
                    F("default-search evaluation #%d returns %s, the first evaluation of the same object returned %s (product region %s)" % (
                        i, a.tolist(), A[0].tolist(), before["product.mu"].tolist()), "repeated-call-differs")
                    break
            if not same(A[0], fresh1) or not same(B, fresh2):
                F("evaluation differs from that of a freshly constructed object: %s vs %s" % (B.tolist(), fresh2.tolist()), "repeated-call-differs")
            if not same(S1, S2):
                F("explicit search=[1,2,3]: second evaluation %s, first %s" % (S2.tolist(), S1.tolist()), "repeated-call-differs")
            if not same(D2a, D2b):
                F("density(x, 2): second evaluation %s, first %s" % (D2b.tolist(), D2a.tolist()), "repeated-call-differs")
            for key in before:
                if not same(np.atleast_1d(np.asarray(before[key], float)), np.atleast_1d(np.asarray(after[key], float))):
                    F("stored region %s changed from %s to %s by evaluating the object" % (key, np.asarray(before[key]).tolist(), np.asarray(after[key]).tolist()),
                      "stored-region-mutated")
            if not np.all(np.isfinite(A[0])) or not np.all(np.isfinite(S1)) or not all(np.all(np.isfinite(dd)) for dd in dens):
                F("non-finite values: call %s, densities %s" % (A[0].tolist(), [dd.tolist() for dd in dens]), "non-finite")
                continue
            # expected EC is linear in the search region: sum_i density(x, i) * search[i]
            lin = sum(dens[i] * c for i, c in enumerate([1., 2., 3.]))
            if not close(S1, lin, 1e-9):
                F("o(x, search=[1,2,3]) = %s but sum_i density(x,i)*search[i] = %s" % (S1.tolist(), lin.tolist()), "linearity")
            want = dens[0] if fixed is None else sum(dens[i] * c for i, c in enumerate(fixed))
            if not close(A[0], want, 1e-9):
                F("o(x) = %s but sum_i density(x,i)*search[i] over the constructor's search region = %s" % (A[0].tolist(), np.asarray(want).tolist()), "linearity")
            if fixed is None and not close(D0, A[0], 1e-12):
                F("density(x, 0) = %s but o(x) = %s" % (D0.tolist(), A[0].tolist()), "density0-vs-call")
            if tail is not None:
                tv = np.asarray(tail(x1), float)
                # a tail probability is compared RELATIVELY (thresholds reach far into the tail; an absolute floor would hide 1 - cdf)
                if not np.all(np.abs(dens[0] - tv) <= 1e-8 * np.abs(tv) + 1e-300):
                    F("rho_0 = %s, upper tail probability = %s" % (dens[0].tolist(), tv.tolist()), "tail")
    ck.section("rft-repeat", objects=n_obj, calls_per_object=13)


# ====================================================================== section: rft helper functions
def gamma_overflow(name, n):
    """structural feature: mu_sphere evaluates gamma(n/2), mu_ball gamma(n/2 + 1); Gamma(x) exceeds the double range for x > 171.62"""
    return (n / 2. + (1 if name == "ball" else 0)) > 171.62


def rft_hermite(ck, rft):
    """rft._hermitenorm_coeffs (and Q(dim) for dfd = inf, which wraps it): exact comparison with the Coq model hermitenorm_coeffs
    (theorems hermitenorm_coeffs_three_term_recurrence / _degree_monic_parity) and with the explicit formula
    He_n = sum_k (-1)^k n! / (k! (n-2k)! 2^k) x^(n-2k) (independent of the recurrence).  Two executions of the current code:
    the function as imported (float64 result: exact while every coefficient is below 2^53) and its source text executed with
    `np.array` replaced by `list`, which exposes the exact Python-int vector for every n."""
    import inspect
    nmax = ck.n(60, 160)

    def explicit(n):
        out = [0] * (n + 1)
        for k in range(n // 2 + 1):
            out[2 * k] = (-1) ** k * (math.factorial(n) // (math.factorial(k) * math.factorial(n - 2 * k) * 2 ** k))
        return out

    exact_fn = None
    try:
        class _NP:
            float64 = None
            array = staticmethod(lambda b, dtype=None: list(b))
        ns = {"np": _NP}
        exec(compile(inspect.getsource(rft._hermitenorm_coeffs), "<rft._hermitenorm_coeffs>", "exec"), ns)
        exact_fn = ns["_hermitenorm_coeffs"]
    except Exception as e:  # noqa
        ck.fail("rft-hermite/source-exec", "cannot execute the source of rft._hermitenorm_coeffs with np.array -> list (fail-closed): %r" % e,
                {"kind": "correspondence-broken", "error": repr(e)}, found_input=False)
    terms, meta = [], []
    n_exact = n_float = 0
    for n in range(0, nmax + 1):
        ref = explicit(n)
        want = [float(v) for v in ref]
        ck.count(("herm", n), bucket="rft:hermitenorm-coeffs")
        try:
            got = np.asarray(rft._hermitenorm_coeffs(n))
            q = rft.Q(n + 1).c
        except Exception as e:  # noqa
            ck.fail("rft-hermite/raises", "_hermitenorm_coeffs(%d) / Q(%d) raised %r" % (n, n + 1, e), {"n": n})
            continue
        feat = "n<=1" if n <= 1 else "loop"
        if got.dtype != np.float64 or got.shape != (n + 1,) or got.tolist() != want:
            ck.fail("rft-hermite/value/%s" % feat, "_hermitenorm_coeffs(%d) = %s (dtype %s); exact He_%d coefficients (explicit formula) are %s"
                    % (n, got.tolist(), got.dtype, n, ref), {"n": n, "got": got.tolist(), "want": [str(v) for v in ref]})
        if np.asarray(q).tolist() != want:
            ck.fail("rft-hermite/Q-inf/%s" % feat, "Q(%d).c = %s for dfd = inf; He_%d coefficients are %s" % (n + 1, np.asarray(q).tolist(), n, ref),
                    {"dim": n + 1, "got": np.asarray(q).tolist(), "want": [str(v) for v in ref]})
        if got.ndim == 1 and all(np.isfinite(v) and float(v) == int(v) and abs(v) < 2.0 ** 53 for v in got.tolist()):
            terms.append("Harness.zlist_eqb (hermitenorm_coeffs %s) %s" % (cnat(n), czl([int(v) for v in got.tolist()])))
            meta.append(("imported", n, [int(v) for v in got.tolist()]))
            n_float += 1
        if exact_fn is not None:
            try:
                ex = exact_fn(n)
                ex = [v for v in ex]
                if not all(isinstance(v, int) and not isinstance(v, bool) for v in ex):
                    raise TypeError("non-int coefficient in %r" % (ex[:4],))
            except Exception as e:  # noqa
                ck.fail("rft-hermite/source-exec", "source of _hermitenorm_coeffs executed with np.array -> list fails at n = %d: %r" % (n, e),
                        {"n": n, "error": repr(e)})
                continue
            if ex != ref:
                ck.fail("rft-hermite/exact-value/%s" % feat, "source of _hermitenorm_coeffs (exact ints) at n = %d gives %s; He_%d coefficients are %s"
                        % (n, ex, n, ref), {"n": n, "got": [str(v) for v in ex], "want": [str(v) for v in ref]})
            terms.append("Harness.zlist_eqb (hermitenorm_coeffs %s) %s" % (cnat(n), czl(ex)))
            meta.append(("source", n, ex))
            n_exact += 1
        if n in (0, 1, 6):
            ck.sample({"kind": "hermitenorm_coeffs", "n": n, "impl": got.tolist(), "explicit_formula": ref})
    if ck.build.ok:
        res = ck.coq_bools(HDR, terms, name="hermite")
        ck.cov["traces_validated_against_impl"] += len(res)
        for ok, mt in zip(res, meta):
            if not ok:
                ck.fail("rft-hermite/model-vs-impl", "_hermitenorm_coeffs(%d) (%s) = %s differs from the Coq model hermitenorm_coeffs %d"
                        % (mt[1], mt[0], mt[2], mt[1]), {"n": mt[1], "which": mt[0], "impl": [str(v) for v in mt[2]],
                                                           "model": ck.coq_show(HDR, "hermitenorm_coeffs %s" % cnat(mt[1]))})
                break
    ck.section("rft-hermite", n_max=nmax, model_terms=len(terms), imported_float_exact=n_float, source_exact_int=n_exact)


def rft_helpers(ck, rft):
    """binomial, mu_sphere / spherical_search, mu_ball / ball_search, volume2ball against independent exact / log-space formulas,
    for arguments from 0 up to the hundreds; ECquasi argument validation."""
    ns = list(range(0, 41)) + [50, 64, 100, 150, 200, 300]
    for n in ns:
        ks = range(0, n + 1) if n <= 40 else sorted(set([0, 1, 2, 3, n // 3, n // 2, n - 3, n - 2, n - 1, n]))
        for k in ks:
            ck.count(("binom", n, k), bucket="rft:helpers")
            want = math.comb(n, k)
            try:
                got = float(rft.binomial(n, k))
            except Exception as e:  # noqa
                ck.fail("rft-helpers/binomial/raises", "binomial(%d, %d) raised %s" % (n, k, e), {"n": n, "k": k})
                continue
            if not abs(got - want) <= 1e-10 * want:
                feat = "k==n" if k == n else ("n>=22" if n >= 22 else "value")
                ck.fail("rft-helpers/binomial/%s" % feat, "binomial(%d, %d) = %r, C(%d, %d) = %d" % (n, k, got, n, k, want), {"n": n, "k": k, "got": got, "expected": want})
    dims = list(range(1, 13)) + [22, 23, 30, 64, 120, 200, 300, 343, 344, 400]
    for n in dims:
        for r in (1.0, 2.5):
            if n > 100 and r != 1.0:
                continue
            for name, fn, ref in (("sphere", lambda: rft.spherical_search(n, r=r).mu, [v * r ** j for j, v in enumerate(ref_sphere(n))]),
                                  ("ball", lambda: rft.ball_search(n, r=r).mu, ref_ball(n, r))):
                ck.count(("curv", name, n, r), bucket="rft:helpers")
                rep = {"region": name, "n": n, "r": r}
                try:
                    got = np.asarray(fn(), float)
                except Exception as e:  # noqa
                    ck.fail("rft-helpers/%s/raises" % name, "%s_search(%d, r=%g) raised %s: %s" % (name, n, r, type(e).__name__, e), rep)
                    continue
                want = np.asarray(ref, float)
                if got.shape != want.shape:
                    ck.fail("rft-helpers/%s/shape" % name, "%s_search(%d) has %d curvatures, expected %d" % (name, n, got.size, want.size), rep)
                elif gamma_overflow(name, n) and not (np.all(np.isfinite(got)) and np.all(np.abs(got - want) <= 1e-10 * np.abs(want))):
                    j = int(np.argmax(~(np.abs(got - want) <= 1e-10 * np.abs(want))))
                    ck.fail("rft-helpers/%s/gamma-overflow" % name, "mu_%s(%d, %d, r=%g) = %r, expected %r: math Gamma(%g) overflows a double" % (
                        name, n, j, r, got[j], want[j], n / 2. + (1 if name == "ball" else 0)), dict(rep, j=j))
                elif not np.all(np.isfinite(got)):
                    ck.fail("rft-helpers/%s/non-finite" % name,
                            "%s_search(%d, r=%g).mu contains %d non-finite values (first at j=%d); the curvatures are finite (e.g. L_0 = %g)" % (
                                name, n, r, int((~np.isfinite(got)).sum()), int(np.argmin(np.isfinite(got))), want[0]), rep)
                elif not np.all(np.abs(got - want) <= 1e-10 * np.abs(want)):
                    j = int(np.argmax(np.abs(got - want) > 1e-10 * np.abs(want)))
                    ck.fail("rft-helpers/%s/value" % name, "mu_%s(%d, %d, r=%g) = %r, expected %r" % (name, n, j, r, got[j], want[j]), dict(rep, j=j))
    for d in (0, 1, 2, 3, 5, 22, 100):
        for vol in (0.5, 1.0, 37.0):
            ck.count(("v2b", d, vol), bucket="rft:helpers")
            try:
                mu = np.asarray(rft.volume2ball(vol, d=d).mu, float)
            except Exception as e:  # noqa
                ck.fail("rft-helpers/volume2ball/raises", "volume2ball(%g, d=%d) raised %s" % (vol, d, e), {"vol": vol, "d": d})
                continue
            if d == 0:
                ok = mu.tolist() == [1.0]
            else:
                lw = d / 2. * math.log(math.pi) - math.lgamma(d / 2. + 1)
                rr = math.exp((math.log(vol) - lw) / d)
                ok = mu.shape == (d + 1,) and close(mu, ref_ball(d, rr), 1e-9)
            if not ok:
                ck.fail("rft-helpers/volume2ball/value", "volume2ball(%g, d=%d).mu = %s is not a ball of that volume" % (vol, d, mu.tolist()[:4]), {"vol": vol, "d": d})
    # ECquasi argument validation (documented: exponent is a non-negative multiple of 1/2, m > 0)
    for kw, what in (({"exponent": 0.3, "m": 10}, "exponent"), ({"exponent": 1.25, "m": 7.5}, "exponent"), ({"exponent": 2.7, "m": 4}, "exponent"),
                     ({"exponent": 1, "m": 0}, "m"), ({"exponent": 1, "m": -3.0}, "m")):
        ck.count(("quasi-valid", repr(kw)), bucket="rft:helpers")
        try:
            q = rft.ECquasi([1, 2, 3], **kw)
        except ValueError:
            continue
        except Exception as e:  # noqa
            ck.fail("ecquasi/validation/%s" % what, "ECquasi([1,2,3], %s) raised %s instead of ValueError" % (kw, type(e).__name__), {"kwargs": kw})
            continue
        ck.fail("ecquasi/validation/%s" % what, "ECquasi([1,2,3], %s) is accepted (exponent=%r, m=%r); the class documents a multiple of 1/2 and m > 0 "
                "and must raise ValueError" % (kw, q.exponent, q.m), {"kwargs": kw})
    ck.section("rft-helpers", binomial_n_max=300, sphere_dims=dims)


# ====================================================================== section: rft reference model
def ref_sphere(n):
    """Lipschitz-Killing curvatures L_0..L_{n-1} of the unit sphere S^{n-1} in R^n (Adler & Taylor 2007, ch. 6):
    L_j = 2 C(n-1, j) s_n / s_{n-j} when n-1-j is even, else 0, with s_n = 2 pi^(n/2) / Gamma(n/2)."""
    ls = lambda q: math.log(2.) + q / 2. * math.log(math.pi) - math.lgamma(q / 2.)          # log surface area of S^{q-1}
    return [2 * math.comb(n - 1, j) * math.exp(ls(n) - ls(n - j)) if (n - 1 - j) % 2 == 0 else 0.0 for j in range(n)]


def ref_ball(n, r=1.0):
    """L_j(B^n(r)) = C(n, j) r^j w_n / w_{n-j}, w_n = pi^(n/2) / Gamma(n/2 + 1)"""
    lw = lambda q: q / 2. * math.log(math.pi) - math.lgamma(q / 2. + 1)
    return [math.comb(n, j) * r ** j * math.exp(lw(n) - lw(n - j)) for j in range(n + 1)]


def ref_conv(a, b):
    out = [0.0] * (len(a) + len(b) - 1)
    for i, u in enumerate(a):
        for j, v in enumerate(b):
            out[i + j] += u * v
    return out


# np.around(scipy.special.hermitenorm(n).c), which rft.Q uses, equals the exact integer coefficients only up to about n = 26
HERMITE_EXACT = 27
_REFQ = {}


def ref_Q(j, m):
    key = (j, float(m))
    if key not in _REFQ:
        _REFQ[key] = _ref_Q(j, m)
    return _REFQ[key]


_HE = {}


def ref_He(n):
    """exact integer coefficients (highest first) of the probabilists' Hermite polynomial He_n (three-term recurrence)"""
    if n not in _HE:
        a, b = [1], [1, 0]
        if n == 0:
            _HE[n] = a
        else:
            for r in range(1, n):
                nxt = b + [0]
                pad = [0] * (len(nxt) - len(a)) + a
                a, b = b, [u - r * v for u, v in zip(nxt, pad)]
            _HE[n] = b
    return _HE[n]


def _ref_Q(j, m):
    """coefficients (highest first) of Q_j: He_{j-1}; for finite m the coefficient of x^(j-1-2L) is multiplied by
    Gamma((m+1)/2) / Gamma((m+2-j+2L)/2) / (m/2)^((j-1-2L)/2)  (Worsley 1994)."""
    from scipy.special import gammaln, gammasgn
    c = ref_He(j - 1)
    c = [float(v) for v in c]
    if np.isfinite(m):
        for L in range((j - 1) // 2 + 1):
            arg = (m + 2 - j + 2 * L) / 2.
            lg = gammaln(arg)
            f = 0.0 if not np.isfinite(lg) else float(gammasgn(arg) * np.exp(gammaln((m + 1) / 2.) - lg - 0.5 * (j - 1 - 2 * L) * np.log(m / 2.)))
            c[2 * L] *= f
    return c


def ref_cone(x, mu, dfd, region):
    """Independent functional model of ECcone.__call__: expected EC of the cone with curvatures `mu` over the (already
    multiplied) region `region` at thresholds x.  Returns (value, scale) where scale = sum of |terms| (conditioning)."""
    from scipy import stats
    x = np.asarray(x, float)
    val = np.zeros_like(x)
    scale = np.zeros_like(x)
    if np.isfinite(dfd):
        lbase = -(dfd - 1) / 2. * np.log1p(x ** 2 / dfd)
    else:
        lbase = -x ** 2 / 2.
    for d, rd in enumerate(region):
        if rd == 0:
            continue
        for j, mj in enumerate(mu):
            if mj == 0 or j + d == 0:
                continue
            q = ref_Q(j + d, dfd)
            pv = np.zeros_like(x)
            pa = np.zeros_like(x)
            for cf in q:
                pv = pv * x + cf
                pa = pa * np.abs(x) + abs(cf)
            lw = lbase - (j / 2. * np.log1p(x ** 2 / dfd) if np.isfinite(dfd) else 0.0)
            w = rd * mj * (2 * np.pi) ** (-(j + d + 1) / 2.) * np.exp(lw)
            val += w * pv
            scale += np.abs(w) * pa
    if region[0] * mu[0] != 0:
        P = stats.t.sf(x, dfd) if np.isfinite(dfd) else stats.norm.sf(x)
        val += P * region[0] * mu[0]
        scale += np.abs(P * region[0] * mu[0])
    return val, scale


def rft_reference(ck, rft):
    """Every statistic class against the independent functional model, all orders 0..4 and explicit search regions, thresholds
    from moderate to far in the tail (pure relative comparison, scaled by the conditioning of the sum)."""
    inf = np.inf
    xg = np.array([0.3, 1.0, 2.2, 3.7, 5.0, 6.5, 8.5, 11.0])            # thresholds on the Gaussian / t scale
    specs = []       # (class name, params, constructor, [(sign/weight, mu, argument transform)], product)
    specs.append(("Gaussian", {}, lambda **kw: rft.Gaussian(**kw), [(1.0, [1.0], lambda x: x)], [1.0], xg))
    dfd_list = [2.5, 5, 7.5, 12, 23.7, 40, 343, 1000, inf] if not ck.thorough() else [2.5, 3, 5, 7, 7.5, 12, 23.7, 40, 100, 100.3, 343, 1000, 1e5, inf]
    dfn_list = [2, 3, 5, 22, 23, 40] if not ck.thorough() else [1, 2, 3, 4, 5, 7, 12, 22, 23, 30, 40, 64]
    for v in dfd_list:
        specs.append(("TStat", {"dfd": v}, (lambda v: lambda **kw: rft.TStat(dfd=v, **kw))(v), [(1.0, [1.0], lambda x: x)], [1.0], xg))
        for k in dfn_list:
            if k >= 22 and not ck.thorough() and v not in (7.5, 40, inf):      # quick tier: large dimensions on three dfd only
                continue
            sq = xg ** 2
            specs.append(("FStat", {"dfn": k, "dfd": v}, (lambda k, v: lambda **kw: rft.FStat(dfn=k, dfd=v, **kw))(k, v),
                          [(1.0, ref_sphere(k), (lambda k: lambda x: np.sqrt(x * k))(k))], [1.0], sq / k))
            specs.append(("Hotelling", {"k": k, "dfd": v}, (lambda k, v: lambda **kw: rft.Hotelling(k=k, dfd=v, **kw))(k, v),
                          [(1.0, [1.0], np.sqrt)], ref_sphere(k), sq))
            specs.append(("Roy", {"dfn": k, "dfd": v, "k": 3}, (lambda k, v: lambda **kw: rft.Roy(dfn=k, dfd=v, k=3, **kw))(k, v),
                          [(1.0, ref_sphere(k), (lambda k: lambda x: np.sqrt(x * k))(k))], ref_sphere(3), sq / k))
            specs.append(("Roy", {"dfn": 3, "dfd": v, "k": k}, (lambda k, v: lambda **kw: rft.Roy(dfn=3, dfd=v, k=k, **kw))(k, v),
                          [(1.0, ref_sphere(3), lambda x: np.sqrt(x * 3))], ref_sphere(k), sq / 3))
            if k >= 2:
                # Worsley & Taylor (2005): half the difference of the F fields with dfn and dfn - 1 numerator df
                specs.append(("OneSidedF", {"dfn": k, "dfd": v}, (lambda k, v: lambda **kw: rft.OneSidedF(k, dfd=v, **kw))(k, v),
                              [(0.5, ref_sphere(k), (lambda k: lambda x: np.sqrt(x * k))(k)),
                               (-0.5, ref_sphere(k - 1), (lambda k: lambda x: np.sqrt(x * (k - 1)))(k))], [1.0], sq / k))
    for k in (1, 2, 3, 5, 22, 23, 40):
        specs.append(("ChiSquared", {"dfn": k}, (lambda k: lambda **kw: rft.ChiSquared(dfn=k, **kw))(k), [(1.0, ref_sphere(k), np.sqrt)], [1.0], xg ** 2))
    for dims in ([2], [4], [2, 3], [2, 2, 4], [22], [23, 3], [2, 2, 2, 3], [3, 3, 3, 3, 3]):
        prod = [1.0]
        for dd in dims:
            prod = ref_conv(prod, ref_sphere(dd))
        prod = [p / 2. ** (len(dims) - 1) for p in prod]
        specs.append(("MultilinearForm", {"dims": dims}, (lambda dims: lambda **kw: rft.MultilinearForm(*dims, **kw))(dims), [(1.0, [1.0], lambda x: x)], prod, xg))
    n = 0
    for cname, params, mk, parts, product, xx in specs:
        dfd = params.get("dfd", inf)
        regions = [("density-%d" % d, [0.0] * d + [1.0]) for d in range(5)] + [("search", [1.0, 4.0, 6.0, 4.0])]
        big = max(len(mu) for _, mu, _ in parts) + len(product) > 20
        if big and not ck.thorough():
            regions = [regions[0], regions[1], regions[3], regions[5]]
        o = mk()                                                    # ONE object for all orders (as a user would)
        for rname, srch in regions:
            region = ref_conv(srch, product)
            want = np.zeros_like(xx)
            scale = np.zeros_like(xx)
            for wgt, mu, tr in parts:
                vv, ss = ref_cone(tr(xx), mu, dfd, region)
                want += wgt * vv
                scale += abs(wgt) * ss
            ck.count(("ref", cname, repr(params), rname), bucket="rft:reference")
            n += 1
            rep = {"class": cname, "params": params, "search": srch, "x": xx.tolist()}
            try:
                got = np.asarray(o(xx, search=srch), float)
                got_fresh = np.asarray(mk()(xx, search=srch), float) if not big else got
            except Exception as e:  # noqa
                ck.fail("rft-reference/raises/%s" % cname, "%s(%s)(x, search=%s) raised %s: %s" % (cname, params, srch, type(e).__name__, e), rep)
                continue
            tol = 1e-9 + 4e-15 * (dfd if np.isfinite(dfd) else 0.)
            for tag, g in (("", got), ("fresh-object ", got_fresh)):
                bad = ~(np.abs(g - want) <= tol * scale + 1e-300)
                if bad.any():
                    i = int(np.argmax(bad))
                    maxdeg = max(len(mu) for _, mu, _ in parts) + len(region) - 3          # highest Hermite degree He_{j+d-1} entering the sum
                    if maxdeg >= HERMITE_EXACT:
                        feat = "hermitenorm-inexact"
                    else:
                        feat = "far-tail" if abs(float(want[i])) < 1e-8 * (1 + abs(float(want[0]))) else "value"
                    ck.fail("rft-reference/%s%s" % (feat, "" if feat == "hermitenorm-inexact" else "/" + cname), "%s(%s) %s(x=%s, search=%s) = %.17g; independent model of the EC formula gives %.17g "
                            "(sum of |terms| %.3g)" % (cname, params, tag, xx[i], srch, g[i], want[i], scale[i]),
                            dict(rep, x_bad=float(xx[i]), got=float(g[i]), expected=float(want[i])))
                    break
    ck.trust.append("rft reference model (harness/props/c15.py ref_cone/ref_Q/ref_sphere): an independent functional evaluation of the EC formula "
                    "sum_d region[d] (2 pi)^-(d+1)/2 sum_j mu[j] (2 pi)^-j/2 Q_{j+d}(x) base(x) + tail; scipy gammaln/gammasgn, stats.norm/t.sf are oracles")
    ck.section("rft-reference", comparisons=n, thresholds=xg.tolist())


def run(ck):
    ck.cov["rule"] = ("EC: every 0/1 mask of the listed small grids (exhaustive) + random masks (1-3 d, sides 1..6, density 0.3-0.9) "
                      "+ boxes touching the array border; distinct by (shape, mask bytes); non-trivial when the mask is not empty.  "
                      "Each mask is evaluated by the compiled intvol module and by the de-cythonised current .pyx source.")
    ck.coq_build()
    ck.overlay()
    from nipy.algorithms.statistics import intvol
    impls = {"compiled": {n: getattr(intvol, n) for n in ("EC1d", "EC2d", "EC3d")}}
    try:
        src = load_source_impl(["EC1d", "EC2d", "EC3d"])
        impls["source"] = {n: src[n] for n in ("EC1d", "EC2d", "EC3d")}
    except DecythonError as e:
        ck.fail("decythonise", "cannot execute the current intvol.pyx EC functions as Python (fail-closed): %s" % e,
                {"kind": "correspondence-broken", "error": str(e)}, found_input=False)
    ec(ck, impls)
    lips(ck, intvol)
    from nipy.algorithms.statistics import rft
    rft_algebra(ck, rft)
    rft_hermite(ck, rft)     # before the density oracles: the most specific sub-check reports first (the kit keeps 25 signatures)
    rft_densities(ck, rft)
    rft_repeat(ck, rft)
    rft_reference(ck, rft)
    rft_helpers(ck, rft)
