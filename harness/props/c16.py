"""C16 - compiled numeric kernels equal their NumPy/SciPy definitions.

Sections:
  quantile   quantile.c (`quantile`, `_pth_element`, `_pth_interval`): hand-written Gallina model
             (coq/C16/Model.v) with theorems for all arrays / ranks / rational ratios;
             correspondence (a) with the C function `quantile` called directly (ctypes on the
             rebuilt _quantile module) on strided buffers: returned value AND final buffer state,
             exact; (b) with `nipy.algorithms.statistics.quantile/median` on n-d integer arrays
             (C/Fortran order, negative / non-unit strides, every axis); property oracles:
             order statistic by counting, permutation of the buffer, guard cells untouched,
             NumPy definitions.  Implementation batches run in a forked child under a kernel
             alarm: a hang (planted `j < i`) is reported with the in-flight input.
  blas       fff_blas.c row-major -> column-major flag swapping (translated table + RingMat theorems)
  spline     cubic_spline.c basis / boundary maps / transform
  oracles    tests only: histogram, routines, fff element-wise wrappers, permutations, lapack
"""
import ctypes
import itertools
import math
import multiprocessing
import signal
import sysconfig
from fractions import Fraction

import numpy as np

from ..kit import cz, czl, cq, cnat, cbool, frac

QHDR = ("From Coq Require Import ZArith List QArith.\n"
        "From NV.C16 Require Import Model.\n")

HANG_ALARM = 20      # seconds of CPU/wall before a child running implementation cases is killed


# ====================================================================== child-process runner
def _child(conn, progress, fn, cases, alarm):
    signal.signal(signal.SIGALRM, signal.SIG_DFL)     # default action: kill this process
    out = []
    for i, c in enumerate(cases):
        progress.value = i
        signal.alarm(alarm)
        try:
            out.append(("ok", fn(c)))
        except Exception as e:  # noqa
            out.append(("exc", "%s: %s" % (type(e).__name__, e)))
    signal.alarm(0)
    progress.value = len(cases)
    conn.send(out)
    conn.close()


def run_guarded(fn, cases, alarm=HANG_ALARM, max_restarts=2):
    """Run fn(case) for every case inside forked children.  Returns a list of
    ("ok", value) | ("exc", text) | ("hang", None) | ("crash", None) | ("skipped", None)."""
    ctx = multiprocessing.get_context("fork")
    results = [None] * len(cases)
    start = 0
    restarts = 0
    while start < len(cases):
        parent, child = ctx.Pipe(duplex=False)
        progress = ctx.Value("l", 0)
        sub = cases[start:]
        p = ctx.Process(target=_child, args=(child, progress, fn, sub, alarm))
        p.start()
        child.close()
        got = None
        try:
            # total budget: the per-case alarm is what kills a hanging child
            while True:
                if parent.poll(1.0):
                    got = parent.recv()
                    break
                if not p.is_alive():
                    if parent.poll(0.1):
                        got = parent.recv()
                    break
        except (EOFError, OSError):
            got = None
        p.join(5)
        if p.is_alive():
            p.kill()
            p.join()
        if got is not None:
            for k, r in enumerate(got):
                results[start + k] = r
            break
        k = progress.value
        kind = "hang" if p.exitcode == -signal.SIGALRM else "crash"
        results[start + k] = (kind, p.exitcode)
        # results before k are lost with the child: rerun them cheaply (they terminated before)
        if k > 0:
            redo = run_guarded(fn, sub[:k], alarm, 0)
            for q, r in enumerate(redo):
                results[start + q] = r
        start = start + k + 1
        restarts += 1
        alarm = 3
        if restarts > max_restarts:
            for q in range(start, len(cases)):
                results[q] = ("skipped", None)
            break
    return results


# ====================================================================== quantile
def _q_lib(ck):
    path = ck.ov["dir"] / ("_quantile" + sysconfig.get_config_var("EXT_SUFFIX"))
    lib = ctypes.CDLL(str(path))
    lib.quantile.restype = ctypes.c_double
    lib.quantile.argtypes = [ctypes.c_void_p, ctypes.c_ssize_t, ctypes.c_ssize_t, ctypes.c_double, ctypes.c_int]
    return lib


GUARD = 987654321.0


def _q_direct_call(lib, case):
    """Call the C `quantile` on a strided buffer with guard cells.  Returns (value, logical buffer after, guards_ok)."""
    vals, stride, r, interp = case
    n = len(vals)
    pad = 3
    span = (n - 1) * abs(stride) + 1 if n else 1
    mem = np.full(span + 2 * pad, GUARD, dtype=np.float64)
    first = pad if stride > 0 else pad + span - 1
    idx = [first + stride * k for k in range(n)]
    for k, v in zip(idx, vals):
        mem[k] = float(v)
    before = mem.copy()
    ptr = mem.ctypes.data + 8 * first
    v = lib.quantile(ctypes.c_void_p(ptr), n, stride, float(r), int(interp))
    buf = [mem[k] for k in idx]
    mask = np.ones(len(mem), bool)
    mask[idx] = False
    guards_ok = bool(np.array_equal(mem[mask], before[mask]))
    return (v, buf, guards_ok)


def _is_dyadic(fr, maxbits=20):
    d = Fraction(fr).denominator
    return d & (d - 1) == 0 and d <= (1 << maxbits)


def _q_expected_rank(r, n, interp):
    """Documented rank rule evaluated in double arithmetic, as quantile() does."""
    if not interp:
        pp = float(r) * n
        p = math.ceil(pp)
        return p, None
    pp = float(r) * (n - 1)
    p = math.floor(pp)
    return p, Fraction(pp) - p


def _q_model_term(vals, r, interp, impl_val, impl_buf=None, exact=True, tol=None):
    """Coq boolean: the model agrees with the recorded implementation output."""
    n = len(vals)
    fr = Fraction(float(r))
    F = cnat(max(n, 1))
    xs = czl(vals)
    if _is_dyadic(fr, 12):
        call = "quantile %s %s %s %s" % (F, xs, cq(fr), cbool(interp))
    else:
        # the C computes pp = r*size (or r*(size-1)) in double: thread that value
        pp = Fraction(float(r) * (n if not interp else (n - 1)))
        call = "quantile_pp %s %s %s %s" % (F, xs, cq(pp), cbool(interp))
    if math.isinf(impl_val):
        v = "QInf" if impl_val > 0 else "(QVal (-1#1))"   # -inf never matches a model value
        vq = None
    else:
        vq = frac(impl_val)
        v = "(QVal %s)" % cq(vq)
    if exact or vq is None:
        if impl_buf is not None:
            return "res_full_eqb (%s) %s %s" % (call, czl([int(b) for b in impl_buf]), v)
        return "res_val_eqb (%s) %s" % (call, v)
    t = "res_val_close (%s) %s %s" % (call, cq(vq), cq(tol))
    if impl_buf is not None:
        t = "(%s) && (match (%s) with Ok (b, _) => zl_eqb b %s | _ => false end)" % (t, call, czl([int(b) for b in impl_buf]))
    return t


def _q_exact_case(vals, r, interp):
    """True when every double operation of quantile() on this input is exact."""
    fr = Fraction(float(r))
    if not _is_dyadic(fr, 12):
        return not interp      # interp=0 only involves pp, which is threaded exactly
    return True


def _q_arrays(ck):
    """(vals, bucket) small arrays: exhaustive over a tiny alphabet + random with ties + constant + sorted."""
    out = []
    nmax_ex = ck.n(4, 5)
    for n in range(1, nmax_ex + 1):
        for t in itertools.product(range(3), repeat=n):
            out.append((list(t), "exhaustive{0,1,2}^n"))
    if ck.thorough():
        for n in range(1, 5):
            for t in itertools.product(range(4), repeat=n):
                if 3 in t:
                    out.append((list(t), "exhaustive{0..3}^n"))
    rng = ck.rng("quantile-direct")
    nr = ck.n(90, 900)
    for k in range(nr):
        n = int(rng.integers(5, ck.n(8, 14)))
        kind = k % 5
        if kind == 0:
            v = rng.integers(-3, 4, n)
            b = "random-ties"
        elif kind == 1:
            v = rng.permutation(n) * 3 - 5
            b = "distinct"
        elif kind == 2:
            v = np.full(n, int(rng.integers(-9, 10)))
            b = "constant"
        elif kind == 3:
            v = np.sort(rng.integers(-4, 5, n))
            if k % 2:
                v = v[::-1]
            b = "sorted/reversed"
        else:
            v = rng.integers(0, 2, n) * int(rng.integers(1, 50))
            b = "two-valued"
        out.append(([int(a) for a in v], b))
    return out


def _q_ratios(n, full):
    rs = {0.0, 1.0, 0.5}
    step = 1 if full else 2
    for j in range(0, 4 * n + 1, step):
        rs.add(j / (4.0 * n))
    for j in range(0, 9):
        rs.add(j / 8.0)
    return sorted(rs)


def _q_check_value(ck, where, vals, r, interp, v, replay):
    """Property statement on the implementation output (independent of Coq)."""
    n = len(vals)
    s = sorted(vals)
    if math.isnan(v):
        ck.fail("quantile/%s/nan" % where, "returned nan for data %s r=%r interp=%s" % (vals, r, interp), replay)
        return
    if n == 1:
        if v != vals[0]:
            ck.fail("quantile/%s/size-1" % where, "size-1 sample must return its element: got %r" % (v,), replay)
        return
    p, w = _q_expected_rank(r, n, interp)
    if not interp:
        if p == n:
            if not (math.isinf(v) and v > 0):
                ck.fail("quantile/%s/noninterp/p=n-not-inf" % where, "ceil(r*n) == n must give +inf, got %r" % (v,), replay)
            return
        lt = sum(1 for a in vals if a < v)
        le = sum(1 for a in vals if a <= v)
        if not (lt <= p < le) or v not in vals:
            ck.fail("quantile/%s/noninterp/not-pth-order-statistic" % where,
                    "r=%r n=%d: returned %r is not the order statistic of rank ceil(r n)=%d (sorted %s)" % (r, n, v, p, s), replay)
        return
    if w == 0:
        exp = Fraction(s[p])
    else:
        exp = (1 - w) * s[p] + w * s[p + 1]
    if abs(frac(v) - exp) > Fraction(1, 10 ** 11) * (1 + max(abs(a) for a in vals)):
        feat = "last-interval(p=n-2)" if (w != 0 and p == n - 2) else ("p<n-2" if w != 0 else "integral-rank")
        sig = "quantile/interp/last-interval(p=n-2)" if feat.startswith("last") else "quantile/%s/interp/%s" % (where, feat)
        ck.fail(sig,
                "r=%r n=%d interp: returned %r, linear interpolation between ranks %d and %d of %s is %s" % (
                    r, n, v, p, p + 1, s, float(exp)), replay)


def quantile_direct(ck):
    lib = _q_lib(ck)
    arrays = _q_arrays(ck)
    strides = [1, -1, 2, -3]
    cases = []
    meta = []
    k = 0
    for vals, bucket in arrays:
        n = len(vals)
        full = n <= 5 or ck.thorough()
        for r in _q_ratios(n, full):
            for interp in (0, 1):
                st = strides[k % len(strides)]
                k += 1
                cases.append((vals, st, r, interp))
                meta.append(bucket)
    res = run_guarded(lambda c: _q_direct_call(lib, c), cases)
    terms = []
    tmeta = []
    for (vals, st, r, interp), bucket, rr in zip(cases, meta, res):
        n = len(vals)
        replay = {"call": "quantile(double* data, size, stride, r, interp) via ctypes on the rebuilt _quantile module",
                  "data": vals, "stride": st, "r": r, "interp": interp}
        ck.count(("qd", tuple(vals), st, r, interp), nontrivial=n > 1, bucket="quantile-direct:" + bucket)
        if rr[0] in ("hang", "crash"):
            ck.fail("quantile/direct/%s" % rr[0],
                    "the C function did not return within %d s (child exit %r) on data=%s r=%r interp=%d" % (HANG_ALARM, rr[1], vals, r, interp),
                    replay)
            continue
        if rr[0] != "ok":
            continue
        v, buf, guards_ok = rr[1]
        if not guards_ok:
            ck.fail("quantile/direct/out-of-bounds-write", "cells outside the strided sample were modified", replay)
        perm_ok = sorted(buf) == sorted(float(a) for a in vals)
        if not perm_ok:
            ck.fail("quantile/direct/buffer-not-a-permutation", "buffer after the call %s is not a permutation of %s" % (
                [float(b) for b in buf], vals), replay)
        _q_check_value(ck, "direct", vals, r, interp, v, replay)
        exact = _q_exact_case(vals, r, interp)
        if math.isnan(v) or not perm_ok:
            continue
        tol = Fraction(1, 10 ** 12) * (1 + max(abs(a) for a in vals))
        terms.append(_q_model_term(vals, r, interp, v, buf, exact, tol))
        tmeta.append((vals, st, r, interp, v, buf, exact))
    ck.sample({"direct-call": {"data": cases[len(cases) // 2][0], "stride": cases[len(cases) // 2][1],
                               "r": cases[len(cases) // 2][2], "interp": cases[len(cases) // 2][3],
                               "impl (value, buffer after, guards ok)": str(res[len(cases) // 2][1])}})
    nbad = 0
    if ck.build is not None and ck.build.ok and terms:
        ok = ck.coq_bools(QHDR, terms, shard=400, name="qdirect")
        ck.cov["traces_validated_against_impl"] += len(ok)
        for good, (vals, st, r, interp, v, buf, exact) in zip(ok, tmeta):
            if not good:
                nbad += 1
                if nbad > 1:
                    ck.fail("quantile/direct/model-vs-impl", "", {})
                    continue
                mv = ck.coq_show(QHDR, "quantile %s %s %s %s" % (cnat(len(vals)), czl(vals), cq(Fraction(float(r))), cbool(interp)))
                ck.fail("quantile/direct/model-vs-impl",
                        "model and C disagree (%s): data=%s stride=%d r=%r interp=%d: impl value %r buffer %s; model %s" % (
                            "exact" if exact else "1e-12", vals, st, r, interp, v, buf, mv),
                        {"data": vals, "stride": st, "r": r, "interp": interp, "impl_value": v, "impl_buffer": buf, "model": mv})
    ck.section("quantile-direct", arrays=len(arrays), calls=len(cases), model_terms=len(terms),
               strides=strides, exact_terms=sum(1 for t in tmeta if t[6]), tolerance_terms=sum(1 for t in tmeta if not t[6]))


def _q_nd_views(ck):
    """n-d integer arrays (1..4 dims, extents 1..7) as float64 views with C/F order,
    negative and non-unit strides; returns (view, description)."""
    rng = ck.rng("quantile-nd")
    out = []
    N = ck.n(40, 300)
    for k in range(N):
        nd = 1 + k % 4
        while True:
            shape = tuple(int(e) for e in rng.integers(1, 8, nd))
            if int(np.prod(shape)) <= 220:
                break
        steps = [int(rng.choice([1, 1, -1, 2, -2])) for _ in shape]
        big = tuple(e * abs(s) for e, s in zip(shape, steps))
        order = "F" if (k // 4) % 2 else "C"
        kind = k % 3
        if kind == 0:
            base = rng.integers(-3, 4, big)
        elif kind == 1:
            base = rng.integers(0, 2, big) * 7
        else:
            base = rng.permutation(int(np.prod(big))).reshape(big) - 10
        base = np.array(base, dtype=np.float64, order=order)
        sl = tuple(slice(None, None, s) if s > 0 else slice(None, None, s) for s in steps)
        view = base[sl]
        # take exactly `shape` entries per axis
        view = view[tuple(slice(0, e) for e in shape)]
        assert view.shape == shape
        out.append((view, {"shape": shape, "steps": steps, "order": order, "kind": ["ties", "two-valued", "distinct"][kind]}))
    return out


def _q_nd_call(case):
    from nipy.algorithms.statistics import quantile, median
    view, axis, r, interp, which, as_int = case
    X = view.astype(np.int64) if as_int else np.array(view, copy=True, order="K")
    if not as_int:
        # rebuild the same strided view on a private copy of the base memory (asarray keeps the view:
        # the C code then walks the real strides)
        base = view.base if view.base is not None else view
        bcopy = np.array(base, copy=True, order="K")
        off = (view.__array_interface__["data"][0] - base.__array_interface__["data"][0])
        X = np.ndarray(view.shape, np.float64, bcopy, offset=off, strides=view.strides)
    if which == "median":
        Y = median(X, axis=axis)
    else:
        Y = quantile(X, r, interp=bool(interp), axis=axis)
    return np.array(Y)


def quantile_nd(ck):
    views = _q_nd_views(ck)
    cases = []
    for k, (view, desc) in enumerate(views):
        for axis in range(view.ndim):
            n = view.shape[axis]
            rs = [0.0, 1.0, 0.5, 1.0 / (4 * n), (k % (4 * n + 1)) / (4.0 * n), ((3 * k + 1) % (4 * n + 1)) / (4.0 * n), 0.75]
            for j, r in enumerate(sorted(set(rs))):
                interp = (j + k + axis) % 2
                cases.append((view, axis, r, interp, "quantile", (k + j) % 3 == 0))
            cases.append((view, axis, 0.5, 1, "median", k % 2 == 0))
    res = run_guarded(_q_nd_call, cases)
    terms = []
    tmeta = []
    for case, rr in zip(cases, res):
        view, axis, r, interp, which, as_int = case
        n = view.shape[axis]
        replay = {"call": "nipy.algorithms.statistics.%s" % which, "array": view.astype(int).tolist(),
                  "strides_bytes": view.strides, "dtype": "int64" if as_int else "float64 strided view",
                  "axis": axis, "ratio": r, "interp": interp}
        ck.count(("qnd", view.shape, view.strides, view.astype(int).tobytes(), axis, r, interp, which, as_int),
                 nontrivial=n > 1, bucket="quantile-nd:%dd" % view.ndim)
        if rr[0] in ("hang", "crash"):
            ck.fail("quantile/nd/%s" % rr[0], "%s: child process %s (alarm %d s, exit %r)" % (which, rr[0], HANG_ALARM, rr[1]), replay)
            continue
        if rr[0] == "exc":
            ck.fail("quantile/nd/raises", "%s raised %s" % (which, rr[1]), replay)
            continue
        if rr[0] != "ok":
            continue
        Y = rr[1]
        eshape = list(view.shape)
        eshape[axis] = 1
        if list(Y.shape) != eshape:
            ck.fail("quantile/nd/shape", "result shape %s, expected %s" % (Y.shape, eshape), replay)
            continue
        fibs = []
        moved = np.moveaxis(view, axis, -1).reshape(-1, n)
        ymoved = np.moveaxis(Y, axis, -1).reshape(-1)
        parts = []
        for fib, y in zip(moved, ymoved):
            vals = [int(a) for a in fib]
            _q_check_value(ck, "nd", vals, r, interp, float(y), dict(replay, fibre=vals))
            if math.isnan(float(y)):
                continue
            exact = _q_exact_case(vals, r, interp)
            tol = Fraction(1, 10 ** 12) * (1 + max(abs(a) for a in vals))
            parts.append(_q_model_term(vals, r, interp, float(y), None, exact, tol))
            fibs.append(vals)
        # NumPy definitions on the whole array
        if which == "median":
            npm = np.median(view, axis=axis, keepdims=True)
            bad = np.argwhere(npm != Y)
            for b in bad[:1]:
                fib = [int(a) for a in np.moveaxis(view, axis, -1)[tuple(np.delete(b, axis))]]
                ck.fail("quantile/interp/last-interval(p=n-2)" if n == 2 else "quantile/nd/median-vs-numpy",
                        "median along axis %d of a fibre %s: nipy %r, numpy %r" % (axis, fib, float(Y[tuple(b)]), float(npm[tuple(b)])),
                        dict(replay, fibre=fib))
        if parts:
            terms.append(" && ".join("(%s)" % p for p in parts))
            tmeta.append((replay, fibs, Y.tolist()))
    if cases:
        c0 = cases[min(len(cases) - 1, 11)]
        ck.sample({"nd-call": {"shape": c0[0].shape, "strides": c0[0].strides, "axis": c0[1], "ratio": c0[2], "interp": c0[3], "fn": c0[4]}})
    if ck.build is not None and ck.build.ok and terms:
        ok = ck.coq_bools(QHDR, terms, shard=120, name="qnd")
        ck.cov["traces_validated_against_impl"] += len(ok)
        for good, (replay, fibs, Y) in zip(ok, tmeta):
            if not good:
                ck.fail("quantile/nd/model-vs-impl", "model and %s disagree on some fibre of the array (axis %s ratio %r interp %s): impl %s" % (
                    replay["call"], replay["axis"], replay["ratio"], replay["interp"], Y), dict(replay, fibres=fibs, impl=Y))
    ck.section("quantile-nd", arrays=len(views), calls=len(cases), model_terms=len(terms))


def _q_empty_call(case):
    from nipy.algorithms.statistics import quantile
    shape, axis = case
    return np.array(quantile(np.zeros(shape), 0.5, interp=True, axis=axis))


def quantile_empty(ck):
    """Empty sample: the C function must not be reached with size 0 (the model says Fault: read of x[0]
    and x[-stride] of an empty buffer); the wrapper skips the call and returns its zero-initialised output."""
    cases = [((0,), 0), ((0, 3), 0), ((2, 0), 1)]
    res = run_guarded(_q_empty_call, cases, alarm=10, max_restarts=3)
    for (shape, axis), rr in zip(cases, res):
        ck.count(("qempty", shape, axis), nontrivial=True, bucket="quantile-empty-axis")
        replay = {"call": "nipy.algorithms.statistics.quantile(np.zeros(%s), 0.5, interp=True, axis=%d)" % (shape, axis)}
        if rr[0] == "exc":
            continue            # raising is an acceptable answer for an empty sample
        if rr[0] in ("hang", "crash"):
            ck.fail("quantile/empty-axis/crash", "empty sample: child %s" % rr[0], replay)
            continue
        if rr[0] == "ok":
            Y = rr[1]
            if Y.size and not np.all(np.isnan(Y)):
                ck.fail("quantile/empty-axis/returns-zero",
                        "quantile of an empty sample (size 0 along the axis) with interp=True returns %s (the zero-initialised output is "
                        "never filled); numpy.median / numpy.quantile give nan" % Y.tolist(), replay)
    if ck.build is not None and ck.build.ok:
        ok = ck.coq_bools(QHDR, ["match quantile 3 [] (1#2) true with Fault => true | _ => false end"], name="qempty")
        if not ok[0]:
            ck.fail("quantile/empty-axis/model", "model no longer faults on the empty sample", {})


def _timed(ck, name, fn):
    import time
    t = time.time()
    fn(ck)
    ck.section("timing", **{name + "_s": round(time.time() - t, 1)})


def quantile_section(ck):
    _timed(ck, "quantile_direct", quantile_direct)
    _timed(ck, "quantile_nd", quantile_nd)
    _timed(ck, "quantile_empty", quantile_empty)


# ====================================================================== run
def run(ck):
    ck.cov["rule"] = (
        "quantile: every array over {0,1,2}^n (n<=4 quick / <=5 thorough) plus seeded random arrays with ties / constant / "
        "sorted / two-valued (n 5..7 quick, ..13 thorough) x ratios {j/(4n), j/8, 0, 1} x interp x strides {1,-1,2,-3} through the C "
        "function itself; n-d integer arrays (1..4 dims, extents 1..7, C/F order, negative and non-unit steps, int64 and strided "
        "float64) x every axis x 7 ratios + median through the Python wrappers; a case is distinct by (data, stride/layout, axis, "
        "ratio, interp) and non-trivial when the sample has more than one element.  blas / spline / oracles: see sections.")
    _timed(ck, "coq_build", lambda c: c.coq_build())
    _timed(ck, "overlay", lambda c: c.overlay(cstat=True))
    ck.trust.append("ctypes call of the exported C symbol `quantile` in the rebuilt _quantile extension (argument marshalling in harness/props/c16.py)")
    ck.assume.append("sample values are integers of small magnitude (exactly representable doubles); NaN / inf inputs are outside the model")
    quantile_section(ck)
    for name in ("blas", "spline", "oracles"):
        fn = globals().get(name)
        if fn is not None:
            _timed(ck, name, fn)
