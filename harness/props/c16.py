"""C16 - compiled numeric kernels equal their NumPy/SciPy definitions.

Sections:
  quantile   quantile.c (`quantile`, `_pth_element`, `_pth_interval`): hand-written Gallina model
             (coq/C16/Model.v) with theorems for all arrays / ranks / rational ratios;
             correspondence (a) with the C function `quantile` called directly (ctypes on the
             rebuilt _quantile module) on strided buffers: returned value AND final buffer state,
             exact; (b) with `nipy.algorithms.statistics.quantile/median` on n-d integer arrays
             (C/Fortran order, negative / non-unit strides, every axis); property oracles:
             order statistic by counting, permutation of the buffer, guard cells untouched,
             NumPy definitions.  Implementation batches run in a forked child under a kernel
             alarm: a hang (planted `j < i`) is reported with the in-flight input.
  blas       fff_blas.c row-major -> column-major flag swapping (translated table + RingMat theorems)
  spline     cubic_spline.c basis / boundary maps / transform
  oracles    tests only: histogram, routines, fff element-wise wrappers, permutations, lapack
"""
import os
os.environ.setdefault("OMP_NUM_THREADS", "1")          # before numpy: BLAS thread thrash under load
os.environ.setdefault("OPENBLAS_NUM_THREADS", "1")
import ctypes
import itertools
import math
import multiprocessing
import signal
import sysconfig
from fractions import Fraction

import numpy as np

from ..kit import cz, czl, cq, cnat, cbool, frac

QHDR = ("From Coq Require Import ZArith List QArith.\n"
        "From NV.C16 Require Import Model.\n")

HANG_ALARM = 20      # seconds of CPU/wall before a child running implementation cases is killed


# ====================================================================== child-process runner
def _child(conn, progress, fn, cases, alarm):
    signal.signal(signal.SIGALRM, signal.SIG_DFL)     # default action: kill this process
    out = []
    for i, c in enumerate(cases):
        progress.value = i
        signal.alarm(alarm)
        try:
            out.append(("ok", fn(c)))
        except Exception as e:  # noqa
            out.append(("exc", "%s: %s" % (type(e).__name__, e)))
    signal.alarm(0)
    progress.value = len(cases)
    conn.send(out)
    conn.close()


def run_guarded(fn, cases, alarm=HANG_ALARM, max_restarts=2):
    """Run fn(case) for every case inside forked children.  Returns a list of
    ("ok", value) | ("exc", text) | ("hang", None) | ("crash", None) | ("skipped", None)."""
    ctx = multiprocessing.get_context("fork")
    results = [None] * len(cases)
    start = 0
    restarts = 0
    while start < len(cases):
        parent, child = ctx.Pipe(duplex=False)
        progress = ctx.Value("l", 0)
        sub = cases[start:]
        p = ctx.Process(target=_child, args=(child, progress, fn, sub, alarm))
        p.start()
        child.close()
        got = None
        try:
            # total budget: the per-case alarm is what kills a hanging child
            while True:
                if parent.poll(1.0):
                    got = parent.recv()
                    break
                if not p.is_alive():
                    if parent.poll(0.1):
                        got = parent.recv()
                    break
        except (EOFError, OSError):
            got = None
        p.join(5)
        if p.is_alive():
            p.kill()
            p.join()
        if got is not None:
            for k, r in enumerate(got):
                results[start + k] = r
            break
        k = progress.value
        kind = "hang" if p.exitcode == -signal.SIGALRM else "crash"
        results[start + k] = (kind, p.exitcode)
        # results before k are lost with the child: rerun them cheaply (they terminated before)
        if k > 0:
            redo = run_guarded(fn, sub[:k], alarm, 0)
            for q, r in enumerate(redo):
                results[start + q] = r
        start = start + k + 1
        restarts += 1
        alarm = 3
        if restarts > max_restarts:
            for q in range(start, len(cases)):
                results[q] = ("skipped", None)
            break
    return results


# ====================================================================== quantile
def _q_lib(ck):
    path = ck.ov["dir"] / ("_quantile" + sysconfig.get_config_var("EXT_SUFFIX"))
    lib = ctypes.CDLL(str(path))
    lib.quantile.restype = ctypes.c_double
    lib.quantile.argtypes = [ctypes.c_void_p, ctypes.c_ssize_t, ctypes.c_ssize_t, ctypes.c_double, ctypes.c_int]
    return lib


GUARD = 987654321.0


def _q_direct_call(lib, case):
    """Call the C `quantile` on a strided buffer with guard cells.  Returns (value, logical buffer after, guards_ok)."""
    vals, stride, r, interp = case
    n = len(vals)
    pad = 3
    span = (n - 1) * abs(stride) + 1 if n else 1
    mem = np.full(span + 2 * pad, GUARD, dtype=np.float64)
    first = pad if stride > 0 else pad + span - 1
    idx = [first + stride * k for k in range(n)]
    for k, v in zip(idx, vals):
        mem[k] = float(v)
    before = mem.copy()
    ptr = mem.ctypes.data + 8 * first
    v = lib.quantile(ctypes.c_void_p(ptr), n, stride, float(r), int(interp))
    buf = [mem[k] for k in idx]
    mask = np.ones(len(mem), bool)
    mask[idx] = False
    guards_ok = bool(np.array_equal(mem[mask], before[mask]))
    return (v, buf, guards_ok)


def _is_dyadic(fr, maxbits=20):
    d = Fraction(fr).denominator
    return d & (d - 1) == 0 and d <= (1 << maxbits)


def _q_expected_rank(r, n, interp):
    """Documented rank rule evaluated in double arithmetic, as quantile() does."""
    if not interp:
        pp = float(r) * n
        p = math.ceil(pp)
        return p, None
    pp = float(r) * (n - 1)
    p = math.floor(pp)
    return p, Fraction(pp) - p


def _q_model_term(vals, r, interp, impl_val, impl_buf=None, exact=True, tol=None):
    """Coq boolean: the model agrees with the recorded implementation output."""
    n = len(vals)
    fr = Fraction(float(r))
    F = cnat(max(n, 1))
    xs = czl(vals)
    if _is_dyadic(fr, 12):
        call = "quantile %s %s %s %s" % (F, xs, cq(fr), cbool(interp))
    else:
        # the C computes pp = r*size (or r*(size-1)) in double: thread that value
        pp = Fraction(float(r) * (n if not interp else (n - 1)))
        call = "quantile_pp %s %s %s %s" % (F, xs, cq(pp), cbool(interp))
    if math.isinf(impl_val):
        v = "QInf" if impl_val > 0 else "(QVal (-1#1))"   # -inf never matches a model value
        vq = None
    else:
        vq = frac(impl_val)
        v = "(QVal %s)" % cq(vq)
    if exact or vq is None:
        if impl_buf is not None:
            return "res_full_eqb (%s) %s %s" % (call, czl([int(b) for b in impl_buf]), v)
        return "res_val_eqb (%s) %s" % (call, v)
    t = "res_val_close (%s) %s %s" % (call, cq(vq), cq(tol))
    if impl_buf is not None:
        t = "(%s) && (match (%s) with Ok (b, _) => zl_eqb b %s | _ => false end)" % (t, call, czl([int(b) for b in impl_buf]))
    return t


def _q_exact_case(vals, r, interp):
    """True when every double operation of quantile() on this input is exact."""
    fr = Fraction(float(r))
    if not _is_dyadic(fr, 12):
        return not interp      # interp=0 only involves pp, which is threaded exactly
    return True


def _q_arrays(ck):
    """(vals, bucket) small arrays: exhaustive over a tiny alphabet + random with ties + constant + sorted."""
    out = []
    nmax_ex = ck.n(4, 5)
    for n in range(1, nmax_ex + 1):
        for t in itertools.product(range(3), repeat=n):
            out.append((list(t), "exhaustive{0,1,2}^n"))
    if ck.thorough():
        for n in range(1, 5):
            for t in itertools.product(range(4), repeat=n):
                if 3 in t:
                    out.append((list(t), "exhaustive{0..3}^n"))
    rng = ck.rng("quantile-direct")
    nr = ck.n(90, 900)
    for k in range(nr):
        n = int(rng.integers(5, ck.n(8, 14)))
        kind = k % 5
        if kind == 0:
            v = rng.integers(-3, 4, n)
            b = "random-ties"
        elif kind == 1:
            v = rng.permutation(n) * 3 - 5
            b = "distinct"
        elif kind == 2:
            v = np.full(n, int(rng.integers(-9, 10)))
            b = "constant"
        elif kind == 3:
            v = np.sort(rng.integers(-4, 5, n))
            if k % 2:
                v = v[::-1]
            b = "sorted/reversed"
        else:
            v = rng.integers(0, 2, n) * int(rng.integers(1, 50))
            b = "two-valued"
        out.append(([int(a) for a in v], b))
    return out


def _q_ratios(n, full):
    rs = {0.0, 1.0, 0.5}
    step = 1 if full else 2
    for j in range(0, 4 * n + 1, step):
        rs.add(j / (4.0 * n))
    for j in range(0, 9):
        rs.add(j / 8.0)
    return sorted(rs)


def _q_check_value(ck, where, vals, r, interp, v, replay):
    """Property statement on the implementation output (independent of Coq)."""
    n = len(vals)
    s = sorted(vals)
    if math.isnan(v):
        ck.fail("quantile/%s/nan" % where, "returned nan for data %s r=%r interp=%s" % (vals, r, interp), replay)
        return
    if n == 1:
        if v != vals[0]:
            ck.fail("quantile/%s/size-1" % where, "size-1 sample must return its element: got %r" % (v,), replay)
        return
    p, w = _q_expected_rank(r, n, interp)
    if not interp:
        if p == n:
            if not (math.isinf(v) and v > 0):
                ck.fail("quantile/%s/noninterp/p=n-not-inf" % where, "ceil(r*n) == n must give +inf, got %r" % (v,), replay)
            return
        lt = sum(1 for a in vals if a < v)
        le = sum(1 for a in vals if a <= v)
        if not (lt <= p < le) or v not in vals:
            ck.fail("quantile/%s/noninterp/not-pth-order-statistic" % where,
                    "r=%r n=%d: returned %r is not the order statistic of rank ceil(r n)=%d (sorted %s)" % (r, n, v, p, s), replay)
        return
    if w == 0:
        exp = Fraction(s[p])
    else:
        exp = (1 - w) * s[p] + w * s[p + 1]
    if abs(frac(v) - exp) > Fraction(1, 10 ** 11) * (1 + max(abs(a) for a in vals)):
        feat = "last-interval(p=n-2)" if (w != 0 and p == n - 2) else ("p<n-2" if w != 0 else "integral-rank")
        sig = "quantile/interp/last-interval(p=n-2)" if feat.startswith("last") else "quantile/%s/interp/%s" % (where, feat)
        ck.fail(sig,
                "r=%r n=%d interp: returned %r, linear interpolation between ranks %d and %d of %s is %s" % (
                    r, n, v, p, p + 1, s, float(exp)), replay)


def quantile_direct(ck):
    lib = _q_lib(ck)
    arrays = _q_arrays(ck)
    strides = [1, -1, 2, -3]
    cases = []
    meta = []
    k = 0
    for vals, bucket in arrays:
        n = len(vals)
        full = n <= 5 or ck.thorough()
        for r in _q_ratios(n, full):
            for interp in (0, 1):
                st = strides[k % len(strides)]
                k += 1
                cases.append((vals, st, r, interp))
                meta.append(bucket)
    res = run_guarded(lambda c: _q_direct_call(lib, c), cases)
    terms = []
    tmeta = []
    for (vals, st, r, interp), bucket, rr in zip(cases, meta, res):
        n = len(vals)
        replay = {"call": "quantile(double* data, size, stride, r, interp) via ctypes on the rebuilt _quantile module",
                  "data": vals, "stride": st, "r": r, "interp": interp}
        ck.count(("qd", tuple(vals), st, r, interp), nontrivial=n > 1, bucket="quantile-direct:" + bucket)
        if rr[0] in ("hang", "crash"):
            ck.fail("quantile/direct/%s" % rr[0],
                    "the C function did not return within %d s (child exit %r) on data=%s r=%r interp=%d" % (HANG_ALARM, rr[1], vals, r, interp),
                    replay)
            continue
        if rr[0] != "ok":
            continue
        v, buf, guards_ok = rr[1]
        if not guards_ok:
            ck.fail("quantile/direct/out-of-bounds-write", "cells outside the strided sample were modified", replay)
        perm_ok = sorted(buf) == sorted(float(a) for a in vals)
        if not perm_ok:
            ck.fail("quantile/direct/buffer-not-a-permutation", "buffer after the call %s is not a permutation of %s" % (
                [float(b) for b in buf], vals), replay)
        _q_check_value(ck, "direct", vals, r, interp, v, replay)
        exact = _q_exact_case(vals, r, interp)
        if math.isnan(v) or not perm_ok:
            continue
        tol = Fraction(1, 10 ** 12) * (1 + max(abs(a) for a in vals))
        terms.append(_q_model_term(vals, r, interp, v, buf, exact, tol))
        tmeta.append((vals, st, r, interp, v, buf, exact))
    ck.sample({"direct-call": {"data": cases[len(cases) // 2][0], "stride": cases[len(cases) // 2][1],
                               "r": cases[len(cases) // 2][2], "interp": cases[len(cases) // 2][3],
                               "impl (value, buffer after, guards ok)": str(res[len(cases) // 2][1])}})
    nbad = 0
    if ck.build is not None and ck.build.ok and terms:
        ok = ck.coq_bools(QHDR, terms, shard=400, name="qdirect")
        ck.cov["traces_validated_against_impl"] += len(ok)
        for good, (vals, st, r, interp, v, buf, exact) in zip(ok, tmeta):
            if not good:
                nbad += 1
                if nbad > 1:
                    ck.fail("quantile/direct/model-vs-impl", "", {})
                    continue
                mv = ck.coq_show(QHDR, "quantile %s %s %s %s" % (cnat(len(vals)), czl(vals), cq(Fraction(float(r))), cbool(interp)))
                ck.fail("quantile/direct/model-vs-impl",
                        "model and C disagree (%s): data=%s stride=%d r=%r interp=%d: impl value %r buffer %s; model %s" % (
                            "exact" if exact else "1e-12", vals, st, r, interp, v, buf, mv),
                        {"data": vals, "stride": st, "r": r, "interp": interp, "impl_value": v, "impl_buffer": buf, "model": mv})
    ck.section("quantile-direct", arrays=len(arrays), calls=len(cases), model_terms=len(terms),
               strides=strides, exact_terms=sum(1 for t in tmeta if t[6]), tolerance_terms=sum(1 for t in tmeta if not t[6]))


def _q_nd_views(ck):
    """n-d integer arrays (1..4 dims, extents 1..7) as float64 views with C/F order,
    negative and non-unit strides; returns (view, description)."""
    rng = ck.rng("quantile-nd")
    out = []
    N = ck.n(40, 300)
    for k in range(N):
        nd = 1 + k % 4
        while True:
            shape = tuple(int(e) for e in rng.integers(1, 8, nd))
            if int(np.prod(shape)) <= 220:
                break
        steps = [int(rng.choice([1, 1, -1, 2, -2])) for _ in shape]
        big = tuple(e * abs(s) for e, s in zip(shape, steps))
        order = "F" if (k // 4) % 2 else "C"
        kind = k % 3
        if kind == 0:
            base = rng.integers(-3, 4, big)
        elif kind == 1:
            base = rng.integers(0, 2, big) * 7
        else:
            base = rng.permutation(int(np.prod(big))).reshape(big) - 10
        base = np.array(base, dtype=np.float64, order=order)
        sl = tuple(slice(None, None, s) if s > 0 else slice(None, None, s) for s in steps)
        view = base[sl]
        # take exactly `shape` entries per axis
        view = view[tuple(slice(0, e) for e in shape)]
        assert view.shape == shape
        out.append((view, {"shape": shape, "steps": steps, "order": order, "kind": ["ties", "two-valued", "distinct"][kind]}))
    return out


def _q_nd_call(case):
    from nipy.algorithms.statistics import quantile, median
    view, axis, r, interp, which, as_int = case
    X = view.astype(np.int64) if as_int else np.array(view, copy=True, order="K")
    if not as_int:
        # rebuild the same strided view on a private copy of the base memory (asarray keeps the view:
        # the C code then walks the real strides)
        base = view.base if view.base is not None else view
        bcopy = np.array(base, copy=True, order="K")
        off = (view.__array_interface__["data"][0] - base.__array_interface__["data"][0])
        X = np.ndarray(view.shape, np.float64, bcopy, offset=off, strides=view.strides)
    if which == "median":
        Y = median(X, axis=axis)
    else:
        Y = quantile(X, r, interp=bool(interp), axis=axis)
    return np.array(Y)


def quantile_nd(ck):
    views = _q_nd_views(ck)
    cases = []
    for k, (view, desc) in enumerate(views):
        for axis in range(view.ndim):
            n = view.shape[axis]
            rs = [0.0, 1.0, 0.5, 1.0 / (4 * n), (k % (4 * n + 1)) / (4.0 * n), ((3 * k + 1) % (4 * n + 1)) / (4.0 * n), 0.75]
            for j, r in enumerate(sorted(set(rs))):
                interp = (j + k + axis) % 2
                cases.append((view, axis, r, interp, "quantile", (k + j) % 3 == 0))
            cases.append((view, axis, 0.5, 1, "median", k % 2 == 0))
    res = run_guarded(_q_nd_call, cases)
    terms = []
    tmeta = []
    for case, rr in zip(cases, res):
        view, axis, r, interp, which, as_int = case
        n = view.shape[axis]
        replay = {"call": "nipy.algorithms.statistics.%s" % which, "array": view.astype(int).tolist(),
                  "strides_bytes": view.strides, "dtype": "int64" if as_int else "float64 strided view",
                  "axis": axis, "ratio": r, "interp": interp}
        ck.count(("qnd", view.shape, view.strides, view.astype(int).tobytes(), axis, r, interp, which, as_int),
                 nontrivial=n > 1, bucket="quantile-nd:%dd" % view.ndim)
        if rr[0] in ("hang", "crash"):
            ck.fail("quantile/nd/%s" % rr[0], "%s: child process %s (alarm %d s, exit %r)" % (which, rr[0], HANG_ALARM, rr[1]), replay)
            continue
        if rr[0] == "exc":
            ck.fail("quantile/nd/raises", "%s raised %s" % (which, rr[1]), replay)
            continue
        if rr[0] != "ok":
            continue
        Y = rr[1]
        eshape = list(view.shape)
        eshape[axis] = 1
        if list(Y.shape) != eshape:
            ck.fail("quantile/nd/shape", "result shape %s, expected %s" % (Y.shape, eshape), replay)
            continue
        fibs = []
        moved = np.moveaxis(view, axis, -1).reshape(-1, n)
        ymoved = np.moveaxis(Y, axis, -1).reshape(-1)
        parts = []
        for fib, y in zip(moved, ymoved):
            vals = [int(a) for a in fib]
            _q_check_value(ck, "nd", vals, r, interp, float(y), dict(replay, fibre=vals))
            if math.isnan(float(y)):
                continue
            exact = _q_exact_case(vals, r, interp)
            tol = Fraction(1, 10 ** 12) * (1 + max(abs(a) for a in vals))
            parts.append(_q_model_term(vals, r, interp, float(y), None, exact, tol))
            fibs.append(vals)
        # NumPy definitions on the whole array
        if which == "median":
            npm = np.median(view, axis=axis, keepdims=True)
            bad = np.argwhere(npm != Y)
            for b in bad[:1]:
                fib = [int(a) for a in np.moveaxis(view, axis, -1)[tuple(np.delete(b, axis))]]
                ck.fail("quantile/interp/last-interval(p=n-2)" if n == 2 else "quantile/nd/median-vs-numpy",
                        "median along axis %d of a fibre %s: nipy %r, numpy %r" % (axis, fib, float(Y[tuple(b)]), float(npm[tuple(b)])),
                        dict(replay, fibre=fib))
        if parts:
            terms.append(" && ".join("(%s)" % p for p in parts))
            tmeta.append((replay, fibs, Y.tolist()))
    if cases:
        c0 = cases[min(len(cases) - 1, 11)]
        ck.sample({"nd-call": {"shape": c0[0].shape, "strides": c0[0].strides, "axis": c0[1], "ratio": c0[2], "interp": c0[3], "fn": c0[4]}})
    if ck.build is not None and ck.build.ok and terms:
        ok = ck.coq_bools(QHDR, terms, shard=120, name="qnd")
        ck.cov["traces_validated_against_impl"] += len(ok)
        for good, (replay, fibs, Y) in zip(ok, tmeta):
            if not good:
                ck.fail("quantile/nd/model-vs-impl", "model and %s disagree on some fibre of the array (axis %s ratio %r interp %s): impl %s" % (
                    replay["call"], replay["axis"], replay["ratio"], replay["interp"], Y), dict(replay, fibres=fibs, impl=Y))
    ck.section("quantile-nd", arrays=len(views), calls=len(cases), model_terms=len(terms))


def _q_empty_call(case):
    from nipy.algorithms.statistics import quantile
    shape, axis = case
    return np.array(quantile(np.zeros(shape), 0.5, interp=True, axis=axis))


def quantile_empty(ck):
    """Empty sample: the C function must not be reached with size 0 (the model says Fault: read of x[0]
    and x[-stride] of an empty buffer); the wrapper skips the call and returns its zero-initialised output."""
    cases = [((0,), 0), ((0, 3), 0), ((2, 0), 1)]
    res = run_guarded(_q_empty_call, cases, alarm=10, max_restarts=3)
    for (shape, axis), rr in zip(cases, res):
        ck.count(("qempty", shape, axis), nontrivial=True, bucket="quantile-empty-axis")
        replay = {"call": "nipy.algorithms.statistics.quantile(np.zeros(%s), 0.5, interp=True, axis=%d)" % (shape, axis)}
        if rr[0] == "exc":
            continue            # raising is an acceptable answer for an empty sample
        if rr[0] in ("hang", "crash"):
            ck.fail("quantile/empty-axis/crash", "empty sample: child %s" % rr[0], replay)
            continue
        if rr[0] == "ok":
            Y = rr[1]
            if Y.size and not np.all(np.isnan(Y)):
                ck.fail("quantile/empty-axis/returns-zero",
                        "quantile of an empty sample (size 0 along the axis) with interp=True returns %s (the zero-initialised output is "
                        "never filled); numpy.median / numpy.quantile give nan" % Y.tolist(), replay)
    if ck.build is not None and ck.build.ok:
        ok = ck.coq_bools(QHDR, ["match quantile 3 [] (1#2) true with Fault => true | _ => false end"], name="qempty")
        if not ok[0]:
            ck.fail("quantile/empty-axis/model", "model no longer faults on the empty sample", {})


FHDR = ("From Coq Require Import ZArith List.\nFrom NV.C16 Require Import FibreModel.\n")


def _q_fib_call(case):
    """Fill the strided view with each element's own offset (in elements, relative to view[0,..,0]);
    the minimum (r=0) and maximum (r=1, interp) of every fibre then reveal which (start, stride, size)
    triple the wrapper handed to the C kernel, and in which order the fibres are visited."""
    from nipy.algorithms.statistics import quantile
    view, axis = case
    base = view.base if view.base is not None else view
    bcopy = np.array(base, copy=True, order="K")
    off = (view.__array_interface__["data"][0] - base.__array_interface__["data"][0])
    X = np.ndarray(view.shape, np.float64, bcopy, offset=off, strides=view.strides)
    offs = np.zeros(view.shape)
    for k, (n, st) in enumerate(zip(view.shape, view.strides)):
        shp = [1] * view.ndim
        shp[k] = n
        offs = offs + (np.arange(n) * (st // 8)).reshape(shp)
    X[...] = offs
    lo = np.array(quantile(X, 0.0, interp=False, axis=axis))
    X[...] = offs
    hi = np.array(quantile(X, 1.0, interp=True, axis=axis))
    return lo.reshape(-1).tolist(), hi.reshape(-1).tolist()


def quantile_fibres(ck):
    views = _q_nd_views(ck)
    cases = [(v, ax) for v, d in views for ax in range(v.ndim)]
    res = run_guarded(_q_fib_call, cases)
    terms = []
    meta = []
    for (view, axis), rr in zip(cases, res):
        shape = list(view.shape)
        strides = [s // 8 for s in view.strides]
        replay = {"shape": shape, "strides_elements": strides, "axis": axis}
        ck.count(("qfib", tuple(shape), tuple(strides), axis), nontrivial=view.size > 1, bucket="fibre-iteration:%dd" % view.ndim)
        if rr[0] != "ok":
            ck.fail("quantile/fibres/%s" % rr[0], "fibre probe did not complete: %r" % (rr[1],), replay)
            continue
        lo, hi = rr[1]
        # direct oracle: numpy's own fibres of the offset array
        offs = np.zeros(view.shape)
        for k, (n, st) in enumerate(zip(shape, strides)):
            shp = [1] * view.ndim
            shp[k] = n
            offs = offs + (np.arange(n) * st).reshape(shp)
        elo = offs.min(axis=axis, keepdims=True).reshape(-1).tolist()
        ehi = offs.max(axis=axis, keepdims=True).reshape(-1).tolist()
        if lo != elo or hi != ehi:
            feat = "negative-stride" if strides[axis] < 0 else ("non-unit-stride" if abs(strides[axis]) != 1 else "unit-stride")
            ck.fail("quantile/fibres/wrong-elements/%s" % feat,
                    "min/max element offsets per fibre along axis %d are %s / %s, numpy's fibres give %s / %s" % (axis, lo, hi, elo, ehi),
                    dict(replay, impl_min=lo, impl_max=hi))
        pairs = "[" + "; ".join("(%s, %s)" % (cz(a), cz(b)) for a, b in zip(lo, hi)) + "]"
        terms.append("zpairs_eqb (fibre_extremes %s %s %s) %s" % (
            "[" + "; ".join(cnat(n) for n in shape) + "]", czl(strides), cnat(axis), pairs))
        meta.append((replay, lo, hi))
    if ck.build is not None and ck.build.ok and terms:
        ok = ck.coq_bools(FHDR, terms, shard=60, name="qfib")
        ck.cov["traces_validated_against_impl"] += len(ok)
        for good, (replay, lo, hi) in zip(ok, meta):
            if not good:
                ck.fail("quantile/fibres/model-vs-impl", "fibre model (FibreModel.fibres) and the wrapper's iteration disagree: %s" % replay,
                        dict(replay, impl_min=lo, impl_max=hi))
    ck.section("fibre-iteration", calls=len(cases), model_terms=len(terms))


def _timed(ck, name, fn):
    import time
    t = time.time()
    fn(ck)
    ck.section("timing", **{name + "_s": round(time.time() - t, 1)})


def quantile_section(ck):
    _timed(ck, "quantile_direct", quantile_direct)
    _timed(ck, "quantile_nd", quantile_nd)
    _timed(ck, "quantile_empty", quantile_empty)
    _timed(ck, "quantile_fibres", quantile_fibres)


# >>> PASTED SECTIONS
# ====================================================================== blas (fff_blas.c)
# ---------------------------------------------------------------------------
# C16 / blas section: row-major wrappers of column-major BLAS (lib/fff/fff_blas.c)
#   paste into harness/props/c16.py; run(ck) must have called ck.coq_build()
#   and ck.overlay() before blas(ck).
# ---------------------------------------------------------------------------
import ctypes as _blas_ct
import itertools as _blas_it

import numpy as _blas_np

blas_HDR = ("From Coq Require Import List ZArith.\n"
            "From NV.Generated Require Import FffBlas.\n"
            "From NV.C16 Require Import BlasModel.\n")

# CBLAS enum values of fff_blas.h and their Coq names
blas_TRANS = {111: "CblasNoTrans", 112: "CblasTrans", 113: "CblasConjTrans"}
blas_UPLO = {121: "CblasUpper", 122: "CblasLower"}
blas_DIAG = {131: "CblasNonUnit", 132: "CblasUnit"}
blas_SIDE = {141: "CblasLeft", 142: "CblasRight"}
# integer conventions of the Python wrappers in nipy/labs/bindings/linalg.pyx (flag <= 0 -> first value)
blas_PYFLAG = {111: 0, 112: 1, 121: 0, 122: 1, 131: 0, 132: 1, 141: 0, 142: 1}
blas_FLAGNAME = {}
for _blas_d in (blas_TRANS, blas_UPLO, blas_DIAG, blas_SIDE):
    blas_FLAGNAME.update(_blas_d)
blas_LETTER = {111: "N", 112: "T", 113: "C", 121: "U", 122: "L", 131: "N", 132: "U", 141: "L", 142: "R"}


class _blas_FM(_blas_ct.Structure):
    _fields_ = [("size1", _blas_ct.c_size_t), ("size2", _blas_ct.c_size_t), ("tda", _blas_ct.c_size_t),
                ("data", _blas_ct.POINTER(_blas_ct.c_double)), ("owner", _blas_ct.c_int)]


class _blas_FV(_blas_ct.Structure):
    _fields_ = [("size", _blas_ct.c_size_t), ("stride", _blas_ct.c_size_t),
                ("data", _blas_ct.POINTER(_blas_ct.c_double)), ("owner", _blas_ct.c_int)]


def _blas_fm(a):
    """contiguous float64 copy + fff_matrix view on it (keep both alive)"""
    a = _blas_np.array(a, dtype=_blas_np.float64, order="C", copy=True)
    return a, _blas_FM(a.shape[0], a.shape[1], a.shape[1], a.ctypes.data_as(_blas_ct.POINTER(_blas_ct.c_double)), 0)


def _blas_fv(x):
    x = _blas_np.array(x, dtype=_blas_np.float64, order="C", copy=True)
    return x, _blas_FV(x.shape[0], 1, x.ctypes.data_as(_blas_ct.POINTER(_blas_ct.c_double)), 0)


def _blas_lib(ck):
    """libcstat.so built by the overlay from the CURRENT lib/fff + lapack_lite C sources"""
    path = (getattr(ck, "ov", None) or {}).get("cstat")
    if path is None:
        path = ck.overlay(cstat=True)["cstat"]
    lib = _blas_ct.CDLL(str(path))
    I, D = _blas_ct.c_int, _blas_ct.c_double
    M, V = _blas_ct.POINTER(_blas_FM), _blas_ct.POINTER(_blas_FV)
    sigs = {"dgemv": [I, D, M, V, D, V], "dtrsv": [I, I, I, M, V], "dgemm": [I, I, D, M, M, D, M],
            "dsymm": [I, I, D, M, M, D, M], "dtrmm": [I, I, I, I, D, M, M], "dtrsm": [I, I, I, I, D, M, M],
            "dsyrk": [I, I, D, M, D, M], "dsyr2k": [I, I, D, M, M, D, M]}
    fns = {}
    for r, at in sigs.items():
        f = getattr(lib, "fff_blas_" + r)
        f.argtypes = at
        f.restype = I
        fns[r] = f
    return fns


def _blas_ri(rng, shape, lo=-3, hi=3):
    return rng.integers(lo, hi + 1, size=shape).astype(_blas_np.float64)


def _blas_tri_pm1(rng, n):
    """integer matrix with +-1 diagonal (both triangles filled): triangular solves stay exact integers"""
    a = _blas_ri(rng, (n, n))
    a[_blas_np.arange(n), _blas_np.arange(n)] = rng.choice([-1.0, 1.0], size=n)
    return a


def _blas_zl(a):
    return "[" + "; ".join("(%d)%%Z" % int(v) for v in _blas_np.asarray(a).ravel()) + "]"


def _blas_zm(a):
    return "(zm %d %d %s)" % (a.shape[0], a.shape[1], _blas_zl(a))


def _blas_zv(x):
    return "(zv %s)" % _blas_zl(x)


def _blas_z(v):
    return "(%d)%%Z" % int(v)


def _blas_op(t, a):
    return a if t == 111 else a.T


def _blas_symm(uplo, a):
    return _blas_np.triu(a) + _blas_np.triu(a, 1).T if uplo == 121 else _blas_np.tril(a) + _blas_np.tril(a, -1).T


def _blas_tri(uplo, diag, a):
    t = _blas_np.triu(a) if uplo == 121 else _blas_np.tril(a)
    if diag == 132:
        t = t.copy()
        _blas_np.fill_diagonal(t, 1.0)
    return t


def _blas_trimask(uplo, n):
    i, j = _blas_np.indices((n, n))
    return (i <= j) if uplo == 121 else (j <= i)


def _blas_lst(a):
    return _blas_np.asarray(a).tolist()


def _blas_cases(ck, rng):
    """yield dicts: routine, feat, flags (C enum ints), args, dims key - iterated small to large"""
    th = ck.thorough()
    dmax = 4 if th else 3
    reps = ck.n(3, 8)
    sc = lambda: int(rng.integers(-2, 3))
    TR = [111, 112, 113]
    for rep in range(reps):
        for d in range(1, dmax + 1):          # size tier: all dims <= d, at least one == d
            dims2 = [p for p in _blas_it.product(range(1, d + 1), repeat=2) if max(p) == d]
            dims3 = [p for p in _blas_it.product(range(1, d + 1), repeat=3) if max(p) == d]
            # ---- dgemm: C (m x n) = alpha op(A) (m x k) op(B) (k x n) + beta C
            for ta, tb in _blas_it.product(TR, TR):
                for m, n, k in dims3:
                    A = _blas_ri(rng, (m, k) if ta == 111 else (k, m))
                    B = _blas_ri(rng, (k, n) if tb == 111 else (n, k))
                    yield dict(r="dgemm", flags=(ta, tb), alpha=sc(), beta=sc(), A=A, B=B, C=_blas_ri(rng, (m, n)))
            # ---- dgemv: y = alpha op(A) x + beta y
            for ta, _ in _blas_it.product(TR, range(3)):
                for m, n in dims2:
                    A = _blas_ri(rng, (m, n))
                    lx, ly = (n, m) if ta == 111 else (m, n)
                    yield dict(r="dgemv", flags=(ta,), alpha=sc(), beta=sc(), A=A, x=_blas_ri(rng, lx), y=_blas_ri(rng, ly))
            # ---- dsymm
            for s, u, _ in _blas_it.product(blas_SIDE, blas_UPLO, range(2)):
                for m, n in dims2:
                    na = m if s == 141 else n
                    yield dict(r="dsymm", flags=(s, u), alpha=sc(), beta=sc(), A=_blas_ri(rng, (na, na)),
                               B=_blas_ri(rng, (m, n)), C=_blas_ri(rng, (m, n)))
            # ---- dtrmm / dtrsm
            for s, u, ta, dg in _blas_it.product(blas_SIDE, blas_UPLO, TR, blas_DIAG):
                for m, n in dims2:
                    na = m if s == 141 else n
                    yield dict(r="dtrmm", flags=(s, u, ta, dg), alpha=sc(), A=_blas_ri(rng, (na, na)), B=_blas_ri(rng, (m, n)))
                    yield dict(r="dtrsm", flags=(s, u, ta, dg), alpha=sc(), A=_blas_tri_pm1(rng, na), B=_blas_ri(rng, (m, n)))
            # ---- dtrsv
            for u, ta, dg in _blas_it.product(blas_UPLO, TR, blas_DIAG):
                for _ in range(2):
                    yield dict(r="dtrsv", flags=(u, ta, dg), A=_blas_tri_pm1(rng, d), x=_blas_ri(rng, d))
            # ---- dsyrk / dsyr2k: C (n x n), op(A) n x k with k != n as well (non-square A).  Within a size tier the
            #      cases with n < k come first: when the k dimension handed to Fortran is wrong (the defect fixed in
            #      /repo 4aa6685: row count of op(A) passed as k) those stay inside the buffers and fail at value
            #      level, whereas n > k makes DSYRK reject LDA (XERBLA -> process exit) or read past the buffer
            for u, t, _ in _blas_it.product(blas_UPLO, TR, range(2)):
                for n, k in sorted(dims2, key=lambda p: (p[0] > p[1], p)):
                    shp = (n, k) if t == 111 else (k, n)
                    yield dict(r="dsyrk", flags=(u, t), alpha=sc(), beta=sc(), A=_blas_ri(rng, shp), C=_blas_ri(rng, (n, n)))
                    yield dict(r="dsyr2k", flags=(u, t), alpha=sc(), beta=sc(), A=_blas_ri(rng, shp),
                               B=_blas_ri(rng, shp), C=_blas_ri(rng, (n, n)))


def _blas_run_case(c, fns, L):
    """returns (out_c, out_py|None, expected|None, residual_ok|None, feat, coq_call, out_operand, replay)"""
    r, fl = c["r"], c["flags"]
    by = _blas_ct.byref
    out_py = None
    res_ok = None
    exp = None
    pyok = all(f in blas_PYFLAG for f in fl)
    pf = [blas_PYFLAG.get(f) for f in fl]
    replay = {"routine": "fff_blas_" + r, "flags": list(fl),
              "flag_names": [blas_FLAGNAME[f] for f in fl]}
    for k in ("alpha", "beta"):
        if k in c:
            replay[k] = c[k]
    for k in ("A", "B", "C", "x", "y"):
        if k in c:
            replay[k] = _blas_lst(c[k])
    if r == "dgemm":
        ta, tb = fl
        feat = "transA=%s,transB=%s" % (blas_LETTER[ta], blas_LETTER[tb])
        A, a = _blas_fm(c["A"]); B, b = _blas_fm(c["B"]); C, cc = _blas_fm(c["C"])
        fns[r](ta, tb, c["alpha"], by(a), by(b), c["beta"], by(cc))
        out = C
        exp = c["alpha"] * _blas_op(ta, c["A"]) @ _blas_op(tb, c["B"]) + c["beta"] * c["C"]
        if pyok:
            out_py = L.blas_dgemm(pf[0], pf[1], float(c["alpha"]), c["A"].copy(), c["B"].copy(), float(c["beta"]), c["C"].copy())
        call = "zcall_dgemm %s %s %s %s %s %s %s" % (blas_TRANS[ta], blas_TRANS[tb], _blas_z(c["alpha"]), _blas_zm(c["A"]),
                                                     _blas_zm(c["B"]), _blas_z(c["beta"]), _blas_zm(c["C"]))
        outop = "OpC"
    elif r == "dgemv":
        (ta,) = fl
        feat = "transA=%s" % blas_LETTER[ta]
        A, a = _blas_fm(c["A"]); X, x = _blas_fv(c["x"]); Y, y = _blas_fv(c["y"])
        fns[r](ta, c["alpha"], by(a), by(x), c["beta"], by(y))
        out = Y
        exp = c["alpha"] * _blas_op(ta, c["A"]) @ c["x"] + c["beta"] * c["y"]
        call = "zcall_dgemv %s %s %s %s %s %s" % (blas_TRANS[ta], _blas_z(c["alpha"]), _blas_zm(c["A"]), _blas_zv(c["x"]),
                                                  _blas_z(c["beta"]), _blas_zv(c["y"]))
        outop = "OpY"
    elif r == "dsymm":
        s, u = fl
        feat = "side=%s,uplo=%s" % (blas_LETTER[s], blas_LETTER[u])
        A, a = _blas_fm(c["A"]); B, b = _blas_fm(c["B"]); C, cc = _blas_fm(c["C"])
        fns[r](s, u, c["alpha"], by(a), by(b), c["beta"], by(cc))
        out = C
        S = _blas_symm(u, c["A"])
        exp = c["alpha"] * (S @ c["B"] if s == 141 else c["B"] @ S) + c["beta"] * c["C"]
        out_py = L.blas_dsymm(pf[0], pf[1], float(c["alpha"]), c["A"].copy(), c["B"].copy(), float(c["beta"]), c["C"].copy())
        call = "zcall_dsymm %s %s %s %s %s %s %s" % (blas_SIDE[s], blas_UPLO[u], _blas_z(c["alpha"]), _blas_zm(c["A"]),
                                                     _blas_zm(c["B"]), _blas_z(c["beta"]), _blas_zm(c["C"]))
        outop = "OpC"
    elif r in ("dtrmm", "dtrsm"):
        s, u, ta, dg = fl
        feat = "side=%s,uplo=%s,transA=%s,diag=%s" % (blas_LETTER[s], blas_LETTER[u], blas_LETTER[ta], blas_LETTER[dg])
        A, a = _blas_fm(c["A"]); B, b = _blas_fm(c["B"])
        fns[r](s, u, ta, dg, c["alpha"], by(a), by(b))
        out = B
        T = _blas_op(ta, _blas_tri(u, dg, c["A"]))
        if r == "dtrmm":
            exp = c["alpha"] * (T @ c["B"] if s == 141 else c["B"] @ T)
        else:   # op(A) X = alpha B  /  X op(A) = alpha B ; T is unimodular so X is the unique integer solution
            res_ok = bool(_blas_np.array_equal(T @ out if s == 141 else out @ T, c["alpha"] * c["B"]))
        # the Python wrapper allocates the result with A's shape: only usable when B has A's shape
        if pyok and c["B"].shape == c["A"].shape:
            out_py = getattr(L, "blas_" + r)(pf[0], pf[1], pf[2], pf[3], float(c["alpha"]), c["A"].copy(), c["B"].copy())
        call = "zcall_%s %s %s %s %s %s %s %s" % (r, blas_SIDE[s], blas_UPLO[u], blas_TRANS[ta], blas_DIAG[dg],
                                                  _blas_z(c["alpha"]), _blas_zm(c["A"]), _blas_zm(c["B"]))
        outop = "OpB"
    elif r == "dtrsv":
        u, ta, dg = fl
        feat = "uplo=%s,transA=%s,diag=%s" % (blas_LETTER[u], blas_LETTER[ta], blas_LETTER[dg])
        A, a = _blas_fm(c["A"]); X, x = _blas_fv(c["x"])
        fns[r](u, ta, dg, by(a), by(x))
        out = X
        T = _blas_op(ta, _blas_tri(u, dg, c["A"]))
        res_ok = bool(_blas_np.array_equal(T @ out, c["x"]))
        call = "zcall_dtrsv %s %s %s %s %s" % (blas_UPLO[u], blas_TRANS[ta], blas_DIAG[dg], _blas_zm(c["A"]), _blas_zv(c["x"]))
        outop = "OpX"
    elif r in ("dsyrk", "dsyr2k"):
        u, t = fl
        square = c["A"].shape[0] == c["A"].shape[1]
        # non-square A exercises the k dimension handed to Fortran (defect fixed in /repo 4aa6685) -> one signature per routine
        feat = ("uplo=%s,trans=%s" % (blas_LETTER[u], blas_LETTER[t])) if square else "k-dimension/nonsquare-A"
        A, a = _blas_fm(c["A"]); C, cc = _blas_fm(c["C"])
        Ao = _blas_op(t, c["A"])
        if r == "dsyrk":
            fns[r](u, t, c["alpha"], by(a), c["beta"], by(cc))
            full = c["alpha"] * Ao @ Ao.T + c["beta"] * c["C"]
            if pyok and square:
                out_py = L.blas_dsyrk(pf[0], pf[1], float(c["alpha"]), c["A"].copy(), float(c["beta"]), c["C"].copy())
            call = "zcall_dsyrk %s %s %s %s %s %s" % (blas_UPLO[u], blas_TRANS[t], _blas_z(c["alpha"]), _blas_zm(c["A"]),
                                                      _blas_z(c["beta"]), _blas_zm(c["C"]))
        else:
            B, b = _blas_fm(c["B"])
            Bo = _blas_op(t, c["B"])
            fns[r](u, t, c["alpha"], by(a), by(b), c["beta"], by(cc))
            full = c["alpha"] * (Ao @ Bo.T + Bo @ Ao.T) + c["beta"] * c["C"]
            if pyok and square:
                out_py = L.blas_dsyr2k(pf[0], pf[1], float(c["alpha"]), c["A"].copy(), c["B"].copy(), float(c["beta"]), c["C"].copy())
            call = "zcall_dsyr2k %s %s %s %s %s %s %s" % (blas_UPLO[u], blas_TRANS[t], _blas_z(c["alpha"]), _blas_zm(c["A"]),
                                                         _blas_zm(c["B"]), _blas_z(c["beta"]), _blas_zm(c["C"]))
        out = C
        # only the uplo triangle of C (row-major sense) is defined by the documentation; the code leaves
        # the other triangle untouched, which is what is modelled and compared here
        exp = _blas_np.where(_blas_trimask(u, c["C"].shape[0]), full, c["C"])
        outop = "OpC"
    else:
        raise AssertionError(r)
    return out, out_py, exp, res_ok, feat, call, outop, replay


def _blas_shape_class(c):
    """per matrix operand: rows <, = or > columns (which leading-dimension checks a call can trip depends on it)"""
    return tuple(int(_blas_np.sign(_blas_np.shape(c[k])[0] - _blas_np.shape(c[k])[1]))
                 for k in ("A", "B", "C") if k in c)


def _blas_exec(ck, cases):
    """Run every case in a forked child process.  The f2c XERBLA of lapack_lite ends the process with
    exit(0) (s_stop) when a Fortran routine rejects an argument, which would silently end the whole check:
    the child writes one pickled result per case, the parent notices a child that ended early, reports the
    case in progress, drops the remaining cases of that routine with the same shape class (rows <, =, > columns
    per operand; other shape classes still run and can give a value-level replay) and forks again.
    Returns a list with, per case, the result tuple, "died" or None (skipped)."""
    import os
    import pickle
    import sys
    results = [None] * len(cases)
    dead = set()
    start = 0
    path = str(ck.scratch / "blas_results.pkl")
    while start < len(cases):
        sys.stdout.flush()
        sys.stderr.flush()
        open(path, "wb").close()
        pid = os.fork()
        if pid == 0:                       # child
            code = 3
            try:
                from nipy.labs.bindings import linalg as L
                fns = _blas_lib(ck)
                with open(path, "ab") as f:
                    for i in range(start, len(cases)):
                        if (cases[i]["r"], _blas_shape_class(cases[i])) in dead:
                            continue
                        pickle.dump(("start", i), f)
                        f.flush()
                        try:
                            res = _blas_run_case(cases[i], fns, L)
                        except Exception as e:  # noqa
                            res = ("raised", "%s: %s" % (type(e).__name__, e))
                        pickle.dump(("done", i, res), f)
                        f.flush()
                    pickle.dump(("end",), f)
                    f.flush()
                code = 0
            finally:
                os._exit(code)
        _, status = os.waitpid(pid, 0)
        ended, in_progress = False, None
        with open(path, "rb") as f:
            while True:
                try:
                    rec = pickle.load(f)
                except EOFError:
                    break
                if rec[0] == "start":
                    in_progress = rec[1]
                elif rec[0] == "done":
                    results[rec[1]] = rec[2]
                    in_progress = None
                else:
                    ended = True
        if ended:
            break
        if in_progress is None:            # child ended outside a case: do not loop for ever
            raise RuntimeError("blas child process ended unexpectedly (status %r) outside a case" % (status,))
        results[in_progress] = ("died", status)
        dead.add((cases[in_progress]["r"], _blas_shape_class(cases[in_progress])))
        start = in_progress + 1
    return results


def _blas_replay(c):
    rp = {"routine": "fff_blas_" + c["r"], "flags": list(c["flags"]), "flag_names": [blas_FLAGNAME[f] for f in c["flags"]]}
    for k in ("alpha", "beta"):
        if k in c:
            rp[k] = c[k]
    for k in ("A", "B", "C", "x", "y"):
        if k in c:
            rp[k] = _blas_lst(c[k])
    return rp


def blas(ck):
    """fff_blas.c wrappers: direct numpy oracle on the documented row-major result + exact correspondence
    with the Z instance of fff_call over the GENERATED flag/operand/dimension table."""
    rng = ck.rng("blas")
    terms, meta = [], []
    ncase = {}
    npy = 0
    cases = list(_blas_cases(ck, rng))
    results = _blas_exec(ck, cases)
    for c, resu in zip(cases, results):
        r = c["r"]
        if resu is None:
            continue                      # dropped after a process-ending case of this routine and shape class (already reported)
        if isinstance(resu[0], str):      # "died" | "raised"
            ck.fail("blas/%s/%s" % (r, "process-exit-in-fortran-argument-check" if resu[0] == "died" else "raises"),
                    "fff_blas_%s with flags %s: %s" % (r, [blas_FLAGNAME[f] for f in c["flags"]],
                                                     "the Fortran routine rejected an argument (XERBLA -> exit), child status %r" % (resu[1],)
                                                     if resu[0] == "died" else "raised " + str(resu[1])),
                    _blas_replay(c))
            continue
        out, out_py, exp, res_ok, feat, call, outop, replay = resu
        shapes = tuple(_blas_np.shape(c[k]) for k in ("A", "B", "C", "x", "y") if k in c)
        ck.count(("blas", r, c["flags"], shapes, tuple(_blas_np.concatenate(
            [_blas_np.ravel(c[k]) for k in ("A", "B", "C", "x", "y") if k in c]).tolist()),
            c.get("alpha"), c.get("beta")), nontrivial=True, bucket="blas:" + r)
        ncase[r] = ncase.get(r, 0) + 1
        replay["impl_output"] = _blas_lst(out)
        # (a) direct oracle: documented row-major result, exact
        if exp is not None and not _blas_np.array_equal(out, exp):
            replay["documented_result"] = _blas_lst(exp)
            ck.fail("blas/%s/%s" % (r, feat),
                    "fff_blas_%s(%s) returns %s, documented row-major result is %s" % (
                        r, feat, _blas_lst(out), _blas_lst(exp)), replay)
        if res_ok is False:
            ck.fail("blas/%s/%s" % (r, feat),
                    "fff_blas_%s(%s): result X=%s does not satisfy the documented triangular system" % (
                        r, feat, _blas_lst(out)), replay)
        # the Python wrapper of linalg.pyx must agree with the C function it wraps
        if out_py is not None:
            npy += 1
            if not _blas_np.array_equal(_blas_np.asarray(out_py), out):
                ck.fail("blas/%s/python-wrapper-vs-C" % r,
                        "blas_%s(%s) returns %s but fff_blas_%s gives %s" % (r, feat, _blas_lst(out_py), r, _blas_lst(out)),
                        dict(replay, python_wrapper_output=_blas_lst(out_py)))
        # (b) correspondence term: Z model of fff_call with the generated table vs the implementation
        if _blas_np.all(_blas_np.isfinite(out)) and _blas_np.array_equal(out, _blas_np.rint(out)):
            terms.append("zres_is (%s) %s %s" % (call, outop, _blas_zl(out)))
            meta.append((r, feat, call, replay))
        else:
            ck.fail("blas/%s/non-integer-output" % r,
                    "fff_blas_%s(%s) on integer inputs returned non-integers %s" % (r, feat, _blas_lst(out)), replay)
        if ncase[r] == 1 or (r == "dsymm" and ncase[r] == 9):
            ck.sample({"call": "fff_blas_%s" % r, "feature": feat,
                       "inputs": {k: replay[k] for k in ("alpha", "beta", "A", "B", "C", "x", "y") if k in replay},
                       "output": _blas_lst(out)})
    nmodel = 0
    if ck.build is not None and ck.build.ok:
        res = ck.coq_bools(blas_HDR, terms, name="blas")
        nmodel = len(res)
        ck.cov["traces_validated_against_impl"] += len(res)
        shown = set()
        for ok, (r, feat, call, replay) in zip(res, meta):
            if ok or r in shown:
                continue
            shown.add(r)
            mv = ck.coq_show(blas_HDR, call)
            ck.fail("blas/%s/model-vs-impl" % r,
                    "Z model of fff_call (generated table of fff_blas.c) and implementation disagree for "
                    "fff_blas_%s(%s): impl %s, model %s" % (r, feat, replay["impl_output"], mv),
                    dict(replay, model=mv, feature=feat))
    ck.section("blas", cases=ncase, python_wrapper_cases=npy, model_cases=nmodel,
               note="C level through ctypes on libcstat.so rebuilt from the current fff_blas.c; Python wrappers of "
                    "linalg.pyx additionally where their allocation rule admits the shapes; integer inputs, exact comparison; "
                    "dsyrk/dsyr2k compared on the whole matrix (code leaves the non-uplo triangle untouched)")


# ====================================================================== blas1 (fff_blas.c level 1: dot products, norms, ...)
# Every finite double is a rational: the documented value of ddot / dnrm2 / dasum / idamax / daxpy / dscal / drot /
# dswap / dcopy / drotg is evaluated exactly (Fractions here, Q in Coq: coq/C16/Blas1Model.v) for inputs of EVERY
# magnitude class - ordinary, huge (squares overflow), tiny (squares underflow, denormal-free), mixed exponents -
# in contiguous and strided layouts, through the C functions (ctypes on the rebuilt libcstat) and the Python wrappers.
B1HDR = ("From Coq Require Import List ZArith QArith Qabs.\nFrom NV.C16 Require Import Blas1Model.\nImport ListNotations.\n")
_B1_TOL = Fraction(1, 2 ** 46)        # relative tolerance on r^2 vs sum x_i^2 (the scaled kernel rounds a few ulp)
_B1_BASE = [[3, 4], [-3, 4], [4, -3], [5], [-7], [0], [0, 0], [1, 2, 2], [2, -1, 2], [3, 4, 12], [12, 4, 3], [0, 3, 0, 4],
            [2, 3, 6], [1, 4, 8], [4, 4, 7], [6, 6, 7], [1, 1, 1, 1], [8, 9, 12], [1, -1], [2, 0, 0, 0, 0, 0, 0, 0, 1],
            [9, 9, 9, 9, 9, 9, 9, 9, 9], [1, 2, 3, 4, 5, 6, 7]]


def _b1_q(f):
    """dyadic rational -> `q2 m e` (m * 2^e): compact even at 2^+-1000 (decimal literals of that size parse slowly)"""
    f = Fraction(f)
    d = f.denominator
    assert d & (d - 1) == 0, f
    m, e = f.numerator, -(d.bit_length() - 1)
    if m == 0:
        return "(q2 0 0)"
    while e >= 0 and m % 2 == 0:
        m //= 2
        e += 1
    return "(q2 (%d) (%d))" % (m, e)


def _b1_qlist(fr):
    return "[" + "; ".join(_b1_q(f) for f in fr) + "]"


def _b1_mag(fr):
    """structural magnitude class of a vector of Fractions"""
    nz = [abs(f) for f in fr if f != 0]
    if not nz:
        return "zero"
    hi, lo = max(nz), min(nz)
    tags = []
    if hi > Fraction(2) ** 511:
        tags.append("huge(squares-overflow)")
    if lo < Fraction(1, 2 ** 511):
        tags.append("tiny(squares-underflow)")
    if hi / lo > 2 ** 40:
        tags.append("mixed-exponents")
    return "+".join(tags) if tags else "ordinary"


def _b1_vectors(ck):
    """list of (list of Fractions, description).  Entries are small integers times powers of two (exact doubles)."""
    rng = ck.rng("blas1")
    ks = [0, -1, 60, -60, 400, -400, 511, 512, -512, 600, -600, 900, -1000] if not ck.thorough() else \
        [0, 1, -1, 30, 60, -60, 200, -200, 400, -400, 510, 511, 512, -511, -512, -537, 600, -600, 800, 900, 1000, -900, -1000, -1015]
    base = [list(v) for v in _B1_BASE]
    for _ in range(ck.n(10, 60)):
        n = int(rng.integers(1, 10))
        base.append([int(a) for a in rng.integers(-9, 10, n)])
    out = []
    for bi, v in enumerate(base):
        for k in (ks if bi < 12 or ck.thorough() else [ks[(bi + j) % len(ks)] for j in range(4)]):
            out.append(([Fraction(a) * Fraction(2) ** k for a in v], "ints*2^%d" % k))
    # mixed exponents inside one vector
    for j in range(ck.n(12, 80)):
        n = int(rng.integers(2, 8))
        k = int(rng.choice([0, 300, -300, 700, -700, 950, -950]))
        es = rng.choice([0, -30, 20, -45, 7], n)
        v = rng.integers(-9, 10, n)
        out.append(([Fraction(int(a)) * Fraction(2) ** int(k + e) for a, e in zip(v, es)], "mixed 2^(%d+e)" % k))
    return out


def _b1_lib(ck):
    lib = ctypes.CDLL(str(ck.ov["cstat"]))
    V, D = ctypes.POINTER(_blas_FV), ctypes.c_double
    PD = ctypes.POINTER(ctypes.c_double)
    sig = {"ddot": ([V, V], D), "dnrm2": ([V], D), "dasum": ([V], D), "idamax": ([V], ctypes.c_size_t),
           "dswap": ([V, V], ctypes.c_int), "dcopy": ([V, V], ctypes.c_int), "daxpy": ([D, V, V], ctypes.c_int),
           "dscal": ([D, V], ctypes.c_int), "drot": ([V, V, D, D], ctypes.c_int), "drotg": ([PD, PD, PD, PD], ctypes.c_int)}
    fns = {}
    for r, (at, rt) in sig.items():
        f = getattr(lib, "fff_blas_" + r)
        f.argtypes = at
        f.restype = rt
        fns[r] = f
    return fns


class _B1Vec:
    """fff_vector over a strided buffer; the gaps between the entries are NaN (a kernel that reads them shows it)."""

    def __init__(self, vals, step):
        n = len(vals)
        self.mem = np.full(max(1, n * step) + 2, np.nan)
        self.idx = [1 + i * step for i in range(n)]
        for i, v in zip(self.idx, vals):
            self.mem[i] = v
        self.before = self.mem.copy()
        self.fv = _blas_FV(n, step, ctypes.cast(self.mem.ctypes.data + 8, ctypes.POINTER(ctypes.c_double)), 0)

    def vals(self):
        return [float(self.mem[i]) for i in self.idx]

    def gaps_untouched(self):
        m = np.ones(len(self.mem), bool)
        m[self.idx] = False
        return bool(np.array_equal(self.mem[m], self.before[m], equal_nan=True))


def _b1_run(case):
    """executed in the guarded child: returns plain python values"""
    fns, kind = case["fns"], case["kind"]
    if kind == "c":
        r = case["r"]
        step = case["step"]
        x = _B1Vec(case["x"], step)
        y = _B1Vec(case["y"], case.get("stepy", step)) if "y" in case else None
        if r in ("dnrm2", "dasum"):
            return float(fns[r](ctypes.byref(x.fv)))
        if r == "idamax":
            return int(fns[r](ctypes.byref(x.fv)))
        if r == "ddot":
            return float(fns[r](ctypes.byref(x.fv), ctypes.byref(y.fv)))
        if r in ("dswap", "dcopy"):
            rc = fns[r](ctypes.byref(x.fv), ctypes.byref(y.fv))
            return (rc, x.vals(), y.vals(), x.gaps_untouched() and y.gaps_untouched())
        if r == "daxpy":
            rc = fns[r](case["alpha"], ctypes.byref(x.fv), ctypes.byref(y.fv))
            return (rc, x.vals(), y.vals(), x.gaps_untouched() and y.gaps_untouched())
        if r == "dscal":
            rc = fns[r](case["alpha"], ctypes.byref(x.fv))
            return (rc, x.vals(), None, x.gaps_untouched())
        if r == "drot":
            rc = fns[r](ctypes.byref(x.fv), ctypes.byref(y.fv), case["c"], case["s"])
            return (rc, x.vals(), y.vals(), x.gaps_untouched() and y.gaps_untouched())
        if r == "drotg":
            a, b, c, s = (ctypes.c_double(case["a"]), ctypes.c_double(case["b"]), ctypes.c_double(0), ctypes.c_double(0))
            fns[r](ctypes.byref(a), ctypes.byref(b), ctypes.byref(c), ctypes.byref(s))
            return (a.value, c.value, s.value)
    else:
        from nipy.labs.bindings import linalg as L
        r = case["r"]
        X = case["X"]
        if r in ("dnrm2", "dasum"):
            return float(getattr(L, "blas_" + r)(X))
        if r == "ddot":
            return float(L.blas_ddot(X, case["Y"]))
        if r == "daxpy":
            return np.asarray(L.blas_daxpy(case["alpha"], X, case["Y"])).tolist()
        if r == "dscal":
            return np.asarray(L.blas_dscal(case["alpha"], X)).tolist()
    raise ValueError(case)


def _b1_sqrt_ok(r, T, tol=_B1_TOL):
    """r >= 0 and |r^2 - T| <= tol*T, exactly"""
    if not math.isfinite(r) or r < 0:
        return False
    fr = frac(r)
    return abs(fr * fr - T) <= tol * T


def blas1(ck):
    fns = _b1_lib(ck)
    vecs = _b1_vectors(ck)
    rng = ck.rng("blas1-pairs")
    cases = []
    DMAX = Fraction(2) ** 1023
    DMIN = Fraction(1, 2 ** 1021)
    for vi, (fr, desc) in enumerate(vecs):
        xs = [float(f) for f in fr]
        n = len(fr)
        step = [1, 2, 3][vi % 3]
        mag = _b1_mag(fr)
        for r in ("dnrm2", "dasum", "idamax"):
            cases.append({"kind": "c", "r": r, "x": xs, "fx": fr, "step": step, "mag": mag, "desc": desc})
        # a partner with the same exponent pattern reversed, so that products stay representable
        w = [int(a) for a in rng.integers(-9, 10, n)]
        top = max([abs(f) for f in fr if f != 0] or [Fraction(1)])
        ky = 0
        while top * Fraction(2) ** ky > Fraction(2) ** 60:
            ky -= 50
        while top * Fraction(2) ** ky < Fraction(1, 2 ** 60):
            ky += 50
        fy = [Fraction(a) * Fraction(2) ** ky for a in w]
        ys = [float(f) for f in fy]
        cases.append({"kind": "c", "r": "ddot", "x": xs, "fx": fr, "y": ys, "fy": fy, "step": step, "stepy": [1, 3, 2][vi % 3],
                      "mag": mag, "desc": desc})
        # same-exponent partner for the vector-valued routines
        fy2 = [f * Fraction(int(a) if f != 0 else 0) + (Fraction(int(a)) * top if f == 0 else 0) for f, a in zip(fr, rng.integers(-4, 5, n))]
        ys2 = [float(f) for f in fy2]
        alpha = float(rng.choice([2.0, -0.5, 3.0, 0.25, -1.0]))
        if all(abs(f) * 8 < DMAX for f in fr + fy2) and "mixed" not in mag:
            for r in ("dswap", "dcopy", "daxpy", "dscal", "drot"):
                c = {"kind": "c", "r": r, "x": xs, "fx": fr, "y": ys2, "fy": fy2, "step": step, "stepy": [2, 1, 3][vi % 3],
                     "alpha": alpha, "c": 0.75, "s": -0.5, "mag": mag, "desc": desc}
                if r == "dscal":
                    c.pop("y"); c.pop("fy")
                cases.append(c)
        if n == 2 and fr[0] != 0 or n == 2 and fr[1] != 0:
            cases.append({"kind": "c", "r": "drotg", "a": xs[0], "b": xs[1], "fx": fr, "x": xs, "step": 1, "mag": mag, "desc": desc})
        # Python wrappers on numpy views (positive steps; the reversed view is a separate class)
        if vi % 2 == 0:
            buf = np.full(3 * n + 3, np.nan)
            buf[1:1 + step * n:step] = xs
            X = buf[1:1 + step * n:step]
            for r in ("dnrm2", "dasum"):
                cases.append({"kind": "py", "r": r, "X": X, "fx": fr, "x": xs, "step": step, "mag": mag, "desc": desc, "layout": "step%d" % step})
            bufy = np.full(2 * n + 2, np.nan)
            bufy[0:2 * n:2] = ys
            cases.append({"kind": "py", "r": "ddot", "X": X, "Y": bufy[0:2 * n:2], "fx": fr, "fy": fy, "x": xs, "y": ys, "step": step,
                          "mag": mag, "desc": desc, "layout": "step%d,step2" % step})
            if "mixed" not in mag and all(abs(f) * 8 < DMAX for f in fr + fy2):
                by2 = np.full(2 * n + 2, np.nan)
                by2[0:2 * n:2] = ys2
                cases.append({"kind": "py", "r": "daxpy", "X": X, "Y": by2[0:2 * n:2], "alpha": alpha, "fx": fr, "fy": fy2, "x": xs, "y": ys2,
                              "step": step, "mag": mag, "desc": desc, "layout": "step%d,step2" % step})
                cases.append({"kind": "py", "r": "dscal", "X": X, "alpha": alpha, "fx": fr, "x": xs, "step": step, "mag": mag, "desc": desc,
                              "layout": "step%d" % step})
            if vi % 8 == 0 and n >= 2:
                Xr = np.array(xs[::-1])[::-1]          # same values, negative stride
                for r in ("dnrm2", "dasum"):
                    cases.append({"kind": "py", "r": r, "X": Xr, "fx": fr, "x": xs, "step": -1, "mag": mag, "desc": desc, "layout": "reversed-view"})
                cases.append({"kind": "py", "r": "ddot", "X": Xr, "Y": np.array(ys[::-1])[::-1], "fx": fr, "fy": fy, "x": xs, "y": ys, "step": -1,
                              "mag": mag, "desc": desc, "layout": "reversed-view"})
            if vi % 6 == 0 and all(f.denominator == 1 and abs(f) < 2 ** 20 for f in fr):
                for dt in (np.int32, np.float32, np.int64):
                    cases.append({"kind": "py", "r": "dnrm2", "X": np.array(xs).astype(dt), "fx": fr, "x": xs, "step": 1, "mag": mag,
                                  "desc": desc, "layout": np.dtype(dt).name})
    for c in cases:
        c["fns"] = fns
    res = run_guarded(_b1_run, cases)
    terms, tmeta = [], []
    nby = {}
    for c, rr in zip(cases, res):
        r = c["r"]
        via = "C" if c["kind"] == "c" else "py"
        lay = c.get("layout", "step%d" % c["step"])
        rev = lay == "reversed-view"
        sig = "blas1/negative-stride-view(fff_vector-stride-is-unsigned)" if rev else "blas1/%s/magnitude=%s" % (r, c["mag"])
        replay = {"routine": ("fff_blas_%s (ctypes)" % r) if via == "C" else "nipy.labs.bindings.linalg.blas_%s" % r,
                  "x": c["x"], "x_exact": [str(f) for f in c["fx"]], "layout": lay}
        for k in ("y", "alpha", "c", "s"):
            if k in c:
                replay[k] = c[k]
        ck.count(("b1", r, via, lay, tuple(c["x"]), tuple(c.get("y", ())), c.get("alpha")), nontrivial=True,
                 bucket="blas1:%s:%s" % (r, c["mag"]))
        nby[r] = nby.get(r, 0) + 1
        if rr[0] != "ok":
            ck.fail("blas1/%s/%s" % (r, rr[0] if rr[0] in ("hang", "crash") else "raises") + ("/reversed-view" if lay == "reversed-view" else ""),
                    "%s: child %s %r" % (replay["routine"], rr[0], rr[1]), replay)
            continue
        out = rr[1]
        replay["impl_output"] = out
        fx = c["fx"]
        X = _b1_qlist(fx)
        if r == "dnrm2":
            T = sum(f * f for f in fx)
            if T == 0:
                good = (out == 0.0)
            else:
                good = _b1_sqrt_ok(out, T)
            if not good:
                ck.fail(sig, "%s(x) = %r but sqrt(sum x_i^2) = %s*... (x = %s): |r^2 - sum x_i^2| > 2^-46 sum x_i^2" % (
                    replay["routine"], out, "%.17g" % (float(T ** 1) ** 0.5) if T < DMAX else "sqrt(%d-bit number)" % T.numerator.bit_length(),
                    c["x"]), replay)
            if math.isfinite(out) and not rev:
                terms.append("nrm2_closeb %s %s %s || (Qeq_bool (qsumsq %s) 0 && Qeq_bool %s 0)" % (X, _b1_q(frac(out)), _b1_q(_B1_TOL), X, _b1_q(frac(out))))
                tmeta.append((sig, replay))
        elif r == "dasum":
            exp = sum(abs(f) for f in fx)
            # exact for integer*2^k vectors; with mixed exponents the partial sums round: n ulp of sum |x_i|
            bound = Fraction(len(fx), 2 ** 52) * exp if "mixed" in c["mag"] else Fraction(0)
            if not (math.isfinite(out) and abs(frac(out) - exp) <= bound):
                ck.fail(sig, "%s(x) = %r, sum |x_i| = %r" % (replay["routine"], out, float(exp)), replay)
            if math.isfinite(out) and not rev:
                terms.append("Qle_bool (Qabs (qasum %s - %s)) %s" % (X, _b1_q(frac(out)), _b1_q(bound)))
                tmeta.append((sig, replay))
        elif r == "idamax":
            m = max(abs(f) for f in fx)
            exp = [abs(f) for f in fx].index(m)
            if out != exp:
                ck.fail(sig, "fff_blas_idamax(x) = %r, first index of max |x_i| is %d" % (out, exp), replay)
            if 0 <= out < 5000:
                terms.append("Nat.eqb (iamax %s) %s" % (X, cnat(out)))
                tmeta.append((sig, replay))
        elif r == "ddot":
            exp = sum(a * b for a, b in zip(fx, c["fy"]))
            bound = Fraction(len(fx), 2 ** 52) * sum(abs(a * b) for a, b in zip(fx, c["fy"])) if "mixed" in c["mag"] else Fraction(0)
            if not (math.isfinite(out) and abs(frac(out) - exp) <= bound):
                ck.fail(sig, "%s(x, y) = %r, sum x_i y_i = %r" % (replay["routine"], out, float(exp)), replay)
            if math.isfinite(out) and not rev:
                terms.append("Qle_bool (Qabs (qdot %s %s - %s)) %s" % (X, _b1_qlist(c["fy"]), _b1_q(frac(out)), _b1_q(bound)))
                tmeta.append((sig, replay))
        elif r == "drotg":
            rv, cv, sv = out
            if not all(math.isfinite(v) for v in out):
                ck.fail(sig, "fff_blas_drotg(a=%r, b=%r) returned non-finite (r, c, s) = %r" % (c["a"], c["b"], out), replay)
                continue
            terms.append("rotg_closeb %s %s %s %s %s %s" % (_b1_q(fx[0]), _b1_q(fx[1]), _b1_q(frac(cv)), _b1_q(frac(sv)), _b1_q(frac(rv)), _b1_q(Fraction(1, 2 ** 40))))
            tmeta.append((sig, replay))
            a, b, cf, sf, rf = fx[0], fx[1], frac(cv), frac(sv), frac(rv)
            n2 = a * a + b * b
            tol = Fraction(1, 2 ** 40)
            if not (abs(cf * cf + sf * sf - 1) <= tol and abs(rf * rf - n2) <= tol * n2 and (cf * a + sf * b - rf) ** 2 <= tol * n2
                    and (cf * b - sf * a) ** 2 <= tol * n2):
                ck.fail(sig, "fff_blas_drotg(a=%r, b=%r) -> (r, c, s) = %r is not the Givens rotation of (a, b)" % (c["a"], c["b"], out), replay)
        else:
            # vector-valued routines
            if via == "C":
                rc, xo, yo, gaps = out
                if not gaps:
                    ck.fail("blas1/%s/writes-between-strided-entries" % r, "%s modified memory between the strided entries" % replay["routine"], replay)
            else:
                xo, yo = None, out
                if r == "dscal":
                    xo, yo = out, None
            fy = c.get("fy")
            al = frac(c["alpha"]) if "alpha" in c else None
            if r == "dswap":
                ex, ey = fy, fx
            elif r == "dcopy":
                ex, ey = fx, fx
            elif r == "daxpy":
                ex, ey = fx, [al * a + b for a, b in zip(fx, fy)]
            elif r == "dscal":
                ex, ey = [al * a for a in fx], None
            else:
                cc, ss = frac(c["c"]), frac(c["s"])
                ex = [cc * a + ss * b for a, b in zip(fx, fy)]
                ey = [cc * b - ss * a for a, b in zip(fx, fy)]
            bad = False
            for got, want in ((xo, ex), (yo, ey)):
                if got is None or want is None:
                    continue
                if len(got) != len(want) or any((not math.isfinite(g)) or frac(g) != w for g, w in zip(got, want)):
                    bad = True
            if bad:
                ck.fail(sig, "%s: x, y after the call = %r, %r; documented result %r, %r" % (
                    replay["routine"], xo, yo, [float(f) for f in ex], None if ey is None else [float(f) for f in ey]), replay)
            elif via == "C":
                if r == "daxpy":
                    terms.append("ql_eqb (axpy %s %s %s) %s" % (_b1_q(al), X, _b1_qlist(fy), _b1_qlist([frac(g) for g in yo])))
                elif r == "dscal":
                    terms.append("ql_eqb (scal %s %s) %s" % (_b1_q(al), X, _b1_qlist([frac(g) for g in xo])))
                elif r == "drot":
                    terms.append("qpl_eqb (rot %s %s %s %s) %s %s" % (_b1_q(frac(c["c"])), _b1_q(frac(c["s"])), X, _b1_qlist(fy),
                                                                   _b1_qlist([frac(g) for g in xo]), _b1_qlist([frac(g) for g in yo])))
                else:
                    continue
                tmeta.append((sig, replay))
    ck.sample({"blas1": {"routine": "fff_blas_dnrm2", "x": [3 * 2.0 ** 600, 4 * 2.0 ** 600], "documented": 5 * 2.0 ** 600}})
    if ck.build is not None and ck.build.ok and terms:
        ok = ck.coq_bools(B1HDR, terms, shard=200, name="blas1")
        ck.cov["traces_validated_against_impl"] += len(ok)
        for good, (sig, replay) in zip(ok, tmeta):
            if not good:
                ck.fail(sig.replace("blas1/", "blas1/model-vs-impl/", 1),
                        "the exact-rational model (Blas1Model.v) and %s disagree: %s" % (replay["routine"], replay.get("impl_output")), replay)
    ck.section("blas1", vectors=len(vecs), calls=len(cases), per_routine=nby, model_terms=len(terms),
               magnitude_classes=sorted(set(c["mag"] for c in cases)))


# ====================================================================== spline (cubic_spline.c)
# ---------------------------------------------------------------------------
# C16 section "spline": cubic_spline.c  (basis, boundary/mirror index maps,
# sampling 1d..4d, coefficient transform).  Paste into harness/props/c16.py.
# Assumes ck.coq_build() and ck.overlay() already ran.
#
#   (a) correspondence (exact, Coq vm_compute): NV.C16.SplineModel.sample1d_fp
#       (the model of cubic_spline_sample1d with the constant 0.66666666666667
#       rounded to double) against _cspline_sample1d on unit-impulse coefficient
#       arrays - sampling an impulse at k gives w * sum_{xx: mirror(xx)=k} B(x'-xx),
#       so basis, boundary conditions, neighbour choice and mirror map are all
#       observed.  Dyadic x; compared with Qeq_bool wherever every float
#       operation of the C is exact, and to 2^-51 where a division by 6.0, a sum
#       of two weights or the product with the weight w rounds.
#   (b) oracles on the implementation (TESTS, independent of Coq): interpolation
#       identity and scipy.ndimage.spline_filter for _cspline_transform;
#       grid-point reproduction for every mode; sampling anywhere vs an independent
#       restatement of the boundary rules (closed-form B-spline) and vs
#       scipy.ndimage.map_coordinates(prefilter=False, mode='mirror');
#       separability of 2d..4d sampling; coefficient-array layouts/dtypes.
# ---------------------------------------------------------------------------
import itertools
import math
import re
import subprocess
import sys
import time
from fractions import Fraction

import numpy as np

from ..kit import cq, cz, cnat, frac, REPO, VERIF

_SPL_HDR = ("From Coq Require Import List ZArith.\nRequire Import QArith Qabs.\nFrom NV.C16 Require Import SplineModel.\n")
_SPL_MODES = ("zero", "nearest", "reflect")
_SPL_MODENUM = {"zero": 0, "nearest": 1, "reflect": 2}
_SPL_TOL = 1e-10


def _spl_R():
    from nipy.algorithms.registration import _registration as R
    return R


# ------------------------------------------------------------------ independent restatement
def _spl_bclosed(d):
    """Cubic B-spline in closed (truncated-power) form - not the C's branch form."""
    a = np.abs(np.asarray(d, dtype=float))
    return (np.maximum(0.0, 2.0 - a) ** 3 - 4.0 * np.maximum(0.0, 1.0 - a) ** 3) / 6.0


def _spl_mirror_once(k, ddim):
    """Grid mirrored once on each side: valid for -ddim <= k <= 2*ddim."""
    if k < 0:
        return -k
    if k > ddim:
        return 2 * ddim - k
    return k


def _spl_ref_plan(x, n, mode):
    """Restated boundary rule for one axis of extent n: None (value is 0) or
    (x', w, nx) - clamped/kept coordinate, weight and first of the 4 neighbours.
    'zero': linear ramp to 0 within one voxel outside the grid, 0 beyond;
    'nearest': coordinate clamped to the grid; 'reflect': grid mirrored once on
    each side, 0 beyond; in every mode 0 if one of the four neighbours
    floor(x')-1..floor(x')+2 is outside the once-mirrored grid [-ddim, 2 ddim]."""
    ddim = n - 1
    w = 1.0
    if mode == "zero":
        if x < -1 or x > n:
            return None
        if x < 0:
            w, x = 1.0 + x, 0.0
        elif x > ddim:
            w, x = n - x, float(ddim)
    elif mode == "nearest":
        x = min(max(x, 0.0), float(ddim))
    else:
        if x < -ddim or x > 2 * ddim:
            return None
    nx = math.floor(x) - 1
    if nx < -ddim or nx + 3 > 2 * ddim:
        return None
    return x, w, nx


def _spl_ref_axis(x, n, mode):
    p = _spl_ref_plan(float(x), n, mode)
    if p is None:
        return None
    xp, w, nx = p
    pos = [_spl_mirror_once(nx + d, n - 1) for d in range(4)]
    wts = w * _spl_bclosed([xp - (nx + d) for d in range(4)])
    return pos, wts


def _spl_ref_sample(C, point, modes):
    """Reference value of the tensor-product spline with coefficients C at `point`."""
    sub = C
    axes = []
    for ax, (x, m) in enumerate(zip(point, modes)):
        r = _spl_ref_axis(x, C.shape[ax], m)
        if r is None:
            return 0.0
        axes.append(r)
    blk = C[np.ix_(*[a[0] for a in axes])].astype(float)
    for pos, wts in reversed(axes):
        blk = (blk * wts).sum(axis=-1)      # no BLAS: tiny arrays, and BLAS threads thrash on a loaded machine
    return float(blk)


def _spl_bgrid(c):
    """(c[k-1] + 4 c[k] + c[k+1]) / 6 along every axis, mirror boundaries
    (c[-1] = c[1], c[N] = c[N-2]; extent 1: the single value)."""
    out = np.asarray(c, dtype=float)
    for ax in range(out.ndim):
        n = out.shape[ax]
        if n == 1:
            continue
        idx = np.arange(n)
        lo = np.abs(idx - 1)
        hi = idx + 1
        hi[hi > n - 1] = 2 * (n - 1) - hi[hi > n - 1]
        out = (np.take(out, lo, axis=ax) + 4.0 * out + np.take(out, hi, axis=ax)) / 6.0
    return out


def _spl_layouts(a, rng):
    """Same values in different memory layouts: C, Fortran, transposed-copy view,
    positive non-unit strides, reversed (negative stride)."""
    outs = [("C", np.ascontiguousarray(a)), ("F", np.asfortranarray(a))]
    big = np.zeros([2 * s for s in a.shape], dtype=a.dtype)
    sl = tuple(slice(None, None, 2) for _ in a.shape)
    big[sl] = a
    outs.append(("step2", big[sl]))
    rev = np.ascontiguousarray(a[::-1])[::-1]
    outs.append(("reversed", rev))
    if a.ndim >= 2:
        t = np.ascontiguousarray(a.T).T
        outs.append(("transposed", t))
    return outs


def _spl_sample(R, C, pts, modes):
    """pts: (npts, ndim) float array -> values via _cspline_sample{ndim}d."""
    pts = np.asarray(pts, dtype=float)
    nd = C.ndim
    out = np.zeros(pts.shape[0])
    cols = [np.ascontiguousarray(pts[:, i]) for i in range(nd)]
    if nd == 1:
        R._cspline_sample1d(out, C, cols[0], mode=modes[0])
    elif nd == 2:
        R._cspline_sample2d(out, C, cols[0], cols[1], mx=modes[0], my=modes[1])
    elif nd == 3:
        R._cspline_sample3d(out, C, cols[0], cols[1], cols[2], mx=modes[0], my=modes[1], mz=modes[2])
    else:
        R._cspline_sample4d(out, C, cols[0], cols[1], cols[2], cols[3],
                            mx=modes[0], my=modes[1], mz=modes[2], mt=modes[3])
    return out


def _spl_region(x, n):
    if x < 0:
        return "x<0"
    if x > n - 1:
        return "x>last"
    if x == int(x):
        return "grid-point"
    return "inside"


# ------------------------------------------------------------------ (a) correspondence
def _spl_source_constant(ck):
    """The decimal literal used for 2/3 in cubic_spline_basis, parsed from the C."""
    src = (REPO / "nipy/algorithms/registration/cubic_spline.c").read_text()
    m = re.search(r"y\s*=\s*([0-9]*\.[0-9]+)\s*-\s*aux\s*\+\s*0\.5\s*\*\s*absx\s*\*\s*aux\s*;", src)
    m2 = re.search(r"y\s*=\s*aux\s*\*\s*aux\s*\*\s*aux\s*/\s*6\.0\s*;", src)
    if not m or not m2:
        ck.fail("spline/source-shape/cubic_spline_basis-not-recognised",
                "cubic_spline_basis in cubic_spline.c no longer has the two polynomial statements the Coq model "
                "(NV.C16.SplineModel.basis_core) was written from; the model must be re-derived",
                {"kind": "correspondence-broken", "file": "nipy/algorithms/registration/cubic_spline.c"},
                found_input=False)
        return None
    return m.group(1)


def _spl_exact_expected(x, n, mode, k):
    """Is every floating-point operation of cubic_spline_sample1d exact for the
    impulse at k?  (single neighbour hits k, weight w == 1, and the basis value is
    a dyadic rational: |d| < 1, |d| >= 2, or (2-|d|) = 3j/2^m so that /6.0 is exact)."""
    p = _spl_ref_plan(float(x), n, mode)
    if p is None:
        return True, "returns-0"
    xp, w, nx = p
    hits = [nx + d for d in range(4) if _spl_mirror_once(nx + d, n - 1) == k]
    if not hits:
        return True, "no-hit"
    if len(hits) > 1:
        return False, "two-neighbours-hit"
    if w != 1.0:
        return False, "weighted"
    ad = abs(Fraction(xp) - hits[0])
    if ad < 1:
        return True, "|d|<1"
    if ad >= 2:
        return True, "|d|>=2"
    if (2 - ad).numerator % 3 == 0:
        return True, "1<=|d|<2,exact-div"
    return False, "1<=|d|<2,rounded-div"


def _spl_correspondence(ck, R):
    lit = _spl_source_constant(ck)
    if not (ck.build is not None and ck.build.ok):
        ck.section("spline", model_cases="skipped: Coq build not ok")
        return
    terms, meta = [], []
    if lit is not None:
        terms.append("Qeq_bool c23_literal %s" % cq(Fraction(lit)))
        meta.append(("const", "literal", lit))
        terms.append("Qeq_bool c23_double %s" % cq(float(lit)))
        meta.append(("const", "double", lit))
    ns = ck.n([1, 2, 3, 4, 6], [1, 2, 3, 4, 5, 6, 7, 9])
    den = ck.n(8, 16)
    nexact = nclose = 0
    for n in ns:
        lo, hi = -(n + 1), 2 * n + 1
        xs = set(Fraction(j, den) for j in range(lo * den, hi * den + 1))
        # offsets that make the outer-branch division by 6.0 exact: 2-|d| = 3j/16
        for k in range(n):
            for j in range(1, 6):
                for sgn in (1, -1):
                    xs.add(Fraction(k) + sgn * (2 - Fraction(3 * j, 16)))
        xs = sorted(x for x in xs if lo <= x <= hi)
        xf = np.array([float(x) for x in xs])
        for mode in _SPL_MODES:
            resp = np.zeros((n, len(xs)))
            for k in range(n):
                imp = np.zeros(n)
                imp[k] = 1.0
                out = np.zeros(len(xs))
                R._cspline_sample1d(out, imp, xf, mode=mode)
                resp[k] = out
            for i, x in enumerate(xs):
                for k in range(n):
                    v = float(resp[k, i])
                    exact, why = _spl_exact_expected(x, n, mode, k)
                    model = "sample1d_fp %s %s (impulse %s %s)" % (cz(_SPL_MODENUM[mode]), cq(x), cnat(n), cnat(k))
                    if exact:
                        terms.append("Qeq_bool (%s) %s" % (model, cq(v)))
                        nexact += 1
                    else:
                        terms.append("Qle_bool (Qabs (%s - %s)) (1 # 2251799813685248)" % (model, cq(v)))
                        nclose += 1
                    meta.append(("case", n, mode, x, k, v, exact, why))
                    ck.count(("spl-imp", n, mode, x, k), nontrivial=v != 0.0,
                             bucket="spline:impulse:%s:%s" % (mode, _spl_region(x, n)))
    t0 = time.time()
    res = ck.coq_bools(_SPL_HDR, terms, shard=400, name="spline")
    ck.cov["traces_validated_against_impl"] += len(res)
    shown = set()
    for ok, m in zip(res, meta):
        if ok:
            continue
        if m[0] == "const":
            ck.fail("spline/source-constant/%s" % m[1],
                    "the constant %s in cubic_spline_basis differs from NV.C16.SplineModel.c23_%s" % (m[2], m[1]),
                    {"kind": "correspondence-broken", "source_literal": m[2]}, found_input=False)
            continue
        _, n, mode, x, k, v, exact, why = m
        sig = "spline/model-vs-impl/mode=%s,%s,%s" % (mode, _spl_region(x, n), why)
        if sig in shown:            # one printed model value (one coqc run) per signature
            ck.fail(sig, "", {})
            continue
        shown.add(sig)
        mv = ck.coq_show(_SPL_HDR, "Qred (sample1d_fp %s %s (impulse %s %s))" % (
            cz(_SPL_MODENUM[mode]), cq(x), cnat(n), cnat(k)))
        ck.fail(sig,
                "_cspline_sample1d on the unit impulse at %d of a length-%d coefficient array, x=%s, mode=%s returns %r; "
                "the Coq model sample1d_fp gives %s (%s comparison)" % (k, n, x, mode, v, mv,
                                                                       "exact" if exact else "2^-51"),
                {"call": "_cspline_sample1d(np.zeros(1), impulse, [x], mode=mode)", "n": n, "impulse_at": k,
                 "x": float(x), "mode": mode, "impl": v, "model": mv})
    ck.section("spline", model_cases=len(terms), model_cases_exact=nexact, model_cases_2pow_minus51=nclose,
               impulse_extents=ns, x_step="1/%d" % den, coq_eval_s=round(time.time() - t0, 1))
    ck.sample({"spline_case": "sample1d(impulse(5,2), x=2.5, 'zero')",
               "impl": float(R._cspline_sample1d(np.zeros(1), np.eye(5)[2].copy(), [2.5], mode="zero")[0])})


# ------------------------------------------------------------------ (b) oracles
def _spl_shapes(ck, rng):
    shapes = [(n,) for n in range(1, 8)]
    ext2 = [1, 2, 3, 5, 7]
    shapes += list(itertools.product(ext2, ext2)) if ck.thorough() else \
        [(1, 1), (1, 4), (2, 2), (2, 5), (3, 3), (3, 7), (5, 2), (7, 1), (4, 6), (7, 7)]
    n3 = ck.n(8, 60)
    n4 = ck.n(4, 30)
    fixed3 = [(1, 1, 1), (2, 2, 2), (3, 3, 3), (1, 3, 2), (4, 5, 3), (7, 3, 4)]
    fixed4 = [(1, 1, 1, 1), (2, 2, 2, 2), (3, 3, 3, 3), (3, 1, 4, 2)]
    shapes += fixed3[:n3] + [tuple(int(v) for v in rng.integers(1, 8, 3)) for _ in range(max(0, n3 - len(fixed3)))]
    shapes += fixed4[:n4] + [tuple(int(v) for v in rng.integers(1, 6, 4)) for _ in range(max(0, n4 - len(fixed4)))]
    return shapes


def _spl_grid_feature(shape, pt, modes):
    if 1 in shape:
        return "extent=1"
    for ax, n in enumerate(shape):
        if n == 2 and pt[ax] == 1:
            return "extent=2,last-grid-point"
    where = "interior"
    for ax, n in enumerate(shape):
        if pt[ax] == 0:
            where = "first-grid-point"
        elif pt[ax] == n - 1:
            where = "last-grid-point"
    ms = modes[0] if len(set(modes)) == 1 else "mixed"
    return "extent>=%d,mode=%s,%s" % (min(3, min(shape)), ms, where)


def _spl_transform_oracle(ck, R, rng):
    import scipy.ndimage as ndi
    ncase = 0
    for shape in _spl_shapes(ck, rng):
        s = rng.integers(-50, 51, size=shape).astype(float)
        nd = len(shape)
        ref = ndi.spline_filter(s, order=3, mode="mirror", output=np.float64)
        for lname, sv in _spl_layouts(s, rng):
            for dt in ((np.float64, np.int32) if lname == "C" else (np.float64,)):
                src = sv.astype(dt) if dt is not np.float64 else sv
                c = R._cspline_transform(src)
                ncase += 1
                ck.count(("spl-tr", shape, lname, str(dt), s.tobytes()), nontrivial=s.size > 1,
                         bucket="spline:transform:%dd:%s" % (nd, lname))
                rep = {"call": "_cspline_transform(s)", "shape": list(shape), "layout": lname,
                       "dtype": np.dtype(dt).name, "s": s.tolist()}
                feat = "%dd,%s,extent%s" % (nd, lname, "=1" if max(shape) == 1 else ("=2" if max(shape) == 2 else ">=3"))
                if c.shape != s.shape or c.dtype != np.float64:
                    ck.fail("spline/transform-shape/" + feat, "result has shape %s dtype %s" % (c.shape, c.dtype), rep)
                    continue
                back = _spl_bgrid(c)
                if not np.allclose(back, s, rtol=0, atol=_SPL_TOL):
                    bad = np.unravel_index(np.argmax(np.abs(back - s)), s.shape)
                    rep.update(c=c.tolist(), index=[int(b) for b in bad], identity_value=float(back[bad]))
                    ck.fail("spline/transform-interpolation-identity/" + feat,
                            "(c[k-1]+4c[k]+c[k+1])/6 (mirror boundaries, every axis) = %r at %s but the sample is %r"
                            % (float(back[bad]), bad, float(s[bad])), rep)
                elif not np.allclose(c, ref, rtol=0, atol=_SPL_TOL * max(1.0, float(np.max(np.abs(ref))))):
                    # relative to the coefficient scale: the C's pole constants carry 14 digits
                    rep.update(c=c.tolist(), scipy=ref.tolist())
                    ck.fail("spline/transform-vs-scipy/" + feat,
                            "differs from scipy.ndimage.spline_filter(order=3, mode='mirror') by %g"
                            % float(np.max(np.abs(c - ref))), rep)
    return ncase


def _spl_grid_oracle(ck, R, rng):
    """Sampling the coefficients of s at every grid point gives back s, in every mode."""
    ncase = 0
    for shape in _spl_shapes(ck, rng):
        nd = len(shape)
        s = rng.integers(-50, 51, size=shape).astype(float)
        c = R._cspline_transform(s)
        pts = np.array(list(itertools.product(*[range(n) for n in shape])), dtype=float)
        modesets = [(m,) * nd for m in _SPL_MODES]
        if nd > 1:
            modesets.append(tuple(_SPL_MODES[int(i)] for i in rng.integers(0, 3, nd)))
        for lname, cv in _spl_layouts(c, rng):
            if lname == "reversed":
                continue        # negative strides: handled in a child process (_spl_layout_child)
            for modes in modesets:
                got = _spl_sample(R, cv, pts, modes)
                ncase += len(pts)
                ck.count(("spl-grid", shape, lname, modes, s.tobytes()), nontrivial=s.size > 1,
                         bucket="spline:grid-points:%dd:%s" % (nd, modes[0] if len(set(modes)) == 1 else "mixed"))
                err = np.abs(got - s.reshape(-1))
                for i in np.nonzero(err > _SPL_TOL)[0]:
                    pt = [int(v) for v in pts[i]]
                    ck.fail("spline/grid-reproduction/" + _spl_grid_feature(shape, pt, modes),
                            "sampling the spline coefficients of s at grid point %s (modes %s, %s layout) gives %r, "
                            "the sample there is %r" % (pt, modes, lname, float(got[i]), float(s.reshape(-1)[i])),
                            {"call": "c=_cspline_transform(s); _cspline_sample%dd(R, c, *point, modes)" % nd,
                             "shape": list(shape), "s": s.tolist(), "point": pt, "modes": list(modes),
                             "layout": lname, "got": float(got[i]), "expected": float(s.reshape(-1)[i])})
    return ncase


def _spl_points(rng, shape, npts):
    """Sample coordinates: dyadic and generic, inside, near and beyond the mirrored grid."""
    cols = []
    for n in shape:
        lo, hi = -(n + 1.5), 2 * n + 1.5
        a = rng.integers(int(lo * 8), int(hi * 8) + 1, npts) / 8.0
        b = rng.uniform(lo, hi, npts)
        inside = rng.uniform(0, max(n - 1, 0), npts)
        pick = rng.integers(0, 3, npts)
        cols.append(np.where(pick == 0, a, np.where(pick == 1, b, inside)))
    return np.stack(cols, axis=1)


def _spl_anywhere_oracle(ck, R, rng):
    import scipy.ndimage as ndi
    ncase = 0
    npts = ck.n(60, 400)
    for shape in _spl_shapes(ck, rng):
        nd = len(shape)
        C = rng.integers(-20, 21, size=shape).astype(float)
        pts = _spl_points(rng, shape, npts)
        if nd == 1:        # boundary-rule corner coordinates
            n = shape[0]
            extra = [-n, -n + 1, -n + 0.5, -1.0, -0.5, 0.0, n - 1.0, n - 0.5, float(n), n + 0.5,
                     2.0 * n - 3, 2.0 * n - 2.5, 2.0 * n - 2, -1.5, n - 1 + 1e-9, -1e-9]
            pts = np.concatenate([pts, np.array(extra, dtype=float)[:, None]])
        modesets = [(m,) * nd for m in _SPL_MODES]
        if nd > 1:
            modesets += [tuple(_SPL_MODES[int(i)] for i in rng.integers(0, 3, nd)) for _ in range(2)]
        layouts = [l for l in _spl_layouts(C, rng) if l[0] != "reversed"]
        for modes in modesets:
            ref = np.array([_spl_ref_sample(C, p, modes) for p in pts])
            # second opinion where the rule does not return 0: scipy evaluates the mirror spline at (x')
            sp = np.full(len(pts), np.nan)
            if min(shape) >= 2:
                plans = [[_spl_ref_plan(float(p[a]), shape[a], modes[a]) for a in range(nd)] for p in pts]
                okrows = [i for i, pl in enumerate(plans) if all(q is not None for q in pl)]
                if okrows:
                    xs = np.array([[plans[i][a][0] for a in range(nd)] for i in okrows]).T
                    wt = np.array([np.prod([plans[i][a][1] for a in range(nd)]) for i in okrows])
                    sp[okrows] = wt * ndi.map_coordinates(C, xs, order=3, mode="mirror", prefilter=False)
            for lname, cv in layouts:
                got = _spl_sample(R, cv, pts, modes)
                ncase += len(pts)
                ck.count(("spl-any", shape, lname, modes, C.tobytes()), nontrivial=True,
                         bucket="spline:anywhere:%dd:%s" % (nd, modes[0] if len(set(modes)) == 1 else "mixed"))
                scale = 1.0 + np.abs(ref)
                for which, r in (("restated-rule", ref), ("scipy-map_coordinates-mirror", sp)):
                    bad = np.nonzero(np.abs(got - r) > _SPL_TOL * scale)[0]      # NaN (no scipy opinion) never fails
                    for i in bad[:3]:
                        p = pts[i]
                        ax = int(np.argmax([0 if 0 <= p[a] <= shape[a] - 1 else 1 for a in range(nd)]))
                        feat = "mode=%s,%s,extent%s" % (modes[ax], _spl_region(p[ax], shape[ax]),
                                                        "=%d" % min(shape) if min(shape) < 3 else ">=3")
                        ck.fail("spline/sample-vs-%s/%s" % (which, feat),
                                "_cspline_sample%dd at %s (modes %s, %s layout) = %r; %s gives %r"
                                % (nd, p.tolist(), modes, lname, float(got[i]), which, float(r[i])),
                                {"call": "_cspline_sample%dd(R, C, *point, modes)" % nd, "C": C.tolist(),
                                 "point": p.tolist(), "modes": list(modes), "layout": lname,
                                 "got": float(got[i]), "expected": float(r[i])})
        # separability: outer-product coefficients sample to the product of 1d samples
        if nd > 1:
            vecs = [rng.integers(-9, 10, n).astype(float) for n in shape]
            Cs = vecs[0]
            for v in vecs[1:]:
                Cs = np.multiply.outer(Cs, v)
            modes = tuple(_SPL_MODES[int(i)] for i in rng.permutation(3)[:nd]) if nd <= 3 else \
                tuple(_SPL_MODES[int(i)] for i in list(rng.permutation(3)) + [int(rng.integers(0, 3))])
            got = _spl_sample(R, Cs, pts, modes)
            prod = np.ones(len(pts))
            for a in range(nd):
                prod = prod * _spl_sample(R, vecs[a], pts[:, a:a + 1], (modes[a],))
            ncase += len(pts)
            ck.count(("spl-sep", shape, modes, Cs.tobytes()), bucket="spline:separable:%dd" % nd)
            bad = np.nonzero(np.abs(got - prod) > _SPL_TOL * (1 + np.abs(prod)))[0]
            for i in bad[:1]:
                ck.fail("spline/sample-separability/%dd" % nd,
                        "_cspline_sample%dd on an outer-product coefficient array at %s with modes %s = %r, "
                        "product of the 1d samples = %r" % (nd, pts[i].tolist(), modes, float(got[i]), float(prod[i])),
                        {"vectors": [v.tolist() for v in vecs], "point": pts[i].tolist(), "modes": list(modes),
                         "got": float(got[i]), "expected": float(prod[i])})
    return ncase


_SPL_CHILD = r'''
import sys, json
sys.path.insert(0, %(verif)r)
from harness import overlay as ov
ov.install(ov.build(want_cstat=True))      # same cache key as the parent's ck.overlay(cstat=True): cached, never a pruned path
import numpy as np
from nipy.algorithms.registration import _registration as R
kind = sys.argv[1]
s = (np.arange(1, 7, dtype=float) ** 2)
c = R._cspline_transform(s)
x = np.arange(6, dtype=float)
out = np.zeros(6)
if kind == "negative-stride":
    cv = np.ascontiguousarray(c[::-1])[::-1]
elif kind == "int64":
    c = np.array([0, 6, 12, 18, 24, 30], dtype=np.int64); cv = c
elif kind == "float32":
    cv = c.astype(np.float32); c = cv.astype(float)
try:
    R._cspline_sample1d(out, cv, x, mode="nearest")
    exp = np.zeros(6); R._cspline_sample1d(exp, np.ascontiguousarray(cv, dtype=float), x, mode="nearest")
    print(json.dumps({"got": out.tolist(), "expected": exp.tolist()}))
except (TypeError, ValueError) as e:
    print(json.dumps({"raised": type(e).__name__}))
'''


def _spl_layout_child(ck):
    """Coefficient arrays the wrapper accepts but the C reads through
    `unsigned int offset = stride/sizeof(double)` and an unchecked double* cast:
    negative strides and non-double dtypes.  Run in a child process (a wrong
    offset reads outside the array)."""
    kinds = ["negative-stride", "int64", "float32"]
    for kind in kinds:
        code = _SPL_CHILD % {"verif": str(VERIF), "ovdir": str(ck.ov["dir"])}
        try:
            r = subprocess.run([sys.executable, "-c", code, kind], capture_output=True, text=True, timeout=120)
        except subprocess.TimeoutExpired:
            ck.fail("spline/sample-coefficient-layout/%s,timeout" % kind, "child process timed out", {"kind": kind})
            continue
        ck.count(("spl-child", kind), bucket="spline:coefficient-layout:%s" % kind)
        rep = {"call": "_cspline_sample1d(np.zeros(6), C, np.arange(6.), mode='nearest')",
               "C": {"negative-stride": "np.ascontiguousarray(c[::-1])[::-1] with c=_cspline_transform(np.arange(1,7.)**2)",
                     "int64": "np.array([0,6,12,18,24,30], dtype=np.int64)",
                     "float32": "_cspline_transform(np.arange(1,7.)**2).astype(np.float32)"}[kind]}
        if r.returncode != 0 and ("ModuleNotFoundError" in r.stderr or "ImportError" in r.stderr or "OSError" in r.stderr
                                  or "RuntimeError" in r.stderr):
            ck.note("spline: child process could not start (%s); nothing concluded" % r.stderr.strip()[-120:])
            continue
        if r.returncode != 0:
            rep["returncode"] = r.returncode
            rep["stderr_tail"] = r.stderr[-400:]
            ck.fail("spline/sample-coefficient-layout/%s,crash" % kind,
                    "sampling a %s coefficient array kills the interpreter (exit status %d)" % (kind, r.returncode), rep)
            continue
        import json
        res = json.loads(r.stdout.strip().splitlines()[-1])
        if "raised" in res:
            continue        # rejected with a Python exception: acceptable
        if not np.allclose(res["got"], res["expected"], rtol=0, atol=_SPL_TOL):
            rep.update(res)
            ck.fail("spline/sample-coefficient-layout/non-double-dtype,wrong-values" if kind != "negative-stride"
                    else "spline/sample-coefficient-layout/negative-stride,wrong-values",
                    "sampling a %s coefficient array returns %s; the same values as a contiguous double array give %s"
                    % (kind, res["got"], res["expected"]), rep)


_SPL_GUARD_CHILD = r"""
import sys, json
sys.path.insert(0, %(verif)r)
from harness import overlay as ov
ov.install(ov.build(want_cstat=True))
import numpy as np
from nipy.algorithms.registration import _registration as R
def say(**kw):
    print(json.dumps(kw)); sys.stdout.flush()
for n in range(1, 8):
    say(call="_cspline_transform", n=n)
    R._cspline_transform(np.arange(n, dtype=float) ** 2)
say(call="_cspline_transform", shape=[3, 1, 4, 2])
R._cspline_transform(np.arange(24, dtype=float).reshape(3, 1, 4, 2))
for n in range(1, 8):
    for mode in ("zero", "nearest", "reflect"):
        for j in range(-2 * (n + 1), 2 * (2 * n + 1) + 1):
            x = j / 2.0
            say(call="_cspline_sample1d", n=n, mode=mode, x=x)
            for k in range(n):
                c = np.zeros(n); c[k] = 1.0
                R._cspline_sample1d(np.zeros(1), c, [x], mode=mode)
for shape in ((2, 3), (3, 1, 4), (2, 3, 2, 3)):
    C = np.arange(float(np.prod(shape))).reshape(shape)
    for mode in ("zero", "nearest", "reflect"):
        for x in (-1.5, -0.5, 0.0, 0.5, 1.0, 1.5, 2.0, 2.5, 3.5, 4.5):
            say(call="_cspline_sample%%dd" %% len(shape), shape=list(shape), mode=mode, x=x)
            f = getattr(R, "_cspline_sample%%dd" %% len(shape))
            f(np.zeros(1), C, *([[x]] * len(shape)), **{"m" + a: mode for a in "xyzt"[:len(shape)]})
say(done=True)
"""


def _spl_guard(ck):
    """Smoke-run the sampling/transform entry points in a child process first: an
    out-of-range coefficient index kills the interpreter, and must be reported with
    the offending input instead of taking the check down.  Returns True if safe."""
    import json
    code = _SPL_GUARD_CHILD % {"verif": str(VERIF), "ovdir": str(ck.ov["dir"])}
    try:
        r = subprocess.run([sys.executable, "-c", code], capture_output=True, text=True, timeout=300)
    except subprocess.TimeoutExpired:
        ck.fail("spline/guard/timeout", "the sampling smoke run did not finish in 300 s", {"kind": "hang"})
        return False
    lines = [l for l in r.stdout.strip().splitlines() if l.startswith("{")]
    last = json.loads(lines[-1]) if lines else {}
    ck.count(("spl-guard", len(lines)), bucket="spline:guard-child")
    if r.returncode == 0 and last.get("done"):
        return True
    if not lines and ("ModuleNotFoundError" in r.stderr or "ImportError" in r.stderr or "OSError" in r.stderr
                      or "RuntimeError" in r.stderr):
        ck.note("spline: guard child could not start (%s); in-process checks run unguarded" % r.stderr.strip()[-120:])
        return True
    feat = "%s,mode=%s,%s" % (last.get("call", "?"), last.get("mode", "-"),
                              _spl_region(last["x"], last["n"]) if "x" in last and "n" in last else "nd")
    last["returncode"] = r.returncode
    last["stderr_tail"] = r.stderr[-300:]
    last["note"] = "unit-impulse coefficient arrays of length n (1d) / np.arange arrays (nd); see _SPL_GUARD_CHILD"
    ck.fail("spline/crash/" + feat, "the interpreter dies (exit status %s) in %s" % (r.returncode, json.dumps(last)[:300]), last)
    return False


def spline(ck):
    t0 = time.time()
    R = _spl_R()
    rng = ck.rng("spline")
    if not _spl_guard(ck):
        ck.section("spline", skipped="in-process sampling checks skipped: the smoke run in a child process crashed")
        return
    _spl_correspondence(ck, R)
    t1 = time.time()
    n_tr = _spl_transform_oracle(ck, R, ck.rng("spline-transform"))
    n_gr = _spl_grid_oracle(ck, R, ck.rng("spline-grid"))
    n_any = _spl_anywhere_oracle(ck, R, ck.rng("spline-anywhere"))
    _spl_layout_child(ck)
    ck.section("spline", transform_arrays=n_tr, grid_point_samples=n_gr, anywhere_samples=n_any,
               tolerance=_SPL_TOL, correspondence_s=round(t1 - t0, 1), oracles_s=round(time.time() - t1, 1),
               scipy_semantics="map_coordinates(C, x', order=3, mode='mirror', prefilter=False) times the mode weight w "
                               "coincides with all three nipy modes wherever the nipy rule does not return 0: "
                               "'reflect' = scipy 'mirror' on the once-mirrored grid, 'nearest'/'zero' = the same "
                               "evaluated at the clamped coordinate (times the linear ramp for 'zero'); "
                               "spline_filter(order=3, mode='mirror') = _cspline_transform")
    ck.trust.append("spline: scipy.ndimage.spline_filter / map_coordinates and the closed-form B-spline restatement "
                    "are test oracles (1e-10); the recursion of _cubic_spline_transform1d is tested, not proved")


# ====================================================================== oracles (tests)
# ---------------------------------------------------------------------------
# C16 section "oracles": TESTS (no theorem behind them) of compiled kernels
# against NumPy/SciPy definitions.  Paste into harness/props/c16.py.
# Assumes ck.overlay(cstat=True) already ran (ck.ov["cstat"] = libcstat.so built
# from /repo's current lib/fff + lapack_lite).
#   histogram                 rebuilt module       vs np.bincount (exact)
#   labs.utils.routines       INSTALLED (stale)    vs numpy/scipy (1e-10)
#   fff_gamln / fff_psi       current C, ctypes    vs scipy.special (1e-10 relative)
#   fff_permutation/_combination  current C, ctypes: valid + pairwise distinct (exhaustive)
#   labs.bindings wrapper/array/linalg  rebuilt    vs numpy, exact on small integers
#   fff_lapack_dgesdd / fff_mahalanobis current C, ctypes  vs numpy (1e-10)
# ---------------------------------------------------------------------------
import ctypes
import itertools
import math
import time

import numpy as np

_ORC_TOL = 1e-10
_ORC_DTYPES = [np.uint8, np.int8, np.uint16, np.int16, np.uint32, np.int32, np.uint64, np.int64,
               np.float32, np.float64]
_ORC_CNAMES = {np.uint8: "unsigned char", np.int8: "signed char", np.uint16: "unsigned short",
               np.int16: "signed short", np.uint32: "unsigned int", np.int32: "int",
               np.uint64: "unsigned long", np.int64: "long", np.float32: "float", np.float64: "double"}


def _orc_close(a, b, tol=_ORC_TOL):
    a = np.asarray(a, dtype=float)
    b = np.asarray(b, dtype=float)
    if a.shape != b.shape:
        return False
    return bool(np.all(np.abs(a - b) <= tol * np.maximum(1.0, np.abs(b)) + 0.0) or
                np.array_equal(a, b))


_ORC_QSIG = "oracle/fff_vector.quantile/"


def _orc_qsig(n, r, interp):
    """One signature per cause for every wrapper of fff_vector_quantile/median
    (routines.quantile/median, linalg.vector_quantile/median, the C through ctypes):
    interpolated case whose interval is the LAST pair of order statistics
    (p = floor(r(n-1)) = n-2 with a fractional part) vs anything else."""
    if not interp:
        return _ORC_QSIG + ("noninterp,r=1" if r == 1.0 else "noninterp")
    pp = r * (n - 1)
    p = math.floor(pp)
    if n >= 2 and pp - p > 0 and p == n - 2:
        return _ORC_QSIG + "interp/last-interval(p=n-2)"
    return _ORC_QSIG + ("interp/p<n-2" if pp - p > 0 else "interp/integer-rank")


def _orc_views(a):
    """Same values, different memory layouts (name, array)."""
    outs = [("C", np.array(a, order="C", copy=True))]
    if a.ndim >= 2:
        outs.append(("F", np.array(a, order="F", copy=True)))
        outs.append(("transposed", np.ascontiguousarray(a.T).T))
    big = np.zeros([2 * s + 1 for s in a.shape], dtype=a.dtype)
    sl = tuple(slice(1, None, 2) for _ in a.shape)
    big[sl] = a
    outs.append(("step2", big[sl]))
    if a.size:
        outs.append(("reversed", np.ascontiguousarray(a[::-1])[::-1]))
    return outs


def _orc_call(ck, sig, what, rep, f, *args, **kw):
    """Call f; an exception is reported under `sig`/raises and returns None."""
    try:
        return f(*args, **kw)
    except Exception as e:      # noqa
        rep = dict(rep)
        rep["exception"] = "%s: %s" % (type(e).__name__, e)
        ck.fail(sig + ",raises", "%s raised %s: %s" % (what, type(e).__name__, e), rep)
        return None


# ------------------------------------------------------------------ histogram
def _orc_histogram(ck, rng):
    from nipy.algorithms.statistics.histogram import histogram
    n = 0
    cases = []
    for shape in [(1,), (2,), (7,), (50,), (3, 4), (1, 5), (5, 1), (2, 3, 4), (4, 1, 3)]:
        for top in (0, 1, 5, 255, 1000):
            x = rng.integers(0, top + 1, size=shape).astype(np.uintp)
            cases.append(("random", x))
            for where in ("first", "last", "middle"):
                y = rng.integers(0, max(top, 1), size=shape).astype(np.uintp)
                flat = y.reshape(-1)
                flat[{"first": 0, "last": -1, "middle": flat.size // 2}[where]] = top + 3
                cases.append(("max-at-" + where, flat.reshape(shape)))
    for kind, x in cases:
        for lname, xv in _orc_views(x):
            rep = {"call": "histogram(x)", "x": x.tolist(), "layout": lname, "dtype": str(x.dtype)}
            h = _orc_call(ck, "oracle/statistics.histogram/%dd,%s" % (x.ndim, lname), "histogram", rep, histogram, xv)
            n += 1
            ck.count(("hist", kind, lname, x.shape, x.tobytes()), bucket="oracle:histogram:%dd:%s" % (x.ndim, lname))
            if h is None:
                continue
            ref = np.bincount(x.reshape(-1).astype(np.int64))
            if h.dtype != np.uintp or h.shape != ref.shape or not np.array_equal(h, ref):
                rep.update(got=np.asarray(h).tolist(), expected=ref.tolist())
                ck.fail("oracle/statistics.histogram/%dd,%s,%s" % (x.ndim, lname, kind),
                        "histogram differs from np.bincount of the flattened array", rep)
    # dtypes: only uintp is documented as accepted; everything else must raise ValueError
    for dt in (np.uint8, np.uint16, np.uint32, np.int64, np.int32, np.float64):
        if np.dtype(dt) == np.dtype(np.uintp):
            continue
        x = np.array([0, 2, 1, 2], dtype=dt)
        n += 1
        ck.count(("hist-dtype", str(dt)), bucket="oracle:histogram:dtype-rejected")
        try:
            h = histogram(x)
            if not np.array_equal(h, np.bincount(x.astype(np.int64))):
                ck.fail("oracle/statistics.histogram/dtype-not-uintp-accepted-wrong",
                        "histogram accepted dtype %s and returned %s" % (np.dtype(dt), np.asarray(h).tolist()),
                        {"x": x.tolist(), "dtype": str(np.dtype(dt))})
        except ValueError:
            pass
    # empty input: numpy's max() raises ValueError (accepted: rejected with an exception); otherwise must be []
    try:
        h = histogram(np.zeros(0, dtype=np.uintp))
        if len(h) != 0 and np.any(h):
            ck.fail("oracle/statistics.histogram/empty", "histogram of an empty array is %s" % h.tolist(), {"x": []})
    except ValueError:
        pass
    return n


# ------------------------------------------------------------------ routines (installed, stale)
class _OrcInstalledProxy:
    """`nipy.labs.utils.routines` is the INSTALLED (stale) binary: its failures say nothing about /repo's
    current C, so they get their own signature namespace and cannot mask or unmask a /repo defect."""

    def __init__(self, ck):
        self._ck = ck

    def __getattr__(self, name):
        return getattr(self._ck, name)

    def fail(self, signature, what, replay, found_input=True):
        return self._ck.fail("installed-routines:" + signature, "[installed nipy.labs.utils.routines binary] " + what,
                             replay, found_input)


def _orc_routines(ck, rng):
    ck = _OrcInstalledProxy(ck)
    import scipy.special as sp
    from nipy.labs.utils import routines as rt
    ck.note("oracles: nipy.labs.utils.routines is the INSTALLED binary (routines.pyx cannot be re-cythonised here: "
            "freshness %s); its results say nothing about /repo's current C - the current fff C is tested through "
            "ctypes on libcstat.so" % ck.freshness.get("nipy.labs.utils.routines"))
    n = 0
    # quantile / median along every axis
    for shape in [(1,), (2,), (5,), (8,), (3, 4), (4, 1), (2, 3, 5), (3, 2, 2, 4)]:
        x = rng.integers(-9, 10, size=shape).astype(float)
        for axis in range(len(shape)):
            for lname, xv in _orc_views(x):
                nn = shape[axis]
                for r in (0.0, 0.125, 0.25, 0.5, 0.75, 1.0):
                    for interp in (0, 1):
                        rep = {"call": "routines.quantile(x, r, interp, axis)", "x": x.tolist(), "r": r,
                               "interp": interp, "axis": axis, "layout": lname}
                        sig = _orc_qsig(nn, r, interp)
                        q = _orc_call(ck, sig, "quantile", rep, rt.quantile, xv.copy() if lname == "C" else xv, r,
                                      interp=interp, axis=axis)
                        n += 1
                        ck.count(("rt-q", shape, axis, lname, r, interp, x.tobytes()),
                                 bucket="oracle:routines.quantile:%s" % lname)
                        if q is None:
                            continue
                        srt = np.sort(x, axis=axis)
                        if interp:
                            ref = np.quantile(x, r, axis=axis, keepdims=True)
                        elif nn == 1:
                            ref = srt
                        else:
                            p = math.ceil(r * nn)
                            ref = np.full([1 if a == axis else s for a, s in enumerate(shape)], np.inf) if p == nn \
                                else np.take(srt, [p], axis=axis)
                        if not _orc_close(q, ref):
                            rep.update(got=np.asarray(q).tolist(), expected=np.asarray(ref).tolist())
                            ck.fail(sig, "routines.quantile differs from the sorted-sample definition", rep)
                msig = _orc_qsig(shape[axis], 0.5, 1) if shape[axis] % 2 == 0 else _ORC_QSIG + "median-odd"
                m = _orc_call(ck, msig, "median", {"x": x.tolist(), "axis": axis}, rt.median, xv, axis=axis)
                if m is not None and not _orc_close(m, np.median(x, axis=axis, keepdims=True)):
                    ck.fail(msig, "routines.median differs from np.median",
                            {"x": x.tolist(), "axis": axis, "layout": lname, "got": np.asarray(m).tolist()})
    # mahalanobis, svd
    for d, K in [(1, 1), (2, 3), (3, 4), (5, 2)]:
        A = rng.integers(-3, 4, size=(d, d, K)).astype(float)
        V = np.einsum("ijk,ljk->ilk", A, A) + np.eye(d)[:, :, None]
        X = rng.integers(-5, 6, size=(d, K)).astype(float)
        ref = np.array([X[:, k] @ np.linalg.solve(V[:, :, k], X[:, k]) for k in range(K)])
        for lname, Xv in _orc_views(X):
            d2 = _orc_call(ck, "oracle/routines.mahalanobis/d=%d" % d, "mahalanobis", {"X": X.tolist(), "VX": V.tolist()},
                           rt.mahalanobis, Xv, V)
            n += 1
            ck.count(("rt-mah", d, K, lname, X.tobytes()), bucket="oracle:routines.mahalanobis")
            if d2 is not None and not _orc_close(d2, ref):
                ck.fail("oracle/routines.mahalanobis/d=%d" % d, "differs from x' inv(V) x (%s layout)" % lname,
                        {"X": X.tolist(), "VX": V.tolist(), "got": np.asarray(d2).tolist(), "expected": ref.tolist()})
    jobs = []
    for m_, n_, K in [(1, 1, 1), (2, 3, 2), (3, 2, 2), (4, 4, 3), (5, 2, 1), (2, 6, 2)]:
        X = rng.integers(-5, 6, size=(m_, n_, K)).astype(float)
        jobs.append(("routines", X))
        ck.count(("rt-svd", m_, n_, K, X.tobytes()), bucket="oracle:routines.svd")
    n += len(jobs)
    _orc_svd_children(ck, jobs, "oracle/routines.svd")
    for x in _orc_specfun_grid(ck):
        for name, f, g in (("gamln", rt.gamln, sp.gammaln), ("psi", rt.psi, sp.digamma)):
            v, ref = f(float(x)), float(g(x))
            n += 1
            ck.count(("rt-" + name, float(x)), bucket="oracle:routines." + name)
            err = abs(v - ref) / max(1.0, abs(ref))
            if not err <= _ORC_TOL:
                sig = (_orc_psi_sig(err) if name == "psi" else None) or "oracle/fff_specfun.fff_%s/rel-error>3e-10/%s" % (name, _orc_xclass(x))
                ck.fail(sig, "routines.%s(%r) = %r, scipy gives %r (error %.3g relative to max(1, |ref|))" % (name, x, v, ref, err),
                        {"x": float(x), "got": v, "expected": ref, "rel_error": err})
    return n


def _orc_specfun_grid(ck):
    """the FULL argument range of the special functions: a log grid from 1e-8 to 1e3 (12 points per decade quick,
    100 thorough) + landmarks (branch thresholds of fff_psi: 1e-5, 8.5; the root of psi; integers) + a linear grid"""
    xs = [1e-8, 1e-6, 1e-5, 1.0000001e-5, 1e-4, 1e-3, 0.01, 0.05, 0.1, 0.25, 0.5, 0.75, 0.9, 1.0, 1.25, 1.4616321449683623, 1.5,
          2.0, 2.5, 3.0, 4.0, 5.5, 6.9, 7.0, 7.1, 8.0, 8.5, 8.500001, 10.0, 12.5, 20.0, 50.0, 100.0, 171.5, 1e3, 1e4, 1e6, 1e8]
    xs += [float(v) for v in np.logspace(-8, 3, 11 * ck.n(12, 100) + 1)]
    if ck.thorough():
        xs += list(np.linspace(0.01, 30, 1500)) + list(np.logspace(3, 8, 100))
    else:
        xs += list(np.linspace(0.05, 15, 150))
    return xs


def _orc_xclass(x):
    """decade of the argument"""
    return "x~1e%d" % int(math.floor(math.log10(x)))


def _orc_psi_sig(err):
    """fff_psi carries 10-11 digit constants: its error relative to max(1, |psi|) reaches 1.65e-10 (known finding,
    signature .../rel-error>1e-10 = the band (1e-10, 3e-10]).  Anything beyond that band is a different defect."""
    return "oracle/fff_specfun.fff_psi/rel-error>1e-10" if err <= 3e-10 else None


# ------------------------------------------------------------------ current C via ctypes
class _OrcVec(ctypes.Structure):
    _fields_ = [("size", ctypes.c_size_t), ("stride", ctypes.c_size_t),
                ("data", ctypes.POINTER(ctypes.c_double)), ("owner", ctypes.c_int)]


class _OrcMat(ctypes.Structure):
    _fields_ = [("size1", ctypes.c_size_t), ("size2", ctypes.c_size_t), ("tda", ctypes.c_size_t),
                ("data", ctypes.POINTER(ctypes.c_double)), ("owner", ctypes.c_int)]


def _orc_lib(ck):
    lib = ctypes.CDLL(str(ck.ov["cstat"]))
    for f in ("fff_gamln", "fff_psi"):
        getattr(lib, f).restype = ctypes.c_double
        getattr(lib, f).argtypes = [ctypes.c_double]
    lib.fff_permutation.restype = None
    lib.fff_permutation.argtypes = [ctypes.POINTER(ctypes.c_uint), ctypes.c_uint, ctypes.c_ulong]
    lib.fff_combination.restype = None
    lib.fff_combination.argtypes = [ctypes.POINTER(ctypes.c_uint), ctypes.c_uint, ctypes.c_uint, ctypes.c_ulong]
    lib.fff_vector_new.restype = ctypes.POINTER(_OrcVec)
    lib.fff_vector_new.argtypes = [ctypes.c_size_t]
    lib.fff_vector_delete.argtypes = [ctypes.POINTER(_OrcVec)]
    lib.fff_matrix_new.restype = ctypes.POINTER(_OrcMat)
    lib.fff_matrix_new.argtypes = [ctypes.c_size_t, ctypes.c_size_t]
    lib.fff_matrix_delete.argtypes = [ctypes.POINTER(_OrcMat)]
    lib.fff_array_new.restype = ctypes.c_void_p
    lib.fff_array_new.argtypes = [ctypes.c_int] + [ctypes.c_size_t] * 4
    lib.fff_array_delete.argtypes = [ctypes.c_void_p]
    lib.fff_lapack_dgesdd.restype = ctypes.c_int
    lib.fff_lapack_dgesdd.argtypes = [ctypes.POINTER(_OrcMat), ctypes.POINTER(_OrcVec), ctypes.POINTER(_OrcMat),
                                      ctypes.POINTER(_OrcMat), ctypes.POINTER(_OrcVec), ctypes.c_void_p,
                                      ctypes.POINTER(_OrcMat)]
    lib.fff_mahalanobis.restype = ctypes.c_double
    lib.fff_mahalanobis.argtypes = [ctypes.POINTER(_OrcVec), ctypes.POINTER(_OrcMat), ctypes.POINTER(_OrcMat)]
    for f in ("fff_vector_sum", "fff_vector_sad"):
        getattr(lib, f).restype = ctypes.c_longdouble
    lib.fff_vector_sum.argtypes = [ctypes.POINTER(_OrcVec)]
    lib.fff_vector_sad.argtypes = [ctypes.POINTER(_OrcVec), ctypes.c_double]
    lib.fff_vector_median.restype = ctypes.c_double
    lib.fff_vector_median.argtypes = [ctypes.POINTER(_OrcVec)]
    lib.fff_vector_quantile.restype = ctypes.c_double
    lib.fff_vector_quantile.argtypes = [ctypes.POINTER(_OrcVec), ctypes.c_double, ctypes.c_int]
    return lib


def _orc_vec(lib, x):
    v = lib.fff_vector_new(len(x))
    for i, a in enumerate(x):
        v.contents.data[i] = float(a)
    return v


def _orc_mat(lib, A):
    A = np.asarray(A, dtype=float)
    m = lib.fff_matrix_new(A.shape[0], A.shape[1])
    tda = m.contents.tda
    for i in range(A.shape[0]):
        for j in range(A.shape[1]):
            m.contents.data[i * tda + j] = float(A[i, j])
    return m


def _orc_specfun_c(ck, lib):
    import scipy.special as sp
    n = 0
    for x in _orc_specfun_grid(ck):
        for name, f, g in (("fff_gamln", lib.fff_gamln, sp.gammaln), ("fff_psi", lib.fff_psi, sp.digamma)):
            v, ref = float(f(float(x))), float(g(x))
            n += 1
            ck.count(("c-" + name, float(x)), bucket="oracle:specfun.%s:%s" % (name, _orc_xclass(x)))
            err = abs(v - ref) / max(1.0, abs(ref))
            if not err <= _ORC_TOL:
                sig = (_orc_psi_sig(err) if name == "fff_psi" else None) or "oracle/fff_specfun.%s/rel-error>3e-10/%s" % (name, _orc_xclass(x))
                ck.fail(sig, "%s(%r) = %r (current C through ctypes), scipy gives %r (error %.3g relative to max(1, |ref|))" % (
                    name, float(x), v, ref, err),
                        {"call": "%s(x) in libcstat.so" % name, "x": float(x), "got": v, "expected": ref, "rel_error": err})
    return n


def _orc_perm_comb(ck, lib):
    n_calls = 0
    nmax = ck.n(6, 8)
    for n in range(1, nmax + 1):
        buf = (ctypes.c_uint * n)()
        seen = {}
        for magic in range(math.factorial(n)):
            lib.fff_permutation(buf, n, magic)
            p = tuple(buf)
            n_calls += 1
            if sorted(p) != list(range(n)):
                ck.fail("oracle/fff_gen_stats.fff_permutation/not-a-permutation",
                        "fff_permutation(n=%d, magic=%d) = %s is not a permutation of 0..n-1" % (n, magic, list(p)),
                        {"n": n, "magic": magic, "got": list(p)})
                break
            if p in seen:
                ck.fail("oracle/fff_gen_stats.fff_permutation/repeated",
                        "fff_permutation(n=%d) gives %s for both magic=%d and magic=%d" % (n, list(p), seen[p], magic),
                        {"n": n, "magic": [seen[p], magic], "got": list(p)})
                break
            seen[p] = magic
        ck.count(("perm", n), bucket="oracle:fff_permutation:exhaustive-n")
        if n == 3:
            lib.fff_permutation(buf, n, 0)
            if tuple(buf) != (0, 1, 2):
                ck.fail("oracle/fff_gen_stats.fff_permutation/magic0-not-identity",
                        "fff_permutation(3, 0) = %s" % list(buf), {"n": 3, "magic": 0, "got": list(buf)})
    # the FULL magic range: magic numbers up to n! - 1 beyond 2**32 need n >= 13 (20! < 2**64)
    rng = ck.rng("orc-perm-big")

    def ref_perm(n, magic):
        """documented mixed-radix decoding, least significant digit first: digit i (radix n-i) selects which of the
        remaining elements (kept in increasing order) goes to position i"""
        rem, out, m = list(range(n)), [], magic
        for nc in range(n, 0, -1):
            out.append(rem.pop(m % nc))
            m //= nc
        return out

    for n in ([13, 14, 16, 20] if not ck.thorough() else list(range(9, 21))):
        buf = (ctypes.c_uint * n)()
        nf = math.factorial(n)
        magics = {0, 1, nf - 1, nf - 2, nf // 2, nf // 3}
        for base in (2 ** 31, 2 ** 32, 2 ** 33, 2 ** 40, 2 ** 48, 2 ** 63):
            magics.update(m for m in (base - 1, base, base + 1, base + 12345) if m < nf)
        small = [int(v) for v in rng.integers(0, min(nf, 2 ** 32), ck.n(6, 40))]
        for sm in small:                      # seeds that differ by multiples of 2**32
            magics.update(m for m in (sm, sm + 2 ** 32, sm + 3 * 2 ** 32, sm + 2 ** 40) if m < nf)
        magics.update(int(v) % nf for v in rng.integers(0, 2 ** 63, ck.n(20, 200)))
        seen = {}
        for magic in sorted(magics):
            lib.fff_permutation(buf, n, magic)
            p = tuple(buf)
            n_calls += 1
            feat = "magic>=2^32" if magic >= 2 ** 32 else "magic<2^32"
            ck.count(("perm-big", n, magic), bucket="oracle:fff_permutation:n>=13:" + feat)
            rep = {"n": n, "magic": magic, "got": list(p)}
            if sorted(p) != list(range(n)):
                ck.fail("oracle/fff_gen_stats.fff_permutation/not-a-permutation/" + feat,
                        "fff_permutation(n=%d, magic=%d) = %s is not a permutation of 0..n-1" % (n, magic, list(p)), rep)
                continue
            if list(p) != ref_perm(n, magic):
                ck.fail("oracle/fff_gen_stats.fff_permutation/not-the-mixed-radix-decoding/" + feat,
                        "fff_permutation(n=%d, magic=%d) = %s, the documented mixed-radix decoding of the magic number is %s" % (
                            n, magic, list(p), ref_perm(n, magic)), dict(rep, expected=ref_perm(n, magic)))
            if p in seen:
                ck.fail("oracle/fff_gen_stats.fff_permutation/repeated/" + ("magic>=2^32" if max(magic, seen[p]) >= 2 ** 32 else "magic<2^32"),
                        "fff_permutation(n=%d) gives %s for both magic=%d and magic=%d (both < n! = %d)" % (n, list(p), seen[p], magic, nf),
                        {"n": n, "magic": [seen[p], magic], "got": list(p)})
            seen.setdefault(p, magic)

    def ref_comb(k, n, magic):
        """the magic-th k-subset of 0..n-1 in lexicographic order"""
        out, m, kk, i = [], magic % math.comb(n, k), k, 0
        while kk > 0:
            c = math.comb(n - i - 1, kk - 1)
            if m < c:
                out.append(i)
                kk -= 1
            else:
                m -= c
            i += 1
        return out

    for n, k in ([(34, 17), (36, 18), (40, 20), (40, 12), (60, 10)] if not ck.thorough() else
                 [(34, 17), (35, 17), (36, 18), (38, 19), (40, 20), (40, 12), (45, 15), (60, 10), (64, 9), (33, 16)]):
        buf = (ctypes.c_uint * k)()
        nc = math.comb(n, k)
        magics = {0, 1, nc - 1, nc // 2}
        for base in (2 ** 31, 2 ** 32, 2 ** 33, 2 ** 36):
            magics.update(m for m in (base - 1, base, base + 1, base + 999) if m < nc)
        for sm in [int(v) for v in rng.integers(0, min(nc, 2 ** 32), ck.n(5, 30))]:
            magics.update(m for m in (sm, sm + 2 ** 32, sm + 2 ** 33) if m < nc)
        magics.update(int(v) % nc for v in rng.integers(0, 2 ** 63, ck.n(15, 150)))
        seen = {}
        for magic in sorted(magics):
            for i in range(k):
                buf[i] = 0xFFFFFFFF
            lib.fff_combination(buf, k, n, magic)
            c = tuple(buf)
            n_calls += 1
            feat = "magic>=2^32" if magic >= 2 ** 32 else "magic<2^32"
            ck.count(("comb-big", n, k, magic), bucket="oracle:fff_combination:C(n,k)>2^32:" + feat)
            rep = {"k": k, "n": n, "magic": magic, "got": list(c)}
            if not (all(c[i] < c[i + 1] for i in range(k - 1)) and all(0 <= v < n for v in c)):
                ck.fail("oracle/fff_gen_stats.fff_combination/not-an-increasing-subset/" + feat,
                        "fff_combination(k=%d, n=%d, magic=%d) = %s is not a strictly increasing k-subset of 0..n-1" % (k, n, magic, list(c)), rep)
                continue
            if list(c) != ref_comb(k, n, magic):
                ck.fail("oracle/fff_gen_stats.fff_combination/not-the-lexicographic-rank/" + feat,
                        "fff_combination(k=%d, n=%d, magic=%d) = %s, the magic-th subset in lexicographic order is %s" % (
                            k, n, magic, list(c), ref_comb(k, n, magic)), dict(rep, expected=ref_comb(k, n, magic)))
            if c in seen:
                ck.fail("oracle/fff_gen_stats.fff_combination/repeated/" + feat,
                        "fff_combination(k=%d, n=%d) gives %s for magic=%d and magic=%d" % (k, n, list(c), seen[c], magic),
                        {"k": k, "n": n, "magic": [seen[c], magic], "got": list(c)})
            seen.setdefault(c, magic)

    cmax = ck.n(7, 10)
    for n in range(1, cmax + 1):
        for k in range(1, n + 1):
            buf = (ctypes.c_uint * k)()
            seen = {}
            for magic in range(math.comb(n, k)):
                for i in range(k):
                    buf[i] = 0xFFFFFFFF
                lib.fff_combination(buf, k, n, magic)
                c = tuple(buf)
                n_calls += 1
                if not (all(c[i] < c[i + 1] for i in range(k - 1)) and all(0 <= v < n for v in c)):
                    ck.fail("oracle/fff_gen_stats.fff_combination/not-an-increasing-subset",
                            "fff_combination(k=%d, n=%d, magic=%d) = %s is not a strictly increasing k-subset of 0..n-1"
                            % (k, n, magic, list(c)), {"k": k, "n": n, "magic": magic, "got": list(c)})
                    break
                if c in seen:
                    ck.fail("oracle/fff_gen_stats.fff_combination/repeated",
                            "fff_combination(k=%d, n=%d) gives %s for magic=%d and magic=%d" % (k, n, list(c), seen[c], magic),
                            {"k": k, "n": n, "magic": [seen[c], magic], "got": list(c)})
                    break
                seen[c] = magic
            ck.count(("comb", n, k), bucket="oracle:fff_combination:exhaustive-n-k")
    return n_calls


_ORC_SVD_CHILD = r"""
import sys, json, ctypes
import numpy as np
mode, X = sys.argv[1], np.array(json.loads(sys.argv[3]), dtype=float)
sys.path.insert(0, sys.argv[2])
try:
    from harness import overlay as ov
    libpath = str(ov.build(want_cstat=True)["cstat"])      # cached; never a path that a concurrent check may prune
    ctypes.CDLL(libpath)
except Exception as e:
    print(json.dumps({"setup_error": repr(e)})); sys.exit(0)
m, n, K = X.shape
if mode == "routines":
    import warnings; warnings.simplefilter("ignore")
    from nipy.labs.utils import routines as rt
    print(json.dumps({"s": np.asarray(rt.svd(X)).tolist(), "info": 0}))
else:
    class Vec(ctypes.Structure):
        _fields_ = [("size", ctypes.c_size_t), ("stride", ctypes.c_size_t), ("data", ctypes.POINTER(ctypes.c_double)), ("owner", ctypes.c_int)]
    class Mat(ctypes.Structure):
        _fields_ = [("size1", ctypes.c_size_t), ("size2", ctypes.c_size_t), ("tda", ctypes.c_size_t), ("data", ctypes.POINTER(ctypes.c_double)), ("owner", ctypes.c_int)]
    lib = ctypes.CDLL(libpath)
    lib.fff_vector_new.restype = ctypes.POINTER(Vec); lib.fff_vector_new.argtypes = [ctypes.c_size_t]
    lib.fff_matrix_new.restype = ctypes.POINTER(Mat); lib.fff_matrix_new.argtypes = [ctypes.c_size_t] * 2
    lib.fff_array_new.restype = ctypes.c_void_p; lib.fff_array_new.argtypes = [ctypes.c_int] + [ctypes.c_size_t] * 4
    lib.fff_lapack_dgesdd.restype = ctypes.c_int
    lib.fff_lapack_dgesdd.argtypes = [ctypes.POINTER(Mat), ctypes.POINTER(Vec), ctypes.POINTER(Mat), ctypes.POINTER(Mat),
                                      ctypes.POINTER(Vec), ctypes.c_void_p, ctypes.POINTER(Mat)]
    lib.fff_matrix_delete.argtypes = [ctypes.POINTER(Mat)]; lib.fff_vector_delete.argtypes = [ctypes.POINTER(Vec)]
    out, info = [], 0
    dmin, dmax = min(m, n), max(m, n)
    for k in range(K):
        A = lib.fff_matrix_new(m, n)
        for i in range(m):
            for j in range(n):
                A.contents.data[i * A.contents.tda + j] = X[i, j, k]
        U, Vt, Aux = lib.fff_matrix_new(m, m), lib.fff_matrix_new(n, n), lib.fff_matrix_new(dmax, dmax)
        s = lib.fff_vector_new(dmin)
        work = lib.fff_vector_new(2 * (3 * dmin * dmin + max(dmax, 4 * dmin * (dmin + 1))))
        iwork = lib.fff_array_new(5, 8 * dmin, 1, 1, 1)      # FFF_INT
        info |= lib.fff_lapack_dgesdd(A, s, U, Vt, work, iwork, Aux)
        out.append([s.contents.data[i] for i in range(dmin)])
        for p in (A, U, Vt, Aux):
            lib.fff_matrix_delete(p)
        lib.fff_vector_delete(s); lib.fff_vector_delete(work)
    print(json.dumps({"s": np.array(out).T.tolist(), "info": int(info)}))
"""


def _orc_verif_dir():
    from harness import kit
    return str(kit.VERIF)


def _orc_svd_children(ck, jobs, sigbase):
    """Singular values of each (m, n, K) stack in its own child process: for m > n the C
    passes the wrong leading dimension to dgesdd, which overruns the matrix buffer."""
    import json
    import subprocess
    import sys
    procs = []
    for mode, X in jobs:
        procs.append((X, subprocess.Popen([sys.executable, "-c", _ORC_SVD_CHILD, mode, _orc_verif_dir(), json.dumps(X.tolist())],
                                          stdout=subprocess.PIPE, stderr=subprocess.PIPE, text=True)))
    for X, p in procs:
        try:
            out, err = p.communicate(timeout=120)
        except subprocess.TimeoutExpired:
            p.kill()
            out, err = "", "timeout"
        m_, n_, K = X.shape
        feat = "m<n" if m_ < n_ else ("m>n" if m_ > n_ else "square")
        ref = np.stack([np.linalg.svd(X[:, :, k], compute_uv=False) for k in range(K)], axis=1)
        rep = {"call": "svd of each X[:, :, k] (%s)" % sigbase.split("/")[1], "X": X.tolist(), "expected": ref.tolist()}
        if p.returncode != 0 and ("ModuleNotFoundError" in err or "ImportError" in err or "OSError" in err):
            ck.note("oracles: svd child could not start (%s); nothing concluded" % err.strip()[-120:])
            continue
        if p.returncode != 0:
            rep.update(returncode=p.returncode, stderr_tail=err[-300:])
            ck.fail("oracle/fff_lapack.dgesdd/m>n,heap-corruption" if m_ > n_ else "%s/%s,crash" % (sigbase, feat),
                    "SVD of a %dx%d matrix kills the interpreter (exit status %s: %s)" % (m_, n_, p.returncode, err.strip()[-80:]), rep)
            continue
        res = json.loads(out.strip().splitlines()[-1])
        if "setup_error" in res:
            ck.note("oracles: svd child could not load libcstat (%s); nothing concluded" % res["setup_error"][:120])
            continue
        if res["info"] != 0 or not _orc_close(res["s"], ref):
            rep.update(got=res["s"], info=res["info"])
            ck.fail("oracle/fff_lapack.dgesdd/m>n,heap-corruption" if m_ > n_ else "%s/%s" % (sigbase, feat),
                    "singular values of a %dx%d matrix differ from numpy.linalg.svd (%s)" % (m_, n_, sigbase.split("/")[1]), rep)


def _orc_lapack_c(ck, lib, rng):
    """fff_lapack_dgesdd (lapack_lite dgesdd behind the row-major wrapper), fff_mahalanobis
    (dpotrf + dtrsv) and fff_vector reductions from the current C."""
    n = 0
    shapes = [(1, 1), (2, 2), (2, 3), (3, 2), (4, 4), (5, 2), (2, 6), (6, 5)]
    if ck.thorough():
        shapes += [(int(a), int(b)) for a, b in rng.integers(1, 9, size=(30, 2))]
    jobs = []
    for (m_, n_) in shapes:
        X = rng.integers(-5, 6, size=(m_, n_, 1)).astype(float)
        jobs.append(("cstat", X))
        ck.count(("c-svd", m_, n_, X.tobytes()), bucket="oracle:fff_lapack_dgesdd")
    n += len(jobs)
    _orc_svd_children(ck, jobs, "oracle/fff_lapack.dgesdd")
    for d in (1, 2, 3, 5):
        A = rng.integers(-3, 4, size=(d, d)).astype(float)
        V = A @ A.T + np.eye(d)
        x = rng.integers(-5, 6, size=d).astype(float)
        xv, S, Sa = _orc_vec(lib, x), _orc_mat(lib, V), lib.fff_matrix_new(d, d)
        got = float(lib.fff_mahalanobis(xv, S, Sa))
        lib.fff_vector_delete(xv)
        lib.fff_matrix_delete(S)
        lib.fff_matrix_delete(Sa)
        ref = float(x @ np.linalg.solve(V, x))
        n += 1
        ck.count(("c-mah", d, x.tobytes(), V.tobytes()), bucket="oracle:fff_mahalanobis")
        if not abs(got - ref) <= _ORC_TOL * max(1.0, abs(ref)):
            ck.fail("oracle/fff_gen_stats.fff_mahalanobis/d=%d" % d, "fff_mahalanobis = %r, x' inv(S) x = %r" % (got, ref),
                    {"x": x.tolist(), "S": V.tolist(), "got": got, "expected": ref})
    # vector reductions / order statistics of the current C
    for size in list(range(1, 10)) + [16, 25]:
        for rep_ in range(ck.n(3, 12)):
            x = rng.integers(-4, 5, size=size).astype(float)
            v = _orc_vec(lib, x)
            s_ = float(lib.fff_vector_sum(v))
            sad = float(lib.fff_vector_sad(v, 1.0))
            lib.fff_vector_delete(v)
            v = _orc_vec(lib, x)
            med = float(lib.fff_vector_median(v))
            lib.fff_vector_delete(v)
            n += 1
            ck.count(("c-vec", x.tobytes()), bucket="oracle:fff_vector:reductions")
            if s_ != x.sum() or sad != np.abs(x - 1.0).sum():
                ck.fail("oracle/fff_vector.sum-sad/n%s" % ("=%d" % size if size <= 2 else ">2"),
                        "fff_vector_sum/sad = %r/%r, numpy %r/%r" % (s_, sad, x.sum(), np.abs(x - 1).sum()), {"x": x.tolist()})
            if med != float(np.median(x)):
                ck.fail(_orc_qsig(size, 0.5, 1) if size % 2 == 0 else _ORC_QSIG + "median-odd",
                        "fff_vector_median(%s) = %r, np.median = %r" % (x.tolist(), med, float(np.median(x))), {"x": x.tolist()})
            for r in (0.0, 0.25, 0.5, 0.75, 1.0):
                for interp in (0, 1):
                    v = _orc_vec(lib, x)
                    q = float(lib.fff_vector_quantile(v, r, interp))
                    lib.fff_vector_delete(v)
                    srt = np.sort(x)
                    if interp:
                        ref = float(np.quantile(x, r))
                    elif size == 1:
                        ref = float(x[0])
                    else:
                        p = math.ceil(r * size)
                        ref = math.inf if p == size else float(srt[p])
                    if not (q == ref or abs(q - ref) <= _ORC_TOL):
                        ck.fail(_orc_qsig(size, r, interp),
                                "fff_vector_quantile(x, %r, %d) = %r, definition gives %r" % (r, interp, q, ref),
                                {"x": x.tolist(), "r": r, "interp": interp, "got": q, "expected": ref})
    return n


# ------------------------------------------------------------------ bindings (rebuilt)
def _orc_int_array(rng, shape, dt, lo=0, hi=12):
    info_lo = lo if np.issubdtype(dt, np.unsignedinteger) else -hi
    return rng.integers(info_lo, hi + 1, size=shape).astype(dt)


_ORC_BIG = {np.uint32: [2 ** 31 + 7, 2 ** 32 - 30], np.int32: [2 ** 31 - 30, -(2 ** 31) + 12],
            np.int64: [2 ** 31 + 7, 2 ** 40 + 3, -(2 ** 45) - 1, 2 ** 52 + 5, -(2 ** 31) - 9],
            np.uint64: [2 ** 31 + 7, 2 ** 40 + 3, 2 ** 52 + 5]}


def _orc_magnitudes(a, dt):
    """(name, array): the small-integer array itself and, for the 32/64-bit integer dtypes, the same array shifted
    to magnitudes at and beyond 2**31 (all below 2**53: exact as doubles, which is how fff carries them)."""
    out = [("", a)]
    for off in _ORC_BIG.get(dt, []):
        out.append(("magnitude~2^%d%s" % (abs(off).bit_length() - (0 if abs(off) & (abs(off) - 1) else 1), "(negative)" if off < 0 else ""),
                    (a.astype(object) + off).astype(dt)))
    return out


def _orc_bindings(ck, rng):
    from nipy.labs.bindings import wrapper as W
    from nipy.labs.bindings import array as A
    from nipy.labs.bindings import linalg as L
    n = 0

    c_failed = set()

    def check(sig, what, got, ref, rep, exact=True):
        """sig = 'oracle/<module.function>/<feature>[,axis=..]|<layout>': the layout is only part of the
        reported signature when the same case passes in C layout (so a defect that does not depend on the
        memory layout gets one signature)."""
        nonlocal n
        n += 1
        if got is None:
            return
        base, _, lay = sig.partition("|")
        g = np.asarray(got)
        r = np.asarray(ref)
        ok = g.shape == r.shape and (np.array_equal(g, r) if exact else _orc_close(g, r))
        if not ok:
            rep = dict(rep)
            rep.update(got=g.tolist(), expected=r.tolist())
            if g.shape == r.shape and g.dtype.kind in "iu" and r.dtype.kind in "iu":
                # one cause, one signature: the integer setters of fff_array.c round through floor(a + 0.5), which is
                # not representable for odd |a| >= 2**52 and lands on the even neighbour
                go, ro = g.astype(object).ravel(), r.astype(object).ravel()
                bad = [(a, b) for a, b in zip(go, ro) if a != b]
                if bad and all(abs(a - b) in (1, 2) and abs(b) >= 2 ** 52 - 2 for a, b in bad):     # 2: rounded twice (copy, then add)
                    ck.fail("oracle/bindings.fff_array.integer-setter/odd-values>=2^52-rounded-to-even",
                            "%s: odd integers of magnitude >= 2**52 come back as their even neighbour (%r -> %r)" % (what, bad[0][1], bad[0][0]), rep)
                    return
            if lay in ("", "C"):
                c_failed.add(base)
                ck.fail(base, "%s differs from numpy" % what, rep)
            elif base not in c_failed:
                ck.fail(base + "," + lay, "%s differs from numpy (%s layout)" % (what, lay), rep)

    # type table
    for dt in _ORC_DTYPES:
        got = _orc_call(ck, "oracle/bindings.wrapper.fff_type/%s" % np.dtype(dt).name, "fff_type", {}, W.fff_type, np.dtype(dt))
        n += 1
        ck.count(("fff_type", np.dtype(dt).name), bucket="oracle:bindings.fff_type")
        if got is not None and tuple(got) != (_ORC_CNAMES[dt], np.dtype(dt).itemsize):
            swapped = {np.int32: "unsigned int", np.uint32: "int"}
            sig = "oracle/bindings.wrapper.fff_type/int-uint-labels-swapped" if swapped.get(dt) == got[0] \
                else "oracle/bindings.wrapper.fff_type/%s" % np.dtype(dt).name
            ck.fail(sig, "fff_type(dtype('%s')) = %s, the C type of that dtype is (%r, %d)"
                    % (np.dtype(dt).name, tuple(got), _ORC_CNAMES[dt], np.dtype(dt).itemsize),
                    {"call": "wrapper.fff_type(np.dtype(%r))" % np.dtype(dt).name, "got": list(got)})
    for t in W.c_types:
        got = _orc_call(ck, "oracle/bindings.wrapper.npy_type/round-trip", "npy_type", {"T": t}, W.npy_type, t)
        n += 1
        if got is not None and t != "unknown type" and got[0] != t:
            ck.fail("oracle/bindings.wrapper.npy_type/round-trip", "npy_type(%r) = %s" % (t, got), {"T": t})

    # vectors: every dtype x layout
    sizes = [1, 2, 3, 4, 5, 8]
    modified_by_median = set()
    for dt in _ORC_DTYPES:
        dn = np.dtype(dt).name
        for size in sizes:
            x = _orc_int_array(rng, size, dt)
            y = _orc_int_array(rng, size, dt, lo=1)
            y[y == 0] = 3
            for lname, xv in _orc_views(x):
                yv = dict(_orc_views(y))[lname]
                rep = {"x": x.tolist(), "y": y.tolist(), "dtype": dn, "layout": lname}
                ck.count(("bind-vec", dn, size, lname, x.tobytes(), y.tobytes()), bucket="oracle:bindings.vector:%s:%s" % (dn, lname))
                xf, yf = x.astype(float), y.astype(float)
                fresh = lambda: dict(_orc_views(x))[lname]      # vector_median/quantile partially sort a double input in place
                pre = "oracle/bindings.%s/" + "n%s|%s" % ("=%d" % size if size <= 2 else ">2", lname)
                qs = {"linalg.vector_median": _orc_qsig(size, 0.5, 1) if size % 2 == 0 else _ORC_QSIG + "median-odd",
                      "linalg.vector_quantile(.25,interp)": _orc_qsig(size, 0.25, 1),
                      "linalg.vector_quantile(.5,no-interp)": _orc_qsig(size, 0.5, 0)}
                for name, f, ref in (("wrapper.pass_vector", lambda: W.pass_vector(xv), xf),
                                     ("wrapper.copy_vector(flag=0)", lambda: W.copy_vector(xv, 0), xf),
                                     ("wrapper.copy_vector(flag=1)", lambda: W.copy_vector(xv, 1), xf),
                                     ("linalg.vector_add", lambda: L.vector_add(xv, yv), xf + yf),
                                     ("linalg.vector_sub", lambda: L.vector_sub(xv, yv), xf - yf),
                                     ("linalg.vector_mul", lambda: L.vector_mul(xv, yv), xf * yf),
                                     ("linalg.vector_div", lambda: L.vector_div(xv, yv), xf / yf),
                                     ("linalg.vector_scale", lambda: L.vector_scale(xv, 3.0), 3.0 * xf),
                                     ("linalg.vector_add_constant", lambda: L.vector_add_constant(xv, 2.0), xf + 2.0),
                                     ("linalg.vector_set_all", lambda: L.vector_set_all(xv, 7.0), np.full(size, 7.0)),
                                     ("linalg.vector_sum", lambda: L.vector_sum(xv), xf.sum()),
                                     ("linalg.vector_ssd(m=1,fixed)", lambda: L.vector_ssd(xv, 1.0, 1), ((xf - 1.0) ** 2).sum()),
                                     ("linalg.vector_sad(m=1)", lambda: L.vector_sad(xv, 1.0), np.abs(xf - 1.0).sum()),
                                     ("linalg.vector_median", lambda: L.vector_median(fresh()), np.median(xf)),
                                     ("linalg.vector_quantile(.25,interp)", lambda: L.vector_quantile(fresh(), 0.25, 1), np.quantile(xf, 0.25)),
                                     ("linalg.vector_quantile(.5,no-interp)", lambda: L.vector_quantile(fresh(), 0.5, 0),
                                      np.sort(xf)[math.ceil(0.5 * size)] if size > 1 else xf[0])):
                    sig = (qs[name] + "|C") if name in qs else pre % name
                    got = _orc_call(ck, sig.replace('|', ','), name, rep, f)
                    if name == "linalg.vector_div" and got is not None and np.array_equal(np.asarray(got), xf * yf) \
                            and not np.array_equal(xf * yf, xf / yf):
                        ck.fail("oracle/bindings.linalg.vector_div/calls-fff_vector_mul",
                                "linalg.vector_div(%s, %s) = %s: the product x*y, not the quotient" % (x.tolist(), y.tolist(), np.asarray(got).tolist()),
                                dict(rep, got=np.asarray(got).tolist(), expected=(xf / yf).tolist()))
                        n += 1
                        continue
                    check(sig, name, got, ref, rep, exact=not name.startswith("linalg.vector_ssd"))
                got = _orc_call(ck, (pre % "linalg.vector_ssd(free)").replace("|", ","), "vector_ssd", rep, L.vector_ssd, xv, 0.0, 0)
                check(pre % "linalg.vector_ssd(free)", "vector_ssd(fixed=0)", got, ((xf - xf.mean()) ** 2).sum(), rep, exact=False)
                for i in {0, size - 1, size // 2}:
                    got = _orc_call(ck, (pre % "linalg.vector_get").replace("|", ","), "vector_get", rep, L.vector_get, xv, i)
                    check(pre % "linalg.vector_get", "vector_get(%d)" % i, got, xf[i], dict(rep, i=i))
                    got = _orc_call(ck, (pre % "linalg.vector_set").replace("|", ","), "vector_set", rep, L.vector_set, xv, i, 9.0)
                    ref = xf.copy()
                    ref[i] = 9.0
                    check(pre % "linalg.vector_set", "vector_set(%d, 9)" % i, got, ref, dict(rep, i=i))
                if not np.array_equal(xv, x) or not np.array_equal(yv, y):
                    ck.fail("oracle/bindings.vector/input-modified,%s" % lname, "a vector wrapper modified its input", rep)
                if dt is np.float64 and size > 2:
                    z = fresh()
                    L.vector_median(z)
                    if not np.array_equal(z, x):
                        modified_by_median.add(lname)

    if modified_by_median:
        ck.note("oracles: linalg.vector_median/vector_quantile reorder a float64 input array in place (layouts %s); "
                "caller-data mutation belongs to C20, the oracle passes fresh arrays" % sorted(modified_by_median))
    # matrices
    for dt in _ORC_DTYPES:
        dn = np.dtype(dt).name
        for shape in [(1, 1), (1, 4), (3, 1), (2, 3), (4, 4)]:
            a0 = _orc_int_array(rng, shape, dt)
            b = _orc_int_array(rng, shape, dt)
            for (magname, a), (lname, _) in itertools.product(_orc_magnitudes(a0, dt), _orc_views(a0)):
                av = dict(_orc_views(a))[lname]
                bv = dict(_orc_views(b))[lname]
                rep = {"A": a.tolist(), "B": b.tolist(), "dtype": dn, "layout": lname}
                ck.count(("bind-mat", dn, shape, lname, a.tobytes(), b.tobytes()), bucket="oracle:bindings.matrix:%s:%s" % (dn, lname))
                af, bf = a.astype(float), b.astype(float)
                pre = "oracle/bindings.%s/" + "%s%s|%s" % ("vector-shaped" if 1 in shape else "2d", "," + magname if magname else "", lname)
                for name, f, ref in (("wrapper.pass_matrix", lambda: W.pass_matrix(av), af),
                                     ("linalg.matrix_transpose", lambda: L.matrix_transpose(av), af.T),
                                     ("linalg.matrix_add", lambda: L.matrix_add(av, bv), af + bf),
                                     ("linalg.matrix_get", lambda: L.matrix_get(av, shape[0] - 1, shape[1] // 2),
                                      af[shape[0] - 1, shape[1] // 2])):
                    got = _orc_call(ck, (pre % name).replace("|", ","), name, rep, f)
                    check(pre % name, name, got, ref, rep)

    # arrays 1..4 dims; iterators along every axis
    shapes = [(3,), (1,), (2, 3), (3, 1), (2, 3, 2), (1, 2, 3), (2, 2, 3, 2), (3, 1, 2, 2)]
    if ck.thorough():
        shapes += [tuple(int(v) for v in rng.integers(1, 5, int(nd))) for nd in rng.integers(1, 5, 20)]
    for dt in _ORC_DTYPES:
        dn = np.dtype(dt).name
        for shape in shapes:
            a0 = _orc_int_array(rng, shape, dt, hi=9)
            b0 = _orc_int_array(rng, shape, dt, lo=1, hi=9)
            b0[b0 == 0] = 2
            if np.issubdtype(dt, np.unsignedinteger):
                a0 = (a0 + b0).astype(dt)          # keep a - b >= 0
            for (magname, a), (lname, _) in itertools.product(_orc_magnitudes(a0, dt), _orc_views(a0)):
                if magname and len(shape) == 4 and not ck.thorough():
                    continue
                b = np.ones_like(b0) if magname else b0     # beyond 2**31: a+1, a-1, a*1, a/1 stay inside the dtype
                q = (a.astype(object) * b.astype(object)).astype(dt)    # q / b exact
                av = dict(_orc_views(a))[lname]
                bv = dict(_orc_views(b))[lname]
                qv = dict(_orc_views(q))[lname]
                rep = {"A": a.tolist(), "B": b.tolist(), "dtype": dn, "layout": lname}
                ck.count(("bind-arr", dn, shape, lname, a.tobytes(), b.tobytes()), bucket="oracle:bindings.array:%dd:%s%s" % (len(shape), lname, ":" + magname if magname else ""))
                pre = "oracle/bindings.%s/" + "%dd%s|%s" % (len(shape), "," + magname if magname else "", lname)
                for name, f, ref in (("wrapper.pass_array", lambda: W.pass_array(av), a),
                                     ("array.array_add", lambda: A.array_add(av, bv), a + b),
                                     ("array.array_sub", lambda: A.array_sub(av, bv), a - b),
                                     ("array.array_mul", lambda: A.array_mul(av, bv), a * b),
                                     ("array.array_div", lambda: A.array_div(qv, bv), a)):
                    got = _orc_call(ck, (pre % name).replace("|", ","), name, rep, f)
                    if got is not None:
                        got = np.asarray(got).reshape(shape) if np.asarray(got).size == a.size else got
                        if np.asarray(got).dtype != np.dtype(dt):
                            ck.fail((pre % name) + ",dtype", "%s returns dtype %s for %s input" % (name, np.asarray(got).dtype, dn), rep)
                    check(pre % name, name, got, ref, rep)
                idx = [tuple(s - 1 for s in shape), tuple(s // 2 for s in shape), (0,) * len(shape)]
                for ix in idx:
                    got = _orc_call(ck, (pre % "array.array_get").replace("|", ","), "array_get", rep, A.array_get, av, *ix)
                    check(pre % "array.array_get", "array_get%s" % (ix,), got, float(a[ix]), dict(rep, index=list(ix)))
                for axis in range(len(shape)):
                    af = a.astype(float)
                    got = _orc_call(ck, (pre % "wrapper.copy_via_iterators").replace("|", ","), "copy_via_iterators", rep, W.copy_via_iterators, av, axis)
                    check((pre % "wrapper.copy_via_iterators").replace("|", ",axis=%d|" % axis), "copy_via_iterators(axis=%d)" % axis, got, af, dict(rep, axis=axis))
                    got = _orc_call(ck, (pre % "wrapper.sum_via_iterators").replace("|", ","), "sum_via_iterators", rep, W.sum_via_iterators, av, axis)
                    # sums of entries near 2**52 exceed 2**53: not exact in double, compared at 1e-10
                    check((pre % "wrapper.sum_via_iterators").replace("|", ",axis=%d|" % axis), "sum_via_iterators(axis=%d)" % axis, got,
                          af.sum(axis=axis, keepdims=True).squeeze(), dict(rep, axis=axis), exact="2^53" not in magname)
                    nfib = a.size // shape[axis]
                    for it in {0, nfib - 1, nfib // 2}:
                        got = _orc_call(ck, (pre % "wrapper.pass_vector_via_iterator").replace("|", ","), "pass_vector_via_iterator", rep,
                                        W.pass_vector_via_iterator, av, axis, it)
                        fib = np.moveaxis(af, axis, -1).reshape(nfib, shape[axis])[it]
                        check((pre % "wrapper.pass_vector_via_iterator").replace("|", ",axis=%d|" % axis),
                              "pass_vector_via_iterator(axis=%d, niters=%d)" % (axis, it), got, fib, dict(rep, axis=axis, niters=it))
    # array_get_block on a 4d array (x1 etc. are inclusive ends: dim = (x1-x0)/fX + 1)
    x = rng.integers(-9, 10, size=(5, 6, 4, 5)).astype(float)
    for feat, args, ref in (("fT==fZ", (1, 4, 2, 0, 5, 3, 1, 3, 2, 0, 4, 2), x[1:5:2, 0:6:3, 1:4:2, 0:5:2]),
                            ("fT!=fZ", (1, 4, 2, 0, 5, 3, 1, 3, 1, 0, 4, 2), x[1:5:2, 0:6:3, 1:4:1, 0:5:2])):
        for lname, xv in _orc_views(x):
            sig = "oracle/bindings.array.array_get_block/%s|%s" % (feat, lname)
            rep = {"call": "array_get_block(x, *args)", "args": list(args), "x_shape": list(x.shape), "layout": lname,
                   "x": "rng.integers(-9, 10, size=(5,6,4,5))"}
            got = _orc_call(ck, sig.replace("|", ","), "array_get_block", rep, A.array_get_block, xv, *args)
            check(sig, "array_get_block%s" % (args,), got, ref, rep)
    return n


def oracles(ck):
    t0 = time.time()
    times = {}
    lib = _orc_lib(ck)
    for name, f in (("histogram", lambda: _orc_histogram(ck, ck.rng("orc-hist"))),
                    ("routines_installed", lambda: _orc_routines(ck, ck.rng("orc-routines"))),
                    ("specfun_current_c", lambda: _orc_specfun_c(ck, lib)),
                    ("perm_comb_current_c", lambda: _orc_perm_comb(ck, lib)),
                    ("lapack_vector_current_c", lambda: _orc_lapack_c(ck, lib, ck.rng("orc-lapack"))),
                    ("bindings", lambda: _orc_bindings(ck, ck.rng("orc-bindings")))):
        t = time.time()
        n = f()
        times[name] = {"cases": n, "s": round(time.time() - t, 1)}
    ck.section("oracles", kind="TESTS against NumPy/SciPy (no theorem); tolerance 1e-10 relative where not exact",
               wall_s=round(time.time() - t0, 1), **times)
    ck.trust.append("oracles: numpy/scipy (bincount, sort/quantile/median, linalg.svd/solve, special.gammaln/digamma) "
                    "as reference implementations")


# <<< PASTED SECTIONS
# ====================================================================== run
def run(ck):
    ck.cov["rule"] = (
        "quantile: every array over {0,1,2}^n (n<=4 quick / <=5 thorough) plus seeded random arrays with ties / constant / "
        "sorted / two-valued (n 5..7 quick, ..13 thorough) x ratios {j/(4n), j/8, 0, 1} x interp x strides {1,-1,2,-3} through the C "
        "function itself; n-d integer arrays (1..4 dims, extents 1..7, C/F order, negative and non-unit steps, int64 and strided "
        "float64) x every axis x 7 ratios + median through the Python wrappers; a case is distinct by (data, stride/layout, axis, "
        "ratio, interp) and non-trivial when the sample has more than one element.  blas1: integer * 2^k vectors, k in [-1000, 1000] (ordinary / squares-overflow / squares-underflow / mixed-exponent / zero "
        "classes) x steps 1..3 x 10 level-1 routines through C and Python wrappers, exact rational reference.  bindings oracles: every "
        "integer dtype, small values and (32/64-bit types) magnitudes 2^31 .. 2^52.  blas / spline / oracles: see sections.")
    _timed(ck, "coq_build", lambda c: c.coq_build())
    _timed(ck, "overlay", lambda c: c.overlay(cstat=True))
    # load every binary now: concurrent checks prune old overlay directories, a loaded library stays usable
    ck._c16_libs = [ctypes.CDLL(str(ck.ov["cstat"])), _q_lib(ck)]
    import nipy.algorithms.statistics                       # noqa
    import nipy.algorithms.statistics.histogram             # noqa
    import nipy.algorithms.registration._registration       # noqa
    import nipy.labs.bindings.linalg, nipy.labs.bindings.array, nipy.labs.bindings.wrapper   # noqa
    ck.trust.append("ctypes call of the exported C symbol `quantile` in the rebuilt _quantile extension (argument marshalling in harness/props/c16.py)")
    ck.assume.append("quantile / BLAS level-2,3 / spline correspondences use integers of small magnitude (every double operation exact); "
                     "level-1 BLAS and the bindings oracles cover magnitudes 2^-1000..2^1000 resp. up to 2^52; NaN / inf inputs are outside the models")
    quantile_section(ck)
    for name in ("blas", "blas1", "spline", "oracles"):
        fn = globals().get(name)
        if fn is not None:
            _timed(ck, name, fn)
