"""C16 - compiled numeric kernels equal their NumPy/SciPy definitions.

Sections:
  quantile   quantile.c (`quantile`, `_pth_element`, `_pth_interval`): hand-written Gallina model
             (coq/C16/Model.v) with theorems for all arrays / ranks / rational ratios;
             correspondence (a) with the C function `quantile` called directly (ctypes on the
             rebuilt _quantile module) on strided buffers: returned value AND final buffer state,
             exact; (b) with `nipy.algorithms.statistics.quantile/median` on n-d integer arrays
             (C/Fortran order, negative / non-unit strides, every axis); property oracles:
             order statistic by counting, permutation of the buffer, guard cells untouched,
             NumPy definitions.  Implementation batches run in a forked child under a kernel
             alarm: a hang (planted `j < i`) is reported with the in-flight input.
  blas       fff_blas.c row-major -> column-major flag swapping (translated table + RingMat theorems)
  spline     cubic_spline.c basis / boundary maps / transform
  oracles    tests only: histogram, routines, fff element-wise wrappers, permutations, lapack
"""
import ctypes
import itertools
import math
import multiprocessing
import signal
import sysconfig
from fractions import Fraction

import numpy as np

from ..kit import cz, czl, cq, cnat, cbool, frac

QHDR = ("From Coq Require Import ZArith List QArith.\n"
        "From NV.C16 Require Import Model.\n")

HANG_ALARM = 20      # seconds of CPU/wall before a child running implementation cases is killed


# ====================================================================== child-process runner
def _child(conn, progress, fn, cases, alarm):
    signal.signal(signal.SIGALRM, signal.SIG_DFL)     # default action: kill this process
    out = []
    for i, c in enumerate(cases):
        progress.value = i
        signal.alarm(alarm)
        try:
            out.append(("ok", fn(c)))
        except Exception as e:  # noqa
            out.append(("exc", "%s: %s" % (type(e).__name__, e)))
    signal.alarm(0)
    progress.value = len(cases)
    conn.send(out)
    conn.close()


def run_guarded(fn, cases, alarm=HANG_ALARM, max_restarts=2):
    """Run fn(case) for every case inside forked children.  Returns a list of
    ("ok", value) | ("exc", text) | ("hang", None) | ("crash", None) | ("skipped", None)."""
    ctx = multiprocessing.get_context("fork")
    results = [None] * len(cases)
    start = 0
    restarts = 0
    while start < len(cases):
        parent, child = ctx.Pipe(duplex=False)
        progress = ctx.Value("l", 0)
        sub = cases[start:]
        p = ctx.Process(target=_child, args=(child, progress, fn, sub, alarm))
        p.start()
        child.close()
        got = None
        try:
            # total budget: the per-case alarm is what kills a hanging child
            while True:
                if parent.poll(1.0):
                    got = parent.recv()
                    break
                if not p.is_alive():
                    if parent.poll(0.1):
                        got = parent.recv()
                    break
        except (EOFError, OSError):
            got = None
        p.join(5)
        if p.is_alive():
            p.kill()
            p.join()
        if got is not None:
            for k, r in enumerate(got):
                results[start + k] = r
            break
        k = progress.value
        kind = "hang" if p.exitcode == -signal.SIGALRM else "crash"
        results[start + k] = (kind, p.exitcode)
        # results before k are lost with the child: rerun them cheaply (they terminated before)
        if k > 0:
            redo = run_guarded(fn, sub[:k], alarm, 0)
            for q, r in enumerate(redo):
                results[start + q] = r
        start = start + k + 1
        restarts += 1
        alarm = 3
        if restarts > max_restarts:
            for q in range(start, len(cases)):
                results[q] = ("skipped", None)
            break
    return results


# ====================================================================== quantile
def _q_lib(ck):
    path = ck.ov["dir"] / ("_quantile" + sysconfig.get_config_var("EXT_SUFFIX"))
    lib = ctypes.CDLL(str(path))
    lib.quantile.restype = ctypes.c_double
    lib.quantile.argtypes = [ctypes.c_void_p, ctypes.c_ssize_t, ctypes.c_ssize_t, ctypes.c_double, ctypes.c_int]
    return lib


GUARD = 987654321.0


def _q_direct_call(lib, case):
    """Call the C `quantile` on a strided buffer with guard cells.  Returns (value, logical buffer after, guards_ok)."""
    vals, stride, r, interp = case
    n = len(vals)
    pad = 3
    span = (n - 1) * abs(stride) + 1 if n else 1
    mem = np.full(span + 2 * pad, GUARD, dtype=np.float64)
    first = pad if stride > 0 else pad + span - 1
    idx = [first + stride * k for k in range(n)]
    for k, v in zip(idx, vals):
        mem[k] = float(v)
    before = mem.copy()
    ptr = mem.ctypes.data + 8 * first
    v = lib.quantile(ctypes.c_void_p(ptr), n, stride, float(r), int(interp))
    buf = [mem[k] for k in idx]
    mask = np.ones(len(mem), bool)
    mask[idx] = False
    guards_ok = bool(np.array_equal(mem[mask], before[mask]))
    return (v, buf, guards_ok)


def _is_dyadic(fr, maxbits=20):
    d = Fraction(fr).denominator
    return d & (d - 1) == 0 and d <= (1 << maxbits)


def _q_expected_rank(r, n, interp):
    """Documented rank rule evaluated in double arithmetic, as quantile() does."""
    if not interp:
        pp = float(r) * n
        p = math.ceil(pp)
        return p, None
    pp = float(r) * (n - 1)
    p = math.floor(pp)
    return p, Fraction(pp) - p


def _q_model_term(vals, r, interp, impl_val, impl_buf=None, exact=True, tol=None):
    """Coq boolean: the model agrees with the recorded implementation output."""
    n = len(vals)
    fr = Fraction(float(r))
    F = cnat(max(n, 1))
    xs = czl(vals)
    if _is_dyadic(fr, 12):
        call = "quantile %s %s %s %s" % (F, xs, cq(fr), cbool(interp))
    else:
        # the C computes pp = r*size (or r*(size-1)) in double: thread that value
        pp = Fraction(float(r) * (n if not interp else (n - 1)))
        call = "quantile_pp %s %s %s %s" % (F, xs, cq(pp), cbool(interp))
    if math.isinf(impl_val):
        v = "QInf" if impl_val > 0 else "(QVal (-1#1))"   # -inf never matches a model value
        vq = None
    else:
        vq = frac(impl_val)
        v = "(QVal %s)" % cq(vq)
    if exact or vq is None:
        if impl_buf is not None:
            return "res_full_eqb (%s) %s %s" % (call, czl([int(b) for b in impl_buf]), v)
        return "res_val_eqb (%s) %s" % (call, v)
    t = "res_val_close (%s) %s %s" % (call, cq(vq), cq(tol))
    if impl_buf is not None:
        t = "(%s) && (match (%s) with Ok (b, _) => zl_eqb b %s | _ => false end)" % (t, call, czl([int(b) for b in impl_buf]))
    return t


def _q_exact_case(vals, r, interp):
    """True when every double operation of quantile() on this input is exact."""
    fr = Fraction(float(r))
    if not _is_dyadic(fr, 12):
        return not interp      # interp=0 only involves pp, which is threaded exactly
    return True


def _q_arrays(ck):
    """(vals, bucket) small arrays: exhaustive over a tiny alphabet + random with ties + constant + sorted."""
    out = []
    nmax_ex = ck.n(4, 5)
    for n in range(1, nmax_ex + 1):
        for t in itertools.product(range(3), repeat=n):
            out.append((list(t), "exhaustive{0,1,2}^n"))
    if ck.thorough():
        for n in range(1, 5):
            for t in itertools.product(range(4), repeat=n):
                if 3 in t:
                    out.append((list(t), "exhaustive{0..3}^n"))
    rng = ck.rng("quantile-direct")
    nr = ck.n(90, 900)
    for k in range(nr):
        n = int(rng.integers(5, ck.n(8, 14)))
        kind = k % 5
        if kind == 0:
            v = rng.integers(-3, 4, n)
            b = "random-ties"
        elif kind == 1:
            v = rng.permutation(n) * 3 - 5
            b = "distinct"
        elif kind == 2:
            v = np.full(n, int(rng.integers(-9, 10)))
            b = "constant"
        elif kind == 3:
            v = np.sort(rng.integers(-4, 5, n))
            if k % 2:
                v = v[::-1]
            b = "sorted/reversed"
        else:
            v = rng.integers(0, 2, n) * int(rng.integers(1, 50))
            b = "two-valued"
        out.append(([int(a) for a in v], b))
    return out


def _q_ratios(n, full):
    rs = {0.0, 1.0, 0.5}
    step = 1 if full else 2
    for j in range(0, 4 * n + 1, step):
        rs.add(j / (4.0 * n))
    for j in range(0, 9):
        rs.add(j / 8.0)
    return sorted(rs)


def _q_check_value(ck, where, vals, r, interp, v, replay):
    """Property statement on the implementation output (independent of Coq)."""
    n = len(vals)
    s = sorted(vals)
    if math.isnan(v):
        ck.fail("quantile/%s/nan" % where, "returned nan for data %s r=%r interp=%s" % (vals, r, interp), replay)
        return
    if n == 1:
        if v != vals[0]:
            ck.fail("quantile/%s/size-1" % where, "size-1 sample must return its element: got %r" % (v,), replay)
        return
    p, w = _q_expected_rank(r, n, interp)
    if not interp:
        if p == n:
            if not (math.isinf(v) and v > 0):
                ck.fail("quantile/%s/noninterp/p=n-not-inf" % where, "ceil(r*n) == n must give +inf, got %r" % (v,), replay)
            return
        lt = sum(1 for a in vals if a < v)
        le = sum(1 for a in vals if a <= v)
        if not (lt <= p < le) or v not in vals:
            ck.fail("quantile/%s/noninterp/not-pth-order-statistic" % where,
                    "r=%r n=%d: returned %r is not the order statistic of rank ceil(r n)=%d (sorted %s)" % (r, n, v, p, s), replay)
        return
    if w == 0:
        exp = Fraction(s[p])
    else:
        exp = (1 - w) * s[p] + w * s[p + 1]
    if abs(frac(v) - exp) > Fraction(1, 10 ** 11) * (1 + max(abs(a) for a in vals)):
        feat = "last-interval(p=n-2)" if (w != 0 and p == n - 2) else ("p<n-2" if w != 0 else "integral-rank")
        sig = "quantile/interp/last-interval(p=n-2)" if feat.startswith("last") else "quantile/%s/interp/%s" % (where, feat)
        ck.fail(sig,
                "r=%r n=%d interp: returned %r, linear interpolation between ranks %d and %d of %s is %s" % (
                    r, n, v, p, p + 1, s, float(exp)), replay)


def quantile_direct(ck):
    lib = _q_lib(ck)
    arrays = _q_arrays(ck)
    strides = [1, -1, 2, -3]
    cases = []
    meta = []
    k = 0
    for vals, bucket in arrays:
        n = len(vals)
        full = n <= 5 or ck.thorough()
        for r in _q_ratios(n, full):
            for interp in (0, 1):
                st = strides[k % len(strides)]
                k += 1
                cases.append((vals, st, r, interp))
                meta.append(bucket)
    res = run_guarded(lambda c: _q_direct_call(lib, c), cases)
    terms = []
    tmeta = []
    for (vals, st, r, interp), bucket, rr in zip(cases, meta, res):
        n = len(vals)
        replay = {"call": "quantile(double* data, size, stride, r, interp) via ctypes on the rebuilt _quantile module",
                  "data": vals, "stride": st, "r": r, "interp": interp}
        ck.count(("qd", tuple(vals), st, r, interp), nontrivial=n > 1, bucket="quantile-direct:" + bucket)
        if rr[0] in ("hang", "crash"):
            ck.fail("quantile/direct/%s" % rr[0],
                    "the C function did not return within %d s (child exit %r) on data=%s r=%r interp=%d" % (HANG_ALARM, rr[1], vals, r, interp),
                    replay)
            continue
        if rr[0] != "ok":
            continue
        v, buf, guards_ok = rr[1]
        if not guards_ok:
            ck.fail("quantile/direct/out-of-bounds-write", "cells outside the strided sample were modified", replay)
        perm_ok = sorted(buf) == sorted(float(a) for a in vals)
        if not perm_ok:
            ck.fail("quantile/direct/buffer-not-a-permutation", "buffer after the call %s is not a permutation of %s" % (
                [float(b) for b in buf], vals), replay)
        _q_check_value(ck, "direct", vals, r, interp, v, replay)
        exact = _q_exact_case(vals, r, interp)
        if math.isnan(v) or not perm_ok:
            continue
        tol = Fraction(1, 10 ** 12) * (1 + max(abs(a) for a in vals))
        terms.append(_q_model_term(vals, r, interp, v, buf, exact, tol))
        tmeta.append((vals, st, r, interp, v, buf, exact))
    ck.sample({"direct-call": {"data": cases[len(cases) // 2][0], "stride": cases[len(cases) // 2][1],
                               "r": cases[len(cases) // 2][2], "interp": cases[len(cases) // 2][3],
                               "impl (value, buffer after, guards ok)": str(res[len(cases) // 2][1])}})
    nbad = 0
    if ck.build is not None and ck.build.ok and terms:
        ok = ck.coq_bools(QHDR, terms, shard=400, name="qdirect")
        ck.cov["traces_validated_against_impl"] += len(ok)
        for good, (vals, st, r, interp, v, buf, exact) in zip(ok, tmeta):
            if not good:
                nbad += 1
                if nbad > 1:
                    ck.fail("quantile/direct/model-vs-impl", "", {})
                    continue
                mv = ck.coq_show(QHDR, "quantile %s %s %s %s" % (cnat(len(vals)), czl(vals), cq(Fraction(float(r))), cbool(interp)))
                ck.fail("quantile/direct/model-vs-impl",
                        "model and C disagree (%s): data=%s stride=%d r=%r interp=%d: impl value %r buffer %s; model %s" % (
                            "exact" if exact else "1e-12", vals, st, r, interp, v, buf, mv),
                        {"data": vals, "stride": st, "r": r, "interp": interp, "impl_value": v, "impl_buffer": buf, "model": mv})
    ck.section("quantile-direct", arrays=len(arrays), calls=len(cases), model_terms=len(terms),
               strides=strides, exact_terms=sum(1 for t in tmeta if t[6]), tolerance_terms=sum(1 for t in tmeta if not t[6]))


def _q_nd_views(ck):
    """n-d integer arrays (1..4 dims, extents 1..7) as float64 views with C/F order,
    negative and non-unit strides; returns (view, description)."""
    rng = ck.rng("quantile-nd")
    out = []
    N = ck.n(40, 300)
    for k in range(N):
        nd = 1 + k % 4
        while True:
            shape = tuple(int(e) for e in rng.integers(1, 8, nd))
            if int(np.prod(shape)) <= 220:
                break
        steps = [int(rng.choice([1, 1, -1, 2, -2])) for _ in shape]
        big = tuple(e * abs(s) for e, s in zip(shape, steps))
        order = "F" if (k // 4) % 2 else "C"
        kind = k % 3
        if kind == 0:
            base = rng.integers(-3, 4, big)
        elif kind == 1:
            base = rng.integers(0, 2, big) * 7
        else:
            base = rng.permutation(int(np.prod(big))).reshape(big) - 10
        base = np.array(base, dtype=np.float64, order=order)
        sl = tuple(slice(None, None, s) if s > 0 else slice(None, None, s) for s in steps)
        view = base[sl]
        # take exactly `shape` entries per axis
        view = view[tuple(slice(0, e) for e in shape)]
        assert view.shape == shape
        out.append((view, {"shape": shape, "steps": steps, "order": order, "kind": ["ties", "two-valued", "distinct"][kind]}))
    return out


def _q_nd_call(case):
    from nipy.algorithms.statistics import quantile, median
    view, axis, r, interp, which, as_int = case
    X = view.astype(np.int64) if as_int else np.array(view, copy=True, order="K")
    if not as_int:
        # rebuild the same strided view on a private copy of the base memory (asarray keeps the view:
        # the C code then walks the real strides)
        base = view.base if view.base is not None else view
        bcopy = np.array(base, copy=True, order="K")
        off = (view.__array_interface__["data"][0] - base.__array_interface__["data"][0])
        X = np.ndarray(view.shape, np.float64, bcopy, offset=off, strides=view.strides)
    if which == "median":
        Y = median(X, axis=axis)
    else:
        Y = quantile(X, r, interp=bool(interp), axis=axis)
    return np.array(Y)


def quantile_nd(ck):
    views = _q_nd_views(ck)
    cases = []
    for k, (view, desc) in enumerate(views):
        for axis in range(view.ndim):
            n = view.shape[axis]
            rs = [0.0, 1.0, 0.5, 1.0 / (4 * n), (k % (4 * n + 1)) / (4.0 * n), ((3 * k + 1) % (4 * n + 1)) / (4.0 * n), 0.75]
            for j, r in enumerate(sorted(set(rs))):
                interp = (j + k + axis) % 2
                cases.append((view, axis, r, interp, "quantile", (k + j) % 3 == 0))
            cases.append((view, axis, 0.5, 1, "median", k % 2 == 0))
    res = run_guarded(_q_nd_call, cases)
    terms = []
    tmeta = []
    for case, rr in zip(cases, res):
        view, axis, r, interp, which, as_int = case
        n = view.shape[axis]
        replay = {"call": "nipy.algorithms.statistics.%s" % which, "array": view.astype(int).tolist(),
                  "strides_bytes": view.strides, "dtype": "int64" if as_int else "float64 strided view",
                  "axis": axis, "ratio": r, "interp": interp}
        ck.count(("qnd", view.shape, view.strides, view.astype(int).tobytes(), axis, r, interp, which, as_int),
                 nontrivial=n > 1, bucket="quantile-nd:%dd" % view.ndim)
        if rr[0] in ("hang", "crash"):
            ck.fail("quantile/nd/%s" % rr[0], "%s: child process %s (alarm %d s, exit %r)" % (which, rr[0], HANG_ALARM, rr[1]), replay)
            continue
        if rr[0] == "exc":
            ck.fail("quantile/nd/raises", "%s raised %s" % (which, rr[1]), replay)
            continue
        if rr[0] != "ok":
            continue
        Y = rr[1]
        eshape = list(view.shape)
        eshape[axis] = 1
        if list(Y.shape) != eshape:
            ck.fail("quantile/nd/shape", "result shape %s, expected %s" % (Y.shape, eshape), replay)
            continue
        fibs = []
        moved = np.moveaxis(view, axis, -1).reshape(-1, n)
        ymoved = np.moveaxis(Y, axis, -1).reshape(-1)
        parts = []
        for fib, y in zip(moved, ymoved):
            vals = [int(a) for a in fib]
            _q_check_value(ck, "nd", vals, r, interp, float(y), dict(replay, fibre=vals))
            if math.isnan(float(y)):
                continue
            exact = _q_exact_case(vals, r, interp)
            tol = Fraction(1, 10 ** 12) * (1 + max(abs(a) for a in vals))
            parts.append(_q_model_term(vals, r, interp, float(y), None, exact, tol))
            fibs.append(vals)
        # NumPy definitions on the whole array
        if which == "median":
            npm = np.median(view, axis=axis, keepdims=True)
            bad = np.argwhere(npm != Y)
            for b in bad[:1]:
                fib = [int(a) for a in np.moveaxis(view, axis, -1)[tuple(np.delete(b, axis))]]
                ck.fail("quantile/interp/last-interval(p=n-2)" if n == 2 else "quantile/nd/median-vs-numpy",
                        "median along axis %d of a fibre %s: nipy %r, numpy %r" % (axis, fib, float(Y[tuple(b)]), float(npm[tuple(b)])),
                        dict(replay, fibre=fib))
        if parts:
            terms.append(" && ".join("(%s)" % p for p in parts))
            tmeta.append((replay, fibs, Y.tolist()))
    if cases:
        c0 = cases[min(len(cases) - 1, 11)]
        ck.sample({"nd-call": {"shape": c0[0].shape, "strides": c0[0].strides, "axis": c0[1], "ratio": c0[2], "interp": c0[3], "fn": c0[4]}})
    if ck.build is not None and ck.build.ok and terms:
        ok = ck.coq_bools(QHDR, terms, shard=120, name="qnd")
        ck.cov["traces_validated_against_impl"] += len(ok)
        for good, (replay, fibs, Y) in zip(ok, tmeta):
            if not good:
                ck.fail("quantile/nd/model-vs-impl", "model and %s disagree on some fibre of the array (axis %s ratio %r interp %s): impl %s" % (
                    replay["call"], replay["axis"], replay["ratio"], replay["interp"], Y), dict(replay, fibres=fibs, impl=Y))
    ck.section("quantile-nd", arrays=len(views), calls=len(cases), model_terms=len(terms))


def _q_empty_call(case):
    from nipy.algorithms.statistics import quantile
    shape, axis = case
    return np.array(quantile(np.zeros(shape), 0.5, interp=True, axis=axis))


def quantile_empty(ck):
    """Empty sample: the C function must not be reached with size 0 (the model says Fault: read of x[0]
    and x[-stride] of an empty buffer); the wrapper skips the call and returns its zero-initialised output."""
    cases = [((0,), 0), ((0, 3), 0), ((2, 0), 1)]
    res = run_guarded(_q_empty_call, cases, alarm=10, max_restarts=3)
    for (shape, axis), rr in zip(cases, res):
        ck.count(("qempty", shape, axis), nontrivial=True, bucket="quantile-empty-axis")
        replay = {"call": "nipy.algorithms.statistics.quantile(np.zeros(%s), 0.5, interp=True, axis=%d)" % (shape, axis)}
        if rr[0] == "exc":
            continue            # raising is an acceptable answer for an empty sample
        if rr[0] in ("hang", "crash"):
            ck.fail("quantile/empty-axis/crash", "empty sample: child %s" % rr[0], replay)
            continue
        if rr[0] == "ok":
            Y = rr[1]
            if Y.size and not np.all(np.isnan(Y)):
                ck.fail("quantile/empty-axis/returns-zero",
                        "quantile of an empty sample (size 0 along the axis) with interp=True returns %s (the zero-initialised output is "
                        "never filled); numpy.median / numpy.quantile give nan" % Y.tolist(), replay)
    if ck.build is not None and ck.build.ok:
        ok = ck.coq_bools(QHDR, ["match quantile 3 [] (1#2) true with Fault => true | _ => false end"], name="qempty")
        if not ok[0]:
            ck.fail("quantile/empty-axis/model", "model no longer faults on the empty sample", {})


FHDR = ("From Coq Require Import ZArith List.\nFrom NV.C16 Require Import FibreModel.\n")


def _q_fib_call(case):
    """Fill the strided view with each element's own offset (in elements, relative to view[0,..,0]);
    the minimum (r=0) and maximum (r=1, interp) of every fibre then reveal which (start, stride, size)
    triple the wrapper handed to the C kernel, and in which order the fibres are visited."""
    from nipy.algorithms.statistics import quantile
    view, axis = case
    base = view.base if view.base is not None else view
    bcopy = np.array(base, copy=True, order="K")
    off = (view.__array_interface__["data"][0] - base.__array_interface__["data"][0])
    X = np.ndarray(view.shape, np.float64, bcopy, offset=off, strides=view.strides)
    offs = np.zeros(view.shape)
    for k, (n, st) in enumerate(zip(view.shape, view.strides)):
        shp = [1] * view.ndim
        shp[k] = n
        offs = offs + (np.arange(n) * (st // 8)).reshape(shp)
    X[...] = offs
    lo = np.array(quantile(X, 0.0, interp=False, axis=axis))
    X[...] = offs
    hi = np.array(quantile(X, 1.0, interp=True, axis=axis))
    return lo.reshape(-1).tolist(), hi.reshape(-1).tolist()


def quantile_fibres(ck):
    views = _q_nd_views(ck)
    cases = [(v, ax) for v, d in views for ax in range(v.ndim)]
    res = run_guarded(_q_fib_call, cases)
    terms = []
    meta = []
    for (view, axis), rr in zip(cases, res):
        shape = list(view.shape)
        strides = [s // 8 for s in view.strides]
        replay = {"shape": shape, "strides_elements": strides, "axis": axis}
        ck.count(("qfib", tuple(shape), tuple(strides), axis), nontrivial=view.size > 1, bucket="fibre-iteration:%dd" % view.ndim)
        if rr[0] != "ok":
            ck.fail("quantile/fibres/%s" % rr[0], "fibre probe did not complete: %r" % (rr[1],), replay)
            continue
        lo, hi = rr[1]
        # direct oracle: numpy's own fibres of the offset array
        offs = np.zeros(view.shape)
        for k, (n, st) in enumerate(zip(shape, strides)):
            shp = [1] * view.ndim
            shp[k] = n
            offs = offs + (np.arange(n) * st).reshape(shp)
        elo = offs.min(axis=axis, keepdims=True).reshape(-1).tolist()
        ehi = offs.max(axis=axis, keepdims=True).reshape(-1).tolist()
        if lo != elo or hi != ehi:
            feat = "negative-stride" if strides[axis] < 0 else ("non-unit-stride" if abs(strides[axis]) != 1 else "unit-stride")
            ck.fail("quantile/fibres/wrong-elements/%s" % feat,
                    "min/max element offsets per fibre along axis %d are %s / %s, numpy's fibres give %s / %s" % (axis, lo, hi, elo, ehi),
                    dict(replay, impl_min=lo, impl_max=hi))
        pairs = "[" + "; ".join("(%s, %s)" % (cz(a), cz(b)) for a, b in zip(lo, hi)) + "]"
        terms.append("zpairs_eqb (fibre_extremes %s %s %s) %s" % (
            "[" + "; ".join(cnat(n) for n in shape) + "]", czl(strides), cnat(axis), pairs))
        meta.append((replay, lo, hi))
    if ck.build is not None and ck.build.ok and terms:
        ok = ck.coq_bools(FHDR, terms, shard=60, name="qfib")
        ck.cov["traces_validated_against_impl"] += len(ok)
        for good, (replay, lo, hi) in zip(ok, meta):
            if not good:
                ck.fail("quantile/fibres/model-vs-impl", "fibre model (FibreModel.fibres) and the wrapper's iteration disagree: %s" % replay,
                        dict(replay, impl_min=lo, impl_max=hi))
    ck.section("fibre-iteration", calls=len(cases), model_terms=len(terms))


def _timed(ck, name, fn):
    import time
    t = time.time()
    fn(ck)
    ck.section("timing", **{name + "_s": round(time.time() - t, 1)})


def quantile_section(ck):
    _timed(ck, "quantile_direct", quantile_direct)
    _timed(ck, "quantile_nd", quantile_nd)
    _timed(ck, "quantile_empty", quantile_empty)
    _timed(ck, "quantile_fibres", quantile_fibres)


# ====================================================================== blas (fff_blas.c)
# ---------------------------------------------------------------------------
# C16 / blas section: row-major wrappers of column-major BLAS (lib/fff/fff_blas.c)
#   paste into harness/props/c16.py; run(ck) must have called ck.coq_build()
#   and ck.overlay() before blas(ck).
# ---------------------------------------------------------------------------
import ctypes as _blas_ct
import itertools as _blas_it

import numpy as _blas_np

blas_HDR = ("From Coq Require Import List ZArith.\n"
            "From NV.Generated Require Import FffBlas.\n"
            "From NV.C16 Require Import BlasModel.\n")

# CBLAS enum values of fff_blas.h and their Coq names
blas_TRANS = {111: "CblasNoTrans", 112: "CblasTrans", 113: "CblasConjTrans"}
blas_UPLO = {121: "CblasUpper", 122: "CblasLower"}
blas_DIAG = {131: "CblasNonUnit", 132: "CblasUnit"}
blas_SIDE = {141: "CblasLeft", 142: "CblasRight"}
# integer conventions of the Python wrappers in nipy/labs/bindings/linalg.pyx (flag <= 0 -> first value)
blas_PYFLAG = {111: 0, 112: 1, 121: 0, 122: 1, 131: 0, 132: 1, 141: 0, 142: 1}
blas_FLAGNAME = {}
for _blas_d in (blas_TRANS, blas_UPLO, blas_DIAG, blas_SIDE):
    blas_FLAGNAME.update(_blas_d)
blas_LETTER = {111: "N", 112: "T", 113: "C", 121: "U", 122: "L", 131: "N", 132: "U", 141: "L", 142: "R"}


class _blas_FM(_blas_ct.Structure):
    _fields_ = [("size1", _blas_ct.c_size_t), ("size2", _blas_ct.c_size_t), ("tda", _blas_ct.c_size_t),
                ("data", _blas_ct.POINTER(_blas_ct.c_double)), ("owner", _blas_ct.c_int)]


class _blas_FV(_blas_ct.Structure):
    _fields_ = [("size", _blas_ct.c_size_t), ("stride", _blas_ct.c_size_t),
                ("data", _blas_ct.POINTER(_blas_ct.c_double)), ("owner", _blas_ct.c_int)]


def _blas_fm(a):
    """contiguous float64 copy + fff_matrix view on it (keep both alive)"""
    a = _blas_np.array(a, dtype=_blas_np.float64, order="C", copy=True)
    return a, _blas_FM(a.shape[0], a.shape[1], a.shape[1], a.ctypes.data_as(_blas_ct.POINTER(_blas_ct.c_double)), 0)


def _blas_fv(x):
    x = _blas_np.array(x, dtype=_blas_np.float64, order="C", copy=True)
    return x, _blas_FV(x.shape[0], 1, x.ctypes.data_as(_blas_ct.POINTER(_blas_ct.c_double)), 0)


def _blas_lib(ck):
    """libcstat.so built by the overlay from the CURRENT lib/fff + lapack_lite C sources"""
    path = (getattr(ck, "ov", None) or {}).get("cstat")
    if path is None:
        path = ck.overlay(cstat=True)["cstat"]
    lib = _blas_ct.CDLL(str(path))
    I, D = _blas_ct.c_int, _blas_ct.c_double
    M, V = _blas_ct.POINTER(_blas_FM), _blas_ct.POINTER(_blas_FV)
    sigs = {"dgemv": [I, D, M, V, D, V], "dtrsv": [I, I, I, M, V], "dgemm": [I, I, D, M, M, D, M],
            "dsymm": [I, I, D, M, M, D, M], "dtrmm": [I, I, I, I, D, M, M], "dtrsm": [I, I, I, I, D, M, M],
            "dsyrk": [I, I, D, M, D, M], "dsyr2k": [I, I, D, M, M, D, M]}
    fns = {}
    for r, at in sigs.items():
        f = getattr(lib, "fff_blas_" + r)
        f.argtypes = at
        f.restype = I
        fns[r] = f
    return fns


def _blas_ri(rng, shape, lo=-3, hi=3):
    return rng.integers(lo, hi + 1, size=shape).astype(_blas_np.float64)


def _blas_tri_pm1(rng, n):
    """integer matrix with +-1 diagonal (both triangles filled): triangular solves stay exact integers"""
    a = _blas_ri(rng, (n, n))
    a[_blas_np.arange(n), _blas_np.arange(n)] = rng.choice([-1.0, 1.0], size=n)
    return a


def _blas_zl(a):
    return "[" + "; ".join("(%d)%%Z" % int(v) for v in _blas_np.asarray(a).ravel()) + "]"


def _blas_zm(a):
    return "(zm %d %d %s)" % (a.shape[0], a.shape[1], _blas_zl(a))


def _blas_zv(x):
    return "(zv %s)" % _blas_zl(x)


def _blas_z(v):
    return "(%d)%%Z" % int(v)


def _blas_op(t, a):
    return a if t == 111 else a.T


def _blas_symm(uplo, a):
    return _blas_np.triu(a) + _blas_np.triu(a, 1).T if uplo == 121 else _blas_np.tril(a) + _blas_np.tril(a, -1).T


def _blas_tri(uplo, diag, a):
    t = _blas_np.triu(a) if uplo == 121 else _blas_np.tril(a)
    if diag == 132:
        t = t.copy()
        _blas_np.fill_diagonal(t, 1.0)
    return t


def _blas_trimask(uplo, n):
    i, j = _blas_np.indices((n, n))
    return (i <= j) if uplo == 121 else (j <= i)


def _blas_lst(a):
    return _blas_np.asarray(a).tolist()


def _blas_cases(ck, rng):
    """yield dicts: routine, feat, flags (C enum ints), args, dims key - iterated small to large"""
    th = ck.thorough()
    dmax = 4 if th else 3
    reps = ck.n(3, 8)
    sc = lambda: int(rng.integers(-2, 3))
    TR = [111, 112, 113]
    for rep in range(reps):
        for d in range(1, dmax + 1):          # size tier: all dims <= d, at least one == d
            dims2 = [p for p in _blas_it.product(range(1, d + 1), repeat=2) if max(p) == d]
            dims3 = [p for p in _blas_it.product(range(1, d + 1), repeat=3) if max(p) == d]
            # ---- dgemm: C (m x n) = alpha op(A) (m x k) op(B) (k x n) + beta C
            for ta, tb in _blas_it.product(TR, TR):
                for m, n, k in dims3:
                    A = _blas_ri(rng, (m, k) if ta == 111 else (k, m))
                    B = _blas_ri(rng, (k, n) if tb == 111 else (n, k))
                    yield dict(r="dgemm", flags=(ta, tb), alpha=sc(), beta=sc(), A=A, B=B, C=_blas_ri(rng, (m, n)))
            # ---- dgemv: y = alpha op(A) x + beta y
            for ta, _ in _blas_it.product(TR, range(3)):
                for m, n in dims2:
                    A = _blas_ri(rng, (m, n))
                    lx, ly = (n, m) if ta == 111 else (m, n)
                    yield dict(r="dgemv", flags=(ta,), alpha=sc(), beta=sc(), A=A, x=_blas_ri(rng, lx), y=_blas_ri(rng, ly))
            # ---- dsymm
            for s, u, _ in _blas_it.product(blas_SIDE, blas_UPLO, range(2)):
                for m, n in dims2:
                    na = m if s == 141 else n
                    yield dict(r="dsymm", flags=(s, u), alpha=sc(), beta=sc(), A=_blas_ri(rng, (na, na)),
                               B=_blas_ri(rng, (m, n)), C=_blas_ri(rng, (m, n)))
            # ---- dtrmm / dtrsm
            for s, u, ta, dg in _blas_it.product(blas_SIDE, blas_UPLO, TR, blas_DIAG):
                for m, n in dims2:
                    na = m if s == 141 else n
                    yield dict(r="dtrmm", flags=(s, u, ta, dg), alpha=sc(), A=_blas_ri(rng, (na, na)), B=_blas_ri(rng, (m, n)))
                    yield dict(r="dtrsm", flags=(s, u, ta, dg), alpha=sc(), A=_blas_tri_pm1(rng, na), B=_blas_ri(rng, (m, n)))
            # ---- dtrsv
            for u, ta, dg in _blas_it.product(blas_UPLO, TR, blas_DIAG):
                for _ in range(2):
                    yield dict(r="dtrsv", flags=(u, ta, dg), A=_blas_tri_pm1(rng, d), x=_blas_ri(rng, d))
            # ---- dsyrk / dsyr2k: C (n x n), op(A) n x k.  Non-square A only in the direction where the
            #      dimension k actually passed by the wrapper stays inside the buffer (no out-of-bounds read)
            for u, t, _ in _blas_it.product(blas_UPLO, TR, range(2)):
                for n, k in dims2:
                    passed_k = n                      # the code passes the row count of op(A) as k
                    if passed_k > k:
                        continue
                    shp = (n, k) if t == 111 else (k, n)
                    yield dict(r="dsyrk", flags=(u, t), alpha=sc(), beta=sc(), A=_blas_ri(rng, shp), C=_blas_ri(rng, (n, n)))
                    yield dict(r="dsyr2k", flags=(u, t), alpha=sc(), beta=sc(), A=_blas_ri(rng, shp),
                               B=_blas_ri(rng, shp), C=_blas_ri(rng, (n, n)))


def _blas_run_case(c, fns, L):
    """returns (out_c, out_py|None, expected|None, residual_ok|None, feat, coq_call, out_operand, replay)"""
    r, fl = c["r"], c["flags"]
    by = _blas_ct.byref
    out_py = None
    res_ok = None
    exp = None
    pyok = all(f in blas_PYFLAG for f in fl)
    pf = [blas_PYFLAG.get(f) for f in fl]
    replay = {"routine": "fff_blas_" + r, "flags": list(fl),
              "flag_names": [blas_FLAGNAME[f] for f in fl]}
    for k in ("alpha", "beta"):
        if k in c:
            replay[k] = c[k]
    for k in ("A", "B", "C", "x", "y"):
        if k in c:
            replay[k] = _blas_lst(c[k])
    if r == "dgemm":
        ta, tb = fl
        feat = "transA=%s,transB=%s" % (blas_LETTER[ta], blas_LETTER[tb])
        A, a = _blas_fm(c["A"]); B, b = _blas_fm(c["B"]); C, cc = _blas_fm(c["C"])
        fns[r](ta, tb, c["alpha"], by(a), by(b), c["beta"], by(cc))
        out = C
        exp = c["alpha"] * _blas_op(ta, c["A"]) @ _blas_op(tb, c["B"]) + c["beta"] * c["C"]
        if pyok:
            out_py = L.blas_dgemm(pf[0], pf[1], float(c["alpha"]), c["A"].copy(), c["B"].copy(), float(c["beta"]), c["C"].copy())
        call = "zcall_dgemm %s %s %s %s %s %s %s" % (blas_TRANS[ta], blas_TRANS[tb], _blas_z(c["alpha"]), _blas_zm(c["A"]),
                                                     _blas_zm(c["B"]), _blas_z(c["beta"]), _blas_zm(c["C"]))
        outop = "OpC"
    elif r == "dgemv":
        (ta,) = fl
        feat = "transA=%s" % blas_LETTER[ta]
        A, a = _blas_fm(c["A"]); X, x = _blas_fv(c["x"]); Y, y = _blas_fv(c["y"])
        fns[r](ta, c["alpha"], by(a), by(x), c["beta"], by(y))
        out = Y
        exp = c["alpha"] * _blas_op(ta, c["A"]) @ c["x"] + c["beta"] * c["y"]
        call = "zcall_dgemv %s %s %s %s %s %s" % (blas_TRANS[ta], _blas_z(c["alpha"]), _blas_zm(c["A"]), _blas_zv(c["x"]),
                                                  _blas_z(c["beta"]), _blas_zv(c["y"]))
        outop = "OpY"
    elif r == "dsymm":
        s, u = fl
        feat = "side=%s,uplo=%s" % (blas_LETTER[s], blas_LETTER[u])
        A, a = _blas_fm(c["A"]); B, b = _blas_fm(c["B"]); C, cc = _blas_fm(c["C"])
        fns[r](s, u, c["alpha"], by(a), by(b), c["beta"], by(cc))
        out = C
        S = _blas_symm(u, c["A"])
        exp = c["alpha"] * (S @ c["B"] if s == 141 else c["B"] @ S) + c["beta"] * c["C"]
        out_py = L.blas_dsymm(pf[0], pf[1], float(c["alpha"]), c["A"].copy(), c["B"].copy(), float(c["beta"]), c["C"].copy())
        call = "zcall_dsymm %s %s %s %s %s %s %s" % (blas_SIDE[s], blas_UPLO[u], _blas_z(c["alpha"]), _blas_zm(c["A"]),
                                                     _blas_zm(c["B"]), _blas_z(c["beta"]), _blas_zm(c["C"]))
        outop = "OpC"
    elif r in ("dtrmm", "dtrsm"):
        s, u, ta, dg = fl
        feat = "side=%s,uplo=%s,transA=%s,diag=%s" % (blas_LETTER[s], blas_LETTER[u], blas_LETTER[ta], blas_LETTER[dg])
        A, a = _blas_fm(c["A"]); B, b = _blas_fm(c["B"])
        fns[r](s, u, ta, dg, c["alpha"], by(a), by(b))
        out = B
        T = _blas_op(ta, _blas_tri(u, dg, c["A"]))
        if r == "dtrmm":
            exp = c["alpha"] * (T @ c["B"] if s == 141 else c["B"] @ T)
        else:   # op(A) X = alpha B  /  X op(A) = alpha B ; T is unimodular so X is the unique integer solution
            res_ok = bool(_blas_np.array_equal(T @ out if s == 141 else out @ T, c["alpha"] * c["B"]))
        # the Python wrapper allocates the result with A's shape: only usable when B has A's shape
        if pyok and c["B"].shape == c["A"].shape:
            out_py = getattr(L, "blas_" + r)(pf[0], pf[1], pf[2], pf[3], float(c["alpha"]), c["A"].copy(), c["B"].copy())
        call = "zcall_%s %s %s %s %s %s %s %s" % (r, blas_SIDE[s], blas_UPLO[u], blas_TRANS[ta], blas_DIAG[dg],
                                                  _blas_z(c["alpha"]), _blas_zm(c["A"]), _blas_zm(c["B"]))
        outop = "OpB"
    elif r == "dtrsv":
        u, ta, dg = fl
        feat = "uplo=%s,transA=%s,diag=%s" % (blas_LETTER[u], blas_LETTER[ta], blas_LETTER[dg])
        A, a = _blas_fm(c["A"]); X, x = _blas_fv(c["x"])
        fns[r](u, ta, dg, by(a), by(x))
        out = X
        T = _blas_op(ta, _blas_tri(u, dg, c["A"]))
        res_ok = bool(_blas_np.array_equal(T @ out, c["x"]))
        call = "zcall_dtrsv %s %s %s %s %s" % (blas_UPLO[u], blas_TRANS[ta], blas_DIAG[dg], _blas_zm(c["A"]), _blas_zv(c["x"]))
        outop = "OpX"
    elif r in ("dsyrk", "dsyr2k"):
        u, t = fl
        square = c["A"].shape[0] == c["A"].shape[1]
        # non-square A: known defect (the wrapper passes the row count of op(A) as k) -> one signature per routine
        feat = ("uplo=%s,trans=%s" % (blas_LETTER[u], blas_LETTER[t])) if square else "k-dimension/nonsquare-A"
        A, a = _blas_fm(c["A"]); C, cc = _blas_fm(c["C"])
        Ao = _blas_op(t, c["A"])
        if r == "dsyrk":
            fns[r](u, t, c["alpha"], by(a), c["beta"], by(cc))
            full = c["alpha"] * Ao @ Ao.T + c["beta"] * c["C"]
            if pyok and square:
                out_py = L.blas_dsyrk(pf[0], pf[1], float(c["alpha"]), c["A"].copy(), float(c["beta"]), c["C"].copy())
            call = "zcall_dsyrk %s %s %s %s %s %s" % (blas_UPLO[u], blas_TRANS[t], _blas_z(c["alpha"]), _blas_zm(c["A"]),
                                                      _blas_z(c["beta"]), _blas_zm(c["C"]))
        else:
            B, b = _blas_fm(c["B"])
            Bo = _blas_op(t, c["B"])
            fns[r](u, t, c["alpha"], by(a), by(b), c["beta"], by(cc))
            full = c["alpha"] * (Ao @ Bo.T + Bo @ Ao.T) + c["beta"] * c["C"]
            if pyok and square:
                out_py = L.blas_dsyr2k(pf[0], pf[1], float(c["alpha"]), c["A"].copy(), c["B"].copy(), float(c["beta"]), c["C"].copy())
            call = "zcall_dsyr2k %s %s %s %s %s %s %s" % (blas_UPLO[u], blas_TRANS[t], _blas_z(c["alpha"]), _blas_zm(c["A"]),
                                                         _blas_zm(c["B"]), _blas_z(c["beta"]), _blas_zm(c["C"]))
        out = C
        # only the uplo triangle of C (row-major sense) is defined by the documentation; the code leaves
        # the other triangle untouched, which is what is modelled and compared here
        exp = _blas_np.where(_blas_trimask(u, c["C"].shape[0]), full, c["C"])
        outop = "OpC"
    else:
        raise AssertionError(r)
    return out, out_py, exp, res_ok, feat, call, outop, replay


def _blas_all_square(c):
    dims = set()
    for k in ("A", "B", "C", "x", "y"):
        if k in c:
            dims.update(_blas_np.shape(c[k]))
    return len(dims) == 1


def _blas_exec(ck, cases):
    """Run every case in a forked child process.  The f2c XERBLA of lapack_lite ends the process with
    exit(0) (s_stop) when a Fortran routine rejects an argument, which would silently end the whole check:
    the child writes one pickled result per case, the parent notices a child that ended early, reports the
    case in progress, drops the remaining non-square cases of that routine (square ones
    pass every leading-dimension check, so they still give a value-level replay) and forks again.
    Returns a list with, per case, the result tuple, "died" or None (skipped)."""
    import os
    import pickle
    import sys
    results = [None] * len(cases)
    dead = set()
    start = 0
    path = str(ck.scratch / "blas_results.pkl")
    while start < len(cases):
        sys.stdout.flush()
        sys.stderr.flush()
        open(path, "wb").close()
        pid = os.fork()
        if pid == 0:                       # child
            code = 3
            try:
                from nipy.labs.bindings import linalg as L
                fns = _blas_lib(ck)
                with open(path, "ab") as f:
                    for i in range(start, len(cases)):
                        if cases[i]["r"] in dead and not _blas_all_square(cases[i]):
                            continue
                        pickle.dump(("start", i), f)
                        f.flush()
                        try:
                            res = _blas_run_case(cases[i], fns, L)
                        except Exception as e:  # noqa
                            res = ("raised", "%s: %s" % (type(e).__name__, e))
                        pickle.dump(("done", i, res), f)
                        f.flush()
                    pickle.dump(("end",), f)
                    f.flush()
                code = 0
            finally:
                os._exit(code)
        _, status = os.waitpid(pid, 0)
        ended, in_progress = False, None
        with open(path, "rb") as f:
            while True:
                try:
                    rec = pickle.load(f)
                except EOFError:
                    break
                if rec[0] == "start":
                    in_progress = rec[1]
                elif rec[0] == "done":
                    results[rec[1]] = rec[2]
                    in_progress = None
                else:
                    ended = True
        if ended:
            break
        if in_progress is None:            # child ended outside a case: do not loop for ever
            raise RuntimeError("blas child process ended unexpectedly (status %r) outside a case" % (status,))
        results[in_progress] = ("died", status)
        dead.add(cases[in_progress]["r"])
        start = in_progress + 1
    return results


def _blas_replay(c):
    rp = {"routine": "fff_blas_" + c["r"], "flags": list(c["flags"]), "flag_names": [blas_FLAGNAME[f] for f in c["flags"]]}
    for k in ("alpha", "beta"):
        if k in c:
            rp[k] = c[k]
    for k in ("A", "B", "C", "x", "y"):
        if k in c:
            rp[k] = _blas_lst(c[k])
    return rp


def blas(ck):
    """fff_blas.c wrappers: direct numpy oracle on the documented row-major result + exact correspondence
    with the Z instance of fff_call over the GENERATED flag/operand/dimension table."""
    rng = ck.rng("blas")
    terms, meta = [], []
    ncase = {}
    npy = 0
    cases = list(_blas_cases(ck, rng))
    results = _blas_exec(ck, cases)
    for c, resu in zip(cases, results):
        r = c["r"]
        if resu is None:
            continue                      # dropped after a process-ending case of this routine (already reported)
        if isinstance(resu[0], str):      # "died" | "raised"
            ck.fail("blas/%s/%s" % (r, "process-exit-in-fortran-argument-check" if resu[0] == "died" else "raises"),
                    "fff_blas_%s with flags %s: %s" % (r, [blas_FLAGNAME[f] for f in c["flags"]],
                                                     "the Fortran routine rejected an argument (XERBLA -> exit), child status %r" % (resu[1],)
                                                     if resu[0] == "died" else "raised " + str(resu[1])),
                    _blas_replay(c))
            continue
        out, out_py, exp, res_ok, feat, call, outop, replay = resu
        shapes = tuple(_blas_np.shape(c[k]) for k in ("A", "B", "C", "x", "y") if k in c)
        ck.count(("blas", r, c["flags"], shapes, tuple(_blas_np.concatenate(
            [_blas_np.ravel(c[k]) for k in ("A", "B", "C", "x", "y") if k in c]).tolist()),
            c.get("alpha"), c.get("beta")), nontrivial=True, bucket="blas:" + r)
        ncase[r] = ncase.get(r, 0) + 1
        replay["impl_output"] = _blas_lst(out)
        # (a) direct oracle: documented row-major result, exact
        if exp is not None and not _blas_np.array_equal(out, exp):
            replay["documented_result"] = _blas_lst(exp)
            ck.fail("blas/%s/%s" % (r, feat),
                    "fff_blas_%s(%s) returns %s, documented row-major result is %s" % (
                        r, feat, _blas_lst(out), _blas_lst(exp)), replay)
        if res_ok is False:
            ck.fail("blas/%s/%s" % (r, feat),
                    "fff_blas_%s(%s): result X=%s does not satisfy the documented triangular system" % (
                        r, feat, _blas_lst(out)), replay)
        # the Python wrapper of linalg.pyx must agree with the C function it wraps
        if out_py is not None:
            npy += 1
            if not _blas_np.array_equal(_blas_np.asarray(out_py), out):
                ck.fail("blas/%s/python-wrapper-vs-C" % r,
                        "blas_%s(%s) returns %s but fff_blas_%s gives %s" % (r, feat, _blas_lst(out_py), r, _blas_lst(out)),
                        dict(replay, python_wrapper_output=_blas_lst(out_py)))
        # (b) correspondence term: Z model of fff_call with the generated table vs the implementation
        if _blas_np.all(_blas_np.isfinite(out)) and _blas_np.array_equal(out, _blas_np.rint(out)):
            terms.append("zres_is (%s) %s %s" % (call, outop, _blas_zl(out)))
            meta.append((r, feat, call, replay))
        else:
            ck.fail("blas/%s/non-integer-output" % r,
                    "fff_blas_%s(%s) on integer inputs returned non-integers %s" % (r, feat, _blas_lst(out)), replay)
        if ncase[r] == 1 or (r == "dsymm" and ncase[r] == 9):
            ck.sample({"call": "fff_blas_%s" % r, "feature": feat,
                       "inputs": {k: replay[k] for k in ("alpha", "beta", "A", "B", "C", "x", "y") if k in replay},
                       "output": _blas_lst(out)})
    nmodel = 0
    if ck.build is not None and ck.build.ok:
        res = ck.coq_bools(blas_HDR, terms, name="blas")
        nmodel = len(res)
        ck.cov["traces_validated_against_impl"] += len(res)
        shown = set()
        for ok, (r, feat, call, replay) in zip(res, meta):
            if ok or r in shown:
                continue
            shown.add(r)
            mv = ck.coq_show(blas_HDR, call)
            ck.fail("blas/%s/model-vs-impl" % r,
                    "Z model of fff_call (generated table of fff_blas.c) and implementation disagree for "
                    "fff_blas_%s(%s): impl %s, model %s" % (r, feat, replay["impl_output"], mv),
                    dict(replay, model=mv, feature=feat))
    ck.section("blas", cases=ncase, python_wrapper_cases=npy, model_cases=nmodel,
               note="C level through ctypes on libcstat.so rebuilt from the current fff_blas.c; Python wrappers of "
                    "linalg.pyx additionally where their allocation rule admits the shapes; integer inputs, exact comparison; "
                    "dsyrk/dsyr2k compared on the whole matrix (code leaves the non-uplo triangle untouched)")


# ====================================================================== run
def run(ck):
    ck.cov["rule"] = (
        "quantile: every array over {0,1,2}^n (n<=4 quick / <=5 thorough) plus seeded random arrays with ties / constant / "
        "sorted / two-valued (n 5..7 quick, ..13 thorough) x ratios {j/(4n), j/8, 0, 1} x interp x strides {1,-1,2,-3} through the C "
        "function itself; n-d integer arrays (1..4 dims, extents 1..7, C/F order, negative and non-unit steps, int64 and strided "
        "float64) x every axis x 7 ratios + median through the Python wrappers; a case is distinct by (data, stride/layout, axis, "
        "ratio, interp) and non-trivial when the sample has more than one element.  blas / spline / oracles: see sections.")
    _timed(ck, "coq_build", lambda c: c.coq_build())
    _timed(ck, "overlay", lambda c: c.overlay(cstat=True))
    ck.trust.append("ctypes call of the exported C symbol `quantile` in the rebuilt _quantile extension (argument marshalling in harness/props/c16.py)")
    ck.assume.append("sample values are integers of small magnitude (exactly representable doubles); NaN / inf inputs are outside the model")
    quantile_section(ck)
    for name in ("blas", "spline", "oracles"):
        fn = globals().get(name)
        if fn is not None:
            _timed(ck, name, fn)
