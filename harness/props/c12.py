"""C12 - fields and forests keep their structural invariants.

Sections
  forest      every parent array on <= 5 (quick) / <= 6 (thorough) vertices with entries in
              0..V-1 (46656 arrays for V = 6), arrays with out-of-range entries, random larger
              forests: constructor verdict and every query compared exactly with the Coq model
              (coq/C12/Model.v, evaluated by vm_compute), plus the property statement evaluated
              directly on the implementation (acyclicity, inverse queries, depth, reorder,
              subforest, upward propagation).
  morphology  every symmetric graph on <= 3 (quick) / <= 4 (thorough) vertices x every field over
              {0,1,2}^V, and random graphs (isolated vertices, several components, directed and
              repeated edges, 1..3 feature dimensions, float64 / float32 / integer data, dyadic
              values): dilation (compiled path, generic path, de-cythonised .pyx source),
              erosion, opening, closing, highest_neighbor compared exactly with the model; lattice
              laws evaluated on the implementation.
  levelsets   local_maxima / get_local_maxima / custom_watershed / threshold_bifurcations /
              diffusion / subfield against direct definitions (implementation only).
"""
import itertools
import re
from fractions import Fraction

import numpy as np

from ..kit import cnat, cnatl, cz, czl, cbool, clist, cq, cql, REPO

HDR = ("From Coq Require Import ZArith List Bool QArith.\nFrom NV.Lib Require Import Harness.\nFrom NV.C12 Require Import Model ModelLM.\nClose Scope Q_scope.\n")


# ---------------------------------------------------------------- literals
def cnll(xss):
    return clist([cnatl(x) for x in xss])


def cbl(bs):
    return clist([cbool(bool(b)) for b in bs])


def conl(x):
    return "None" if x is None else "(Some %s)" % cnatl(x)


def cozl(x):
    return "None" if x is None else "(Some %s)" % czl(x)


def cedges(E):
    return clist(["(%s, %s)" % (cnat(a), cnat(b)) for a, b in E])


# ---------------------------------------------------------------- direct definitions (forest)
def d_reaches_root(p):
    """True iff every vertex reaches a self-parent vertex (entries assumed in range)."""
    V = len(p)
    if any(not (0 <= x < V) for x in p):
        return False
    for v in range(V):
        seen = set()
        w = v
        while p[w] != w:
            if w in seen:
                return False
            seen.add(w)
            w = p[w]
    return True


def d_children(p):
    V = len(p)
    return [[c for c in range(V) if p[c] == v and c != v] for v in range(V)]


def d_height(p):
    ch = d_children(p)
    memo = {}

    def h(v):
        if v not in memo:
            memo[v] = 0 if not ch[v] else 1 + max(h(c) for c in ch[v])
        return memo[v]
    return [h(v) for v in range(len(p))]


def d_descendants(p):
    V = len(p)
    out = []
    for v in range(V):
        s = []
        for d in range(V):
            w = d
            k = 0
            while True:
                if w == v:
                    s.append(d)
                    break
                if p[w] == w or k > V:
                    break
                w = p[w]
                k += 1
        out.append(s)
    return out


def d_ancestor_pairs(p):
    """set of (a, d): a is an ancestor-or-self of d."""
    return {(a, d) for a, ds in enumerate(d_descendants(p)) for d in ds}


def forest_shape(p):
    V = len(p)
    h = max(d_height(p)) if d_reaches_root(p) else -1
    nroots = sum(1 for i in range(V) if p[i] == i)
    return "V=%d,roots=%d,height=%d" % (V, nroots, h)


EXC = {"ValueError": "RefuseValue", "IndexError": "RefuseIndex"}


def build_forest(Forest, V, p, layout="C"):
    arr = np.array(p, dtype=np.int_)
    if layout == "strided" and len(p):
        big = np.full(2 * len(p), len(p) + 7, dtype=np.int_)     # the skipped entries are invalid parents
        big[::2] = arr
        arr = big[::2]
    elif layout == "reversed" and len(p):
        arr = np.ascontiguousarray(arr[::-1])[::-1]
    try:
        return "Accept", Forest(V, arr)
    except Exception as e:  # noqa
        return EXC.get(type(e).__name__, "Other:" + type(e).__name__), None


def as_list(x):
    return [int(v) for v in np.asarray(x).ravel()]


def forest_queries(Forest, V, p):
    """All parameter-free queries on fresh objects (several methods cache or mutate)."""
    F = Forest(V, np.array(p, dtype=np.int_))
    ch = [as_list(c) for c in F.get_children()]
    leaf = [bool(b) for b in F.isleaf()]
    root = [bool(b) for b in F.isroot()]
    depth = as_list(F.depth_from_leaves())
    td = int(F.tree_depth())
    desc = [as_list(F.get_descendants(v)) for v in range(V)]
    # non-default values of the optional arguments, on the same object
    desc_x = [as_list(F.get_descendants(v, exclude_self=True)) for v in range(V)]
    desc_again = [as_list(F.get_descendants(v, exclude_self=False)) for v in range(V)]
    ch_v = [as_list(F.get_children(v)) for v in range(V)]
    bad_index = {}
    for name, call in (("get_children(V)", lambda: F.get_children(V)), ("get_descendants(V)", lambda: F.get_descendants(V)),
                       ("get_descendants(-1)", lambda: F.get_descendants(-1))):
        try:
            call()
            bad_index[name] = "returns"
        except ValueError:
            bad_index[name] = "ValueError"
        except Exception as e:  # noqa
            bad_index[name] = type(e).__name__
    try:
        dflt = as_list(Forest(V).parents)
    except Exception as e:  # noqa
        dflt = type(e).__name__
    try:
        msb = as_list(Forest(V, np.array(p, dtype=np.int_)).merge_simple_branches().parents)
    except ValueError:
        msb = None
    G = Forest(V, np.array(p, dtype=np.int_))
    order = as_list(G.reorder_from_leaves_to_roots())
    newp = as_list(G.parents)
    edges_ok = True
    # define_graph_attributes after the reorder: edges (i,parent) weight +1 then (parent,i) weight -1
    nonroot = [i for i in range(V) if newp[i] != i]
    exp_edges = [(i, newp[i]) for i in nonroot] + [(newp[i], i) for i in nonroot]
    got_edges = [tuple(as_list(e)) for e in np.asarray(G.edges).reshape(-1, 2)] if G.E > 0 else []
    exp_w = [1.0] * len(nonroot) + [-1.0] * len(nonroot)
    if got_edges != exp_edges or [float(x) for x in np.asarray(G.weights).ravel()] != exp_w or G.E != 2 * len(nonroot):
        edges_ok = False
    return dict(ch=ch, leaf=leaf, root=root, depth=depth, td=td, desc=desc, msb=msb, order=order, newp=newp,
                edges_ok=edges_ok, desc_x=desc_x, desc_again=desc_again, ch_v=ch_v, bad_index=bad_index, dflt=dflt)


def forest_oracles(ck, p, q):
    """The property statement evaluated on the implementation's answers for an accepted array."""
    V = len(p)
    rp = {"V": V, "parents": list(p)}
    ch = d_children(p)
    if q["ch"] != ch:
        ck.fail("forest-children/not-inverse-of-parents", "get_children() != {c : parents[c] = v, c != v} for parents %s: %s" % (list(p), q["ch"]), dict(rp, got=q["ch"]))
    if q["leaf"] != [len(c) == 0 for c in ch]:
        ck.fail("forest-isleaf/leaf-iff-no-child", "isleaf() %s disagrees with 'no child' for parents %s" % (q["leaf"], list(p)), dict(rp, got=q["leaf"]))
    if q["root"] != [p[i] == i for i in range(V)]:
        ck.fail("forest-isroot/root-iff-self-parent", "isroot() %s for parents %s" % (q["root"], list(p)), dict(rp, got=q["root"]))
    if q["desc"] != d_descendants(p):
        ck.fail("forest-descendants/closure-of-children", "get_descendants != reflexive-transitive closure for parents %s: %s" % (list(p), q["desc"]), dict(rp, got=q["desc"]))
    dd = d_descendants(p)
    for v in range(V):
        want = [d for d in dd[v] if d != v]
        if q["desc_x"][v] != want:
            leaf = not ch[v]
            ck.fail("forest-descendants/exclude_self=True/" + ("leaf-returns-itself" if leaf and q["desc_x"][v] == [v] else "removes-only-the-node-itself"),
                    "get_descendants(%d, exclude_self=True) for parents %s gives %s, expected the descendants without the node: %s" % (v, list(p), q["desc_x"][v], want),
                    dict(rp, v=v, got=q["desc_x"][v], expected=want))
    if q["desc_again"] != q["desc"]:
        ck.fail("forest-descendants/explicit-default-after-exclude_self", "get_descendants(v, exclude_self=False) after the exclude_self=True calls differs from the first answers for parents %s: %s vs %s" % (list(p), q["desc_again"], q["desc"]), dict(rp, got=q["desc_again"]))
    if q["ch_v"] != q["ch"]:
        ck.fail("forest-children/get_children(v)-vs-get_children()", "get_children(v) %s differs from get_children()[v] %s for parents %s" % (q["ch_v"], q["ch"], list(p)), dict(rp, got=q["ch_v"]))
    if any(v != "ValueError" for v in q["bad_index"].values()):
        ck.fail("forest-queries/out-of-range-node-index-not-refused", "node index out of range: %s for parents %s" % (q["bad_index"], list(p)), dict(rp, got=q["bad_index"]))
    if q["dflt"] != list(range(V)):
        ck.fail("forest-ctor/default-parents", "Forest(%d) without parents gives %s, documented: every node its own parent" % (V, q["dflt"]), {"V": V, "got": q["dflt"]})
    if not q["edges_ok"]:
        ck.fail("forest-edges/define_graph_attributes", "edges/weights after reorder are not (i,parent,+1),(parent,i,-1) for parents %s" % (list(p),), rp)
    h = d_height(p)
    d = q["depth"]
    strict = all(d[p[i]] > d[i] for i in range(V) if p[i] != i)
    leaves0 = all(d[i] == 0 for i in range(V) if not ch[i])
    if not leaves0:
        ck.fail("forest-depth/leaves-not-zero", "depth_from_leaves %s: a leaf has depth != 0, parents %s" % (d, list(p)), dict(rp, depth=d))
    if not strict:
        ck.fail("forest-depth/not-strictly-increasing/sweep-stops-while-max-unchanged",
                "depth_from_leaves(parents=%s) = %s: a parent is not deeper than its child (longest-path depth is %s)" % (list(p), d, h),
                dict(rp, depth=d, expected=h))
    elif d != h:
        ck.fail("forest-depth/not-longest-path", "depth_from_leaves(parents=%s) = %s, longest downward path %s" % (list(p), d, h), dict(rp, depth=d, expected=h))
    if q["td"] != max(h) + 1:
        ck.fail("forest-tree_depth/levels-undercounted/sweep-stops-while-max-unchanged",
                "tree_depth(parents=%s) = %d but the forest has %d levels" % (list(p), q["td"], max(h) + 1), dict(rp, got=q["td"], expected=max(h) + 1))
    # reorder: a permutation that is a forest isomorphism and puts children before parents
    order, newp = q["order"], q["newp"]
    if sorted(order) != list(range(V)):
        ck.fail("forest-reorder/not-a-permutation", "order %s for parents %s" % (order, list(p)), dict(rp, order=order))
    else:
        io = [0] * V
        for i, o in enumerate(order):
            io[o] = i
        if any(newp[io[x]] != io[p[x]] for x in range(V)):
            ck.fail("forest-reorder/ancestry-not-preserved", "reordered parents %s are not the relabelling of %s by order %s" % (newp, list(p), order), dict(rp, order=order, newp=newp))
        elif any(newp[i] != i and not (i < newp[i]) for i in range(V)):
            ck.fail("forest-reorder/parent-before-child/sweep-stops-while-max-unchanged",
                    "reorder_from_leaves_to_roots(parents=%s): order %s puts a parent before its child (new parents %s)" % (list(p), order, newp),
                    dict(rp, order=order, newp=newp))
    # merge_simple_branches = subforest without the single-child vertices
    valid = [len(c) != 1 for c in ch]
    exp = d_subforest(p, valid)
    if q["msb"] != exp:
        ck.fail("forest-merge_simple_branches/subforest-of-non-chain-vertices", "merge_simple_branches(parents=%s) = %s, expected %s" % (list(p), q["msb"], exp), dict(rp, got=q["msb"], expected=exp))


def d_subforest(p, valid):
    """Direct definition: retained vertices renumbered in order; parent kept iff retained, else self."""
    V = len(p)
    kept = [i for i in range(V) if valid[i]]
    if not kept:
        return None
    r = {v: k for k, v in enumerate(kept)}
    return [r[p[i]] if valid[p[i]] else r[i] for i in kept]


def d_prop_and(p, prop):
    ch = d_children(p)
    desc = d_descendants(p)
    return [bool(prop[i]) if not ch[i] else all(bool(prop[d]) for d in desc[i] if not ch[d]) for i in range(len(p))]


def d_prop_up(p, label):
    ch = d_children(p)
    h = d_height(p)
    out = list(label)
    for i in sorted(range(len(p)), key=lambda v: h[v]):
        if ch[i]:
            s = {out[c] for c in ch[i]}
            if len(s) == 1:
                out[i] = s.pop()
    return out


def forest_section(ck):
    from nipy.algorithms.graph.forest import Forest
    rng = ck.rng("forest")
    terms, meta = [], []

    def add(term, sig, what, replay):
        terms.append(term)
        meta.append((sig, what, replay))

    Vmax = ck.n(5, 6)
    n_arrays = n_accept = 0
    for V in range(1, Vmax + 1):
        for p in itertools.product(range(V), repeat=V):
            n_arrays += 1
            verdict, _ = build_forest(Forest, V, p)
            acyc = d_reaches_root(p)
            ck.count(("ctor", p), nontrivial=True, bucket="exhaustive:V=%d:%s" % (V, "forest" if acyc else "cyclic"))
            if (verdict == "Accept") != acyc:
                ck.fail("forest-ctor/accepts-iff-acyclic", "Forest(%d, %s) -> %s but the array is %s" % (V, list(p), verdict, "acyclic" if acyc else "cyclic"),
                        {"V": V, "parents": list(p), "verdict": verdict})
            if verdict != "Accept" or not acyc:
                # (an accepted cyclic array is reported above; its queries are meaningless and may not terminate)
                add("verdict_eqb (ctor %s %s) %s" % (cnat(V), cnatl(p), verdict if verdict in ("RefuseValue", "RefuseIndex") else "Accept"),
                    "forest-ctor/model-vs-impl", "constructor verdict for parents %s: impl %s" % (list(p), verdict), {"V": V, "parents": list(p), "impl": verdict})
                continue
            n_accept += 1
            safe_one_forest(ck, Forest, rng, p, add, exhaustive_masks=(V <= 4), extra=(1 if V <= 5 or ck.thorough() else 0))
    ck.section("forest", exhaustive_V_max=Vmax, arrays=n_arrays, accepted=n_accept)

    # out-of-range entries (non-negative: modelled; negative: oracle only)
    n_oor = 0
    for V in range(1, ck.n(3, 4) + 1):
        for p in itertools.product(range(V + 2), repeat=V):
            if max(p) < V:
                continue
            n_oor += 1
            verdict, _ = build_forest(Forest, V, p)
            ck.count(("ctor-oor", p), bucket="out-of-range:V=%d" % V)
            add("verdict_eqb (ctor %s %s) %s" % (cnat(V), cnatl(p), verdict if verdict in ("Accept", "RefuseValue", "RefuseIndex") else "RefuseValue"),
                "forest-ctor/model-vs-impl", "constructor verdict for parents %s: impl %s" % (list(p), verdict), {"V": V, "parents": list(p), "impl": verdict})
            if verdict == "Accept":
                ck.fail("forest-ctor/accepts-entry-equal-V/single-vertex-shortcut", "Forest(%d, %s) is accepted although parents[i] = %d is not a vertex" % (V, list(p), max(p)),
                        {"V": V, "parents": list(p)})
        for p in itertools.product(range(-V, V), repeat=V):
            if min(p) >= 0:
                continue
            verdict, _ = build_forest(Forest, V, p)
            ck.count(("ctor-neg", p), bucket="negative-entry:V=%d" % V)
            if verdict == "Accept":
                ck.fail("forest-ctor/accepts-negative-entry", "Forest(%d, %s) is accepted although it has a negative parent (NumPy wrap-around indexing)" % (V, list(p)),
                        {"V": V, "parents": list(p)})
    # wrong sizes / V < 1
    for V, p in [(0, []), (2, [0]), (2, [0, 1, 2]), (3, [0, 0])]:
        verdict, _ = build_forest(Forest, V, p) if p else ("RefuseValue", None)
        ck.count(("ctor-size", V, tuple(p)), bucket="size-mismatch")
        if verdict == "Accept":
            ck.fail("forest-ctor/size-mismatch-accepted", "Forest(%d, %s) accepted" % (V, p), {"V": V, "parents": p})
        add("verdict_eqb (ctor %s %s) %s" % (cnat(V), cnatl(p), verdict), "forest-ctor/model-vs-impl", "size mismatch verdict", {"V": V, "parents": p, "impl": verdict})

    # random larger arrays
    nbig = ck.n(60, 400)
    for k in range(nbig):
        V = int(rng.integers(7, 28))
        kind = k % 4
        if kind == 3:   # arbitrary array, mostly cyclic
            p = [int(x) for x in rng.integers(0, V, V)]
            if rng.random() < 0.5:   # make it nearly a forest
                q0 = random_forest(rng, V)
                j = int(rng.integers(0, V))
                q0[j] = int(rng.integers(0, V))
                p = q0
        else:
            p = random_forest(rng, V, chainy=(kind == 1))
        verdict, _ = build_forest(Forest, V, p, layout=["C", "strided", "reversed"][(k // 4) % 3])
        acyc = d_reaches_root(p)
        ck.count(("ctor", tuple(p)), bucket="random:V>=7:%s" % ("forest" if acyc else "cyclic"))
        if (verdict == "Accept") != acyc:
            ck.fail("forest-ctor/accepts-iff-acyclic", "Forest(%d, %s) -> %s but the array is %s" % (V, p, verdict, "acyclic" if acyc else "cyclic"), {"V": V, "parents": p, "verdict": verdict})
        if verdict != "Accept" or not acyc:
            add("verdict_eqb (ctor %s %s) %s" % (cnat(V), cnatl(p), verdict if verdict in ("RefuseValue", "RefuseIndex") else "Accept"),
                "forest-ctor/model-vs-impl", "constructor verdict for parents %s: impl %s" % (p, verdict), {"V": V, "parents": p, "impl": verdict})
            continue
        safe_one_forest(ck, Forest, rng, tuple(p), add, exhaustive_masks=False, extra=2)
    ck.section("forest", random_large=nbig, out_of_range_arrays=n_oor, model_terms=len(terms))

    if ck.build is not None and ck.build.ok:
        res = ck.coq_bools(HDR, terms, name="forest")
        ck.cov["traces_validated_against_impl"] += len(res)
        for ok, (sig, what, replay) in zip(res, meta):
            if not ok:
                ck.fail(sig, "model and implementation disagree: " + what, replay)


def random_forest(rng, V, chainy=False):
    """random forest with randomly relabelled vertices (so that index order and depth order are unrelated)."""
    par = list(range(V))
    for i in range(1, V):
        if rng.random() < 0.15:
            continue          # new root
        par[i] = i - 1 if (chainy and rng.random() < 0.8) else int(rng.integers(0, i))
    perm = [int(x) for x in rng.permutation(V)]
    p = [0] * V
    for i in range(V):
        p[perm[i]] = perm[par[i]]
    return p


def safe_one_forest(ck, Forest, rng, p, add, **kw):
    """an exception raised by a query of an accepted forest is a property failure with that forest as replay"""
    try:
        one_forest(ck, Forest, rng, p, add, **kw)
    except (Exception, RecursionError) as e:  # noqa
        import traceback
        tb = traceback.extract_tb(e.__traceback__)
        where = next((fr.name for fr in reversed(tb) if "nipy" in fr.filename), tb[-1].name)
        ck.fail("forest-queries/raises/%s-in-%s" % (type(e).__name__, where), "a query of the accepted Forest(%d, %s) raised %s: %s" % (len(p), list(p), type(e).__name__, str(e)[:200]),
                {"V": len(p), "parents": list(p), "exception": type(e).__name__, "where": where})


def one_forest(ck, Forest, rng, p, add, exhaustive_masks, extra):
    V = len(p)
    q = forest_queries(Forest, V, p)
    forest_oracles(ck, p, q)
    shape = forest_shape(p)
    ck.count(("queries", p), nontrivial=V > 1, bucket="queries:" + ("V<=6" if V <= 6 else "V>=7"))
    if V == 5 and p == (0, 2, 0, 2, 3):
        ck.sample({"parents": list(p), "depth_from_leaves": q["depth"], "longest_path_depth": d_height(p), "children": q["ch"], "order": q["order"]})
    add("forest_queries_eqb %s %s %s %s %s %s %s %s" % (cnatl(p), cnll(q["ch"]), cbl(q["leaf"]), cbl(q["root"]), czl(q["depth"]), cz(q["td"]), cnll(q["desc"]), conl(q["msb"])),
        "forest-queries/model-vs-impl", "queries of Forest(%d, %s): impl %s" % (V, list(p), {k: q[k] for k in ("ch", "leaf", "root", "depth", "td", "desc", "msb")}),
        {"V": V, "parents": list(p), "impl": q, "shape": shape})
    add("nll_eqb (map (descendants_excl %s) (seq 0 %s)) %s" % (cnatl(p), cnat(V), cnll(q["desc_x"])),
        "forest-descendants/model-vs-impl/exclude_self=True", "get_descendants(v, exclude_self=True) of Forest(%d, %s): impl %s" % (V, list(p), q["desc_x"]),
        {"V": V, "parents": list(p), "impl": q["desc_x"]})
    add("reorder_eqb %s %s %s" % (cnatl(p), cnatl(q["order"]), cnatl(q["newp"])),
        "forest-reorder/model-vs-impl", "reorder_from_leaves_to_roots of %s: order %s new parents %s" % (list(p), q["order"], q["newp"]),
        {"V": V, "parents": list(p), "order": q["order"], "newp": q["newp"]})
    # subforest
    if exhaustive_masks:
        masks = list(itertools.product([False, True], repeat=V))
    else:
        masks = [tuple(bool(b) for b in rng.integers(0, 2, V)) for _ in range(extra)]
    for m in masks:
        F = Forest(V, np.array(p, dtype=np.int_))
        try:
            sp = as_list(F.subforest(np.array(m, dtype=bool)).parents)
        except ValueError:
            sp = None
        ck.count(("subforest", p, m), nontrivial=any(m) and not all(m), bucket="subforest")
        exp = d_subforest(p, m)
        if sp != exp:
            ck.fail("forest-subforest/ancestry-among-retained", "subforest(parents=%s, valid=%s) = %s, expected %s" % (list(p), list(m), sp, exp),
                    {"V": V, "parents": list(p), "valid": list(m), "got": sp, "expected": exp})
        if sp is not None and not d_reaches_root(sp):
            ck.fail("forest-subforest/result-not-a-forest", "subforest(parents=%s, valid=%s) = %s" % (list(p), list(m), sp), {"V": V, "parents": list(p), "valid": list(m)})
        add("onl_eqb (subforest %s %s) %s" % (cnatl(p), cbl(m), conl(sp)), "forest-subforest/model-vs-impl",
            "subforest(parents=%s, valid=%s): impl %s" % (list(p), list(m), sp), {"V": V, "parents": list(p), "valid": list(m), "impl": sp})
    # upward propagation
    for _ in range(max(extra, 1) if V > 1 else 1):
        prop = [bool(b) for b in rng.integers(0, 2, V)]
        lab = [int(x) for x in rng.integers(0, 3, V)]
        F = Forest(V, np.array(p, dtype=np.int_))
        pa = [bool(b) for b in F.propagate_upward_and(np.array(prop, dtype=bool))]
        F = Forest(V, np.array(p, dtype=np.int_))
        try:
            pu = as_list(F.propagate_upward(np.array(lab, dtype=np.int_)))
        except ValueError:
            pu = None
        if pu is None:
            ck.fail("forest-propagate_upward/raises/size-1-array-assigned-to-element",
                    "propagate_upward(parents=%s, label=%s) raises ValueError under NumPy %s (a length-1 array assigned to an array element)" % (list(p), lab, np.__version__),
                    {"V": V, "parents": list(p), "label": lab, "numpy": np.__version__})
        ck.count(("propagate", p, tuple(prop), tuple(lab)), nontrivial=V > 1, bucket="propagate")
        ea = d_prop_and(p, prop)
        if pa != ea:
            ck.fail("forest-propagate_upward_and/and-of-leaves-below/sweep-stops-while-max-unchanged",
                    "propagate_upward_and(parents=%s, prop=%s) = %s, expected (AND over the leaves below) %s" % (list(p), prop, pa, ea),
                    {"V": V, "parents": list(p), "prop": prop, "got": pa, "expected": ea})
        eu = d_prop_up(p, lab)
        if pu is not None and pu != eu:
            ck.fail("forest-propagate_upward/documented-rule/sweep-stops-while-max-unchanged",
                    "propagate_upward(parents=%s, label=%s) = %s, bottom-up rule gives %s" % (list(p), lab, pu, eu),
                    {"V": V, "parents": list(p), "label": lab, "got": pu, "expected": eu})
        add("bl_eqb (propagate_upward_and %s %s) %s" % (cnatl(p), cbl(prop), cbl(pa)), "forest-propagate_upward_and/model-vs-impl",
            "propagate_upward_and(parents=%s, prop=%s): impl %s" % (list(p), prop, pa), {"V": V, "parents": list(p), "prop": prop, "impl": pa})
        if pu is not None:
            add("zl_eqb (propagate_upward %s %s) %s" % (cnatl(p), czl(lab), czl(pu)), "forest-propagate_upward/model-vs-impl",
                "propagate_upward(parents=%s, label=%s): impl %s" % (list(p), lab, pu), {"V": V, "parents": list(p), "label": lab, "impl": pu})


# ---------------------------------------------------------------- morphology
def decythonised_dilation(repo):
    """Execute the loop of _graph.pyx from the current source as Python (fail-closed)."""
    src = (repo / "nipy/algorithms/graph/_graph.pyx").read_text()
    out = []
    seen_def = False
    for line in src.splitlines():
        s = line.strip()
        if s.startswith(("cimport", "ctypedef", "@cython")) or not s:
            continue
        if s.startswith("def dilation("):
            out.append("def dilation(field, idx, neighb):")
            seen_def = True
            continue
        if seen_def and re.match(r"cnp\.ndarray\[\w+, ndim=\d\] \w+(,\\|\):)$", s):
            continue
        m = re.match(r"^(\s*)cdef int (\w+) = (.*)$", line)
        if m:
            out.append("%s%s = %s" % (m.group(1), m.group(2), m.group(3)))
            continue
        if re.match(r"^\s*cdef (int|DOUBLE) [\w, ]+$", line):
            continue
        m = re.match(r"^(\s*)cdef cnp\.ndarray\[DOUBLE, ndim=1\] (\w+) = (.*)$", line)
        if m:
            out.append("%s%s = %s" % (m.group(1), m.group(2), m.group(3)))
            continue
        if "cdef" in line or "cnp." in line:
            raise ValueError("de-cythoniser: unrecognised construct in _graph.pyx: %r" % line)
        out.append(line)
    ns = {}
    exec(compile("\n".join(out), "_graph_decythonised", "exec"), ns)
    return ns["dilation"]


def d_nbrs(V, E, incl_self):
    nb = [set() for _ in range(V)]
    for a, b in E:
        nb[a].add(b)
    if incl_self:
        for i in range(V):
            nb[i].add(i)
    return [sorted(s) for s in nb]


def d_dilate(V, E, col):
    nb = d_nbrs(V, E, True)
    return [max(col[j] for j in nb[i]) for i in range(V)]


def d_erode_incl(V, E, col):
    nb = d_nbrs(V, E, True)
    return [min(col[j] for j in nb[i]) for i in range(V)]


def mk_field(Field, V, E, data):
    if E:
        edges = np.array(E, dtype=np.int_)
        return Field(V, edges, np.ones(len(E)), data)
    return Field(V, None, None, data)


def to_scaled(arr, scale):
    """exact integers value*scale (integer and bool dtypes are read without going through float)."""
    arr = np.asarray(arr)
    out = []
    if arr.dtype.kind in "iub":
        return [int(x) * scale for x in arr.ravel()]
    for x in arr.ravel():
        f = Fraction(*float(x).as_integer_ratio()) * scale
        assert f.denominator == 1, (x, scale)
        out.append(int(f))
    return out


LAYOUTS = ["C", "F", "transposed", "column-slice", "row-stride", "negative-strides"]


def relayout(a, layout):
    """A NEW (V, dim) array with the values and dtype of `a` in the given memory layout (`.copy()` would silently
    return a C-contiguous array).  The slices are views into larger arrays whose other entries hold the extreme
    values of `a`, so that reading outside the view shows up in a maximum or a minimum."""
    a = np.asarray(a)
    if a.ndim != 2 or layout == "C":
        return np.ascontiguousarray(a).copy()
    V, dim = a.shape
    lo, hi = (a.min(), a.max()) if a.size else (0, 0)
    if layout == "F":
        out = np.asfortranarray(a).copy(order="F")
    elif layout == "transposed":
        out = np.ascontiguousarray(a.T).copy().T
    elif layout == "column-slice":
        big = np.empty((V, dim + 2), dtype=a.dtype)
        big[:, 0::2] = hi
        big[:, 1::2] = lo
        big[:, 1:1 + dim] = a
        out = big[:, 1:1 + dim]
    elif layout == "row-stride":
        big = np.empty((2 * V, dim), dtype=a.dtype)
        big[:] = hi
        big[1::4] = lo
        big[::2] = a
        out = big[::2]
    elif layout == "negative-strides":
        out = np.ascontiguousarray(a[::-1, ::-1]).copy()[::-1, ::-1]
    else:
        raise ValueError(layout)
    assert out.shape == a.shape and out.dtype == a.dtype and np.array_equal(out, a)
    return out


INT_DTYPES = ["uint8", "uint16", "uint32", "uint64", "int8", "int16", "int32", "int64"]


def dtype_kind(dt):
    k = np.dtype(dt).kind
    return {"u": "unsigned", "i": "signed", "b": "bool", "f": "float"}[k]


def dtype_palette(dt):
    """values at the ends of the dtype's range (where negation or +1 overflows) and around zero."""
    if dt == "bool":
        return [0, 1]
    ii = np.iinfo(dt)
    if ii.min == 0:
        return [0, 0, 0, 1, 2, 5, ii.max // 2, ii.max - 1, ii.max, ii.max]
    return [ii.min, ii.min, ii.min + 1, -2, -1, 0, 0, 1, ii.max - 1, ii.max, ii.max]


def mk_data(ints, scale, dt):
    """(V, dim) array of dtype dt holding ints/scale exactly; second value: the same numbers as float64 (None if not exact)."""
    if np.dtype(dt).kind in "iub":
        assert scale == 1
        data = np.array(ints, dtype=dt)
        assert [[int(x) for x in r] for r in data] == ints
        exact = all(float(x) == x and abs(x) <= 2 ** 63 for r in ints for x in r) and all(int(float(x)) == x for r in ints for x in r)
        return data, (np.array(ints, dtype=np.float64) if exact else None)
    f = np.array(ints, dtype=np.float64) / scale
    data = f.astype(dt)
    assert np.array_equal(data.astype(np.float64), f)
    return data, f


def graph_kind(V, E):
    nb = d_nbrs(V, E, False)
    iso = any(len(nb[i]) == 0 and all(i not in nb[j] for j in range(V)) for i in range(V))
    sym = all((b, a) in set(E) for a, b in E)
    rep = len(set(E)) != len(E)
    return "%s%s%s" % ("sym" if sym else "directed", ",isolated" if iso else "", ",repeated-edges" if rep else "")


def morphology_section(ck):
    from nipy.algorithms.graph.field import Field
    from nipy.algorithms.graph import _graph
    rng = ck.rng("morphology")
    try:
        pyx_dilation = decythonised_dilation(REPO)
        pyx_err = None
    except Exception as e:  # fail closed
        pyx_dilation, pyx_err = None, str(e)
        ck.fail("dilation/pyx-source-not-understood", "de-cythoniser cannot read _graph.pyx: %s" % e, {"kind": "correspondence-broken", "error": str(e)}, found_input=False)
    terms, meta = [], []

    def add(term, sig, what, replay):
        terms.append(term)
        meta.append((sig, what, replay))

    cases = []   # (V, E, data (V,dim) exact-int array, scale, dtype)
    Vex = ck.n(3, 4)
    for V in range(1, Vex + 1):
        pairs = list(itertools.combinations(range(V), 2))
        for mask in itertools.product([0, 1], repeat=len(pairs)):
            E = []
            for m, (a, b) in zip(mask, pairs):
                if m:
                    E += [(a, b), (b, a)]
            for vals in itertools.product(range(3), repeat=V):
                cases.append((V, E, [[v] for v in vals], 1, "float64", "exhaustive"))
    nrand = ck.n(150, 1200)
    for k in range(nrand):
        V = int(rng.integers(2, 13))
        dens = rng.choice([0.15, 0.3, 0.6])
        E = []
        for a in range(V):
            for b in range(a + 1, V):
                if rng.random() < dens:
                    E += [(a, b), (b, a)]
        style = k % 5
        if style == 1 and E:       # directed: drop some reverse edges
            E = [e for e in E if rng.random() < 0.7]
        if style == 2 and E:       # repeated edges
            E = E + [E[int(rng.integers(0, len(E)))] for _ in range(3)]
        if style == 3:             # ensure no isolated vertex (ring)
            E = list(dict.fromkeys(E + [(i, (i + 1) % V) for i in range(V)] + [((i + 1) % V, i) for i in range(V)]))
        dim = int(rng.integers(1, 4))
        levels = int(rng.choice([2, 3, 6, 50]))
        ints = [[int(x) for x in r] for r in rng.integers(-levels, levels + 1, (V, dim))]
        dt = ["float64", "float64", "float32", "int64", "int16"][int(rng.integers(0, 5))]
        scale = 1
        if dt.startswith("float") and rng.random() < 0.4:
            scale = 4          # the integers are 4 * value: quarter-dyadic field values
        cases.append((V, E, ints, scale, dt, "random"))
    # every dtype: unsigned / signed integers of every width, bool, 0/1 fields, values at the ends of the range
    path3 = [(0, 1), (1, 0), (1, 2), (2, 1)]
    for dt in ("uint8", "int8", "uint32"):
        ii = np.iinfo(dt)
        pal = [0, 1, ii.max] if ii.min == 0 else [ii.min, 0, ii.max]
        for vals in itertools.product(pal, repeat=3):
            cases.append((3, path3, [[v] for v in vals], 1, dt, "dtype-path3"))
    for vals in itertools.product([0, 1], repeat=3):
        cases.append((3, path3, [[v] for v in vals], 1, "bool", "dtype-path3"))
    ndt = ck.n(160, 900)
    for k in range(ndt):
        V = int(rng.integers(2, 9))
        dens = rng.choice([0.25, 0.5])
        E = []
        for a in range(V):
            for b in range(a + 1, V):
                if rng.random() < dens:
                    E += [(a, b), (b, a)]
        if k % 4 == 1 and E:
            E = [e for e in E if rng.random() < 0.7]
        if k % 4 == 2:
            E = list(dict.fromkeys(E + [(i, (i + 1) % V) for i in range(V)] + [((i + 1) % V, i) for i in range(V)]))
        dt = (INT_DTYPES + ["bool", "float32"])[k % 10]
        dim = int(rng.integers(1, 3))
        if dt == "float32":
            pal = [-2 ** 24, -1, 0, 1, 2 ** 24]
        elif k % 3 == 0 and dt != "bool":
            pal = [0, 1]                      # bool-like 0/1 field in a numeric dtype
        else:
            pal = dtype_palette(dt)
        ints = [[int(pal[int(j)]) for j in r] for r in rng.integers(0, len(pal), (V, dim))]
        cases.append((V, E, ints, 1, dt, "dtype"))

    n_lat = 0
    n_dtind = n_layout = 0
    for case_no, (V, E, ints, scale, dt, origin) in enumerate(cases):
        data, dataf = mk_data(ints, scale, dt)
        layout = LAYOUTS[case_no % len(LAYOUTS)]          # memory layout of the array handed to Field()
        dim = data.shape[1]
        kind = graph_kind(V, E)
        dk = dtype_kind(dt)
        ck.count(("morph", V, tuple(E), repr(ints), scale, dt), nontrivial=len(E) > 0, bucket="morph:%s:%s:%s:%s" % (origin, dt, kind, layout))
        rp = {"V": V, "edges": [list(e) for e in E], "field_times_scale": ints, "scale": scale, "dtype": dt, "layout": layout}
        cols = [[r[d] for r in ints] for d in range(dim)]
        nit = 1 if origin in ("exhaustive", "dtype-path3") else int(rng.integers(0, 3))      # nbiter 0 (identity), 1 (the default), 2

        def run(op, *a, **kw):
            src = kw.pop("_src", data)
            F = mk_field(Field, V, E, relayout(src, kw.pop("_layout", layout)))
            try:
                getattr(F, op)(*a, **kw)
            except ValueError:
                return None
            except Exception as e:  # noqa
                return "raises %s" % type(e).__name__
            out = np.asarray(F.field)
            if out.shape != (V, dim):
                return "shape%s" % (out.shape,)
            if out.dtype != src.dtype:
                ck.fail("%s/result-dtype-changed/%s" % (op, dtype_kind(src.dtype)), "%s on a %s field returns dtype %s (V=%d edges=%s field*%d=%s)" % (op, src.dtype, out.dtype, V, E, scale, ints),
                        dict(rp, op=op, result_dtype=str(out.dtype)))
            return [to_scaled(out[:, d], scale) for d in range(dim)]

        fast = run("dilation", nit)                    # compiled path iff float64
        slow = run("dilation", nit, fast=False)        # generic sparse-row path
        # direct definition
        exp = cols
        for _ in range(nit):
            exp = [d_dilate(V, E, c) for c in exp]
        for name, got in (("compiled-or-default", fast), ("generic", slow)):
            if got != exp:
                ck.fail("dilation/neighbourhood-max/%s-path" % name, "dilation(%d) [%s path, dtype %s] on V=%d edges=%s field=%s gives %s, max over N(i)+{i} is %s" % (nit, name, dt, V, E, ints, got, exp),
                        dict(rp, nbiter=nit, got=got, expected=exp))
        if fast != slow:
            ck.fail("dilation/fast-vs-generic", "compiled and generic dilation differ on V=%d edges=%s field=%s: %s vs %s" % (V, E, ints, fast, slow), dict(rp, fast=fast, generic=slow))
        if pyx_dilation is not None and E and dataf is not None:
            F = mk_field(Field, V, E, relayout(dataf, layout))
            idx, neighb, _ = F.compact_neighb()
            fld = relayout(dataf, layout)
            try:
                for _ in range(nit):
                    pyx_dilation(fld, idx, neighb)
                got = [to_scaled(fld[:, d], scale) for d in range(dim)]
            except Exception as e:  # noqa
                got = "raises %s" % type(e).__name__
            if got != exp:
                ck.fail("dilation/pyx-source-vs-definition", "_graph.pyx (executed from source) on V=%d edges=%s field=%s gives %s, expected %s" % (V, E, ints, got, exp), dict(rp, got=got, expected=exp))
        ero = run("erosion", nit)
        opn = run("opening", nit)
        cls = run("closing", nit)
        # the documented defaults: calling without arguments = nbiter=1 (and fast=True, refdim=0)
        if nit == 1:
            for nm, got in (("dilation", fast), ("erosion", ero), ("opening", opn), ("closing", cls)):
                dflt = run(nm)
                if dflt != got:
                    ck.fail("%s/default-arguments-differ-from-explicit-defaults" % nm, "%s() on V=%d edges=%s %s field*%d=%s gives %s but %s(1) gives %s" % (nm, V, E, dt, scale, ints, dflt, nm, got),
                            dict(rp, op=nm, default_call=dflt, explicit=got))
        # layout independence: the same values in a C-contiguous array must give the same result
        if layout != "C":
            n_layout += 1
            for nm, got, args, kw in (("dilation", fast, (nit,), {}), ("dilation", slow, (nit,), {"fast": False}), ("erosion", ero, (nit,), {}),
                                      ("opening", opn, (nit,), {}), ("closing", cls, (nit,), {})):
                ref = run(nm, *args, _layout="C", **kw)
                if got != ref:
                    ck.fail("%s/layout-dependent-result/%s%s" % (nm, layout, "/generic-path" if kw else ""),
                            "%s(%d%s) on V=%d edges=%s %s field*%d=%s gives %s when the field array is %s but %s when it is C-contiguous" % (nm, nit, ", fast=False" if kw else "", V, E, dt, scale, ints, got, layout, ref),
                            dict(rp, op=nm, nbiter=nit, got=got, c_contiguous_result=ref))
        # dtype independence: the same numbers as float64 must give the same result
        if dt != "float64" and dataf is not None:
            n_dtind += 1
            for nm, got, args, kw in (("dilation", fast, (nit,), {}), ("erosion", ero, (nit,), {}), ("opening", opn, (nit,), {}), ("closing", cls, (nit,), {})):
                ref = run(nm, *args, _src=dataf, **kw)
                if got != ref:
                    ck.fail("%s/dtype-dependent-result/%s" % (nm, dk), "%s(%d) on V=%d edges=%s gives %s for the %s field %s but %s for the same numbers as float64" % (nm, nit, V, E, got, dt, ints, ref),
                            dict(rp, op=nm, nbiter=nit, got=got, float64_result=ref))
        hns = []
        nbs = d_nbrs(V, E, True)
        for d in range(dim):
            F = mk_field(Field, V, E, relayout(data, layout))
            try:
                hn = as_list(F.highest_neighbor(d))
            except IndexError:
                hn = "IndexError"
            ehn = [max(nbs[i], key=lambda j: (cols[d][j], -j)) for i in range(V)]
            if hn != ehn:
                sig = "highest_neighbor/argmax-over-closed-neighbourhood" if dim == 1 else "highest_neighbor/ignores-refdim/multi-dim-field"
                ck.fail(sig, "highest_neighbor(refdim=%d) on V=%d edges=%s field=%s gives %s expected %s" % (d, V, E, ints, hn, ehn), dict(rp, refdim=d, got=hn, expected=ehn))
            hns.append(hn if isinstance(hn, list) else None)
        # erosion / opening / closing must not raise
        out_empty = any(not any(a == i for a, b in E) for i in range(V))
        for nm, got in (("erosion", ero), ("opening", opn), ("closing", cls)):
            if got is None:
                if out_empty:
                    ck.fail("erosion/raises-on-isolated-vertex", "Field.%s raises ValueError (min of an empty neighbour list) on V=%d edges=%s" % (nm, V, E), dict(rp, op=nm, nbiter=nit))
                else:
                    ck.fail("%s/raises" % nm, "%s raised ValueError on V=%d edges=%s" % (nm, V, E), dict(rp, nbiter=nit))
        # model terms (per feature column)
        for d in range(dim):
            col = cols[d]
            pick = lambda r: (r if (r is None or isinstance(r, str)) else r[d])
            if isinstance(fast, list):
                add("zl_eqb (iter_n %s (dilation_fast %s) %s) %s" % (cnat(nit), cedges(E), czl(col), czl(fast[d])), "dilation/model-vs-impl/compiled-or-default-path",
                    "dilation(%d) V=%d edges=%s column %s: impl %s" % (nit, V, E, col, fast[d]), dict(rp, column=d, nbiter=nit, impl=fast[d]))
            if isinstance(slow, list):
                add("zl_eqb (iter_n %s (dilation_generic %s) %s) %s" % (cnat(nit), cedges(E), czl(col), czl(slow[d])), "dilation/model-vs-impl/generic-path",
                    "dilation(%d, fast=False) V=%d edges=%s column %s: impl %s" % (nit, V, E, col, slow[d]), dict(rp, column=d, nbiter=nit, impl=slow[d]))
            for nm, got in (("erosion", ero), ("opening", opn), ("closing", cls)):
                if isinstance(got, str):
                    ck.fail("%s/raises-or-wrong-shape/%s" % (nm, dk), "%s on V=%d edges=%s %s field*%d=%s: %s" % (nm, V, E, dt, scale, ints, got), rp)
                    continue
                if got is None:
                    continue      # raised: reported above
                mterm = {"erosion": "iter_n %s (erosion %s) %s" % (cnat(nit), cedges(E), czl(col)),
                         "opening": "opening %s %s %s" % (cedges(E), cnat(nit), czl(col)),
                         "closing": "closing %s %s %s" % (cedges(E), cnat(nit), czl(col))}[nm]
                add("zl_eqb (%s) %s" % (mterm, czl(got[d])), "%s/model-vs-impl" % nm,
                    "%s(%d) V=%d edges=%s column %s: impl %s" % (nm, nit, V, E, col, got[d]), dict(rp, column=d, nbiter=nit, impl=got[d]))
            if hns[d] is not None:
                add("nl_eqb (highest_neighbor %s %s) %s" % (cedges(E), czl(col), cnatl(hns[d])), "highest_neighbor/model-vs-impl",
                    "highest_neighbor(refdim=%d) V=%d edges=%s column %s: impl %s" % (d, V, E, col, hns[d]), dict(rp, refdim=d, impl=hns[d]))
        # erosion = minimum over N(i) + {i} (direct definition, every graph)
        if isinstance(ero, list):
            emin = cols
            for _ in range(nit):
                emin = [d_erode_incl(V, E, c) for c in emin]
            if ero != emin:
                ck.fail("erosion/neighbourhood-min-excludes-vertex", "erosion(%d) on V=%d edges=%s field=%s gives %s; min over N(i)+{i} is %s" % (nit, V, E, cols, ero, emin), dict(rp, nbiter=nit, got=ero, expected=emin))
        # lattice laws on the implementation (symmetric graphs; nbiter iterations)
        if "sym" in kind:
            n_lat += 1
            if isinstance(opn, list) and any(o > c for oc, cc in zip(opn, cols) for o, c in zip(oc, cc)):
                ck.fail("opening/increases-field/erosion-excludes-vertex", "opening on V=%d edges=%s field=%s gives %s which exceeds the field" % (V, E, cols, opn), dict(rp, got=opn))
            if isinstance(cls, list) and any(o < c for oc, cc in zip(cls, cols) for o, c in zip(oc, cc)):
                ck.fail("closing/decreases-field", "closing on V=%d edges=%s field=%s gives %s below the field" % (V, E, cols, cls), dict(rp, got=cls))
            for nm, once in (("opening", opn), ("closing", cls)):
                if isinstance(once, list):
                    F = mk_field(Field, V, E, relayout(data, layout))
                    try:
                        getattr(F, nm)(nit)
                        getattr(F, nm)(nit)
                        twice = [to_scaled(np.asarray(F.field)[:, d], scale) for d in range(dim)]
                    except ValueError:
                        twice = None
                    if twice != once:
                        ck.fail("%s/not-idempotent/erosion-excludes-vertex" % nm, "%s(%d) twice != once on V=%d edges=%s field=%s: %s vs %s" % (nm, nit, V, E, cols, twice, once), dict(rp, nbiter=nit, once=once, twice=twice))
    # the design-time witness, always replayed
    F = Field(3, np.array([[0, 1], [1, 0], [1, 2], [2, 1]]), np.ones(4), np.array([0., 5., 1.]))
    F.opening()
    ck.sample({"graph": "path 0-1-2", "field": [0, 5, 1], "opening": F.field.ravel().tolist()})
    if F.field.ravel().tolist() != [0.0, 1.0, 1.0]:
        ck.fail("opening/increases-field/erosion-excludes-vertex", "opening of [0,5,1] on the path 0-1-2 gives %s (self-inclusive erosion gives [0,1,1])" % F.field.ravel().tolist(),
                {"V": 3, "edges": [[0, 1], [1, 0], [1, 2], [2, 1]], "field": [0, 5, 1]})
    ck.section("morphology", cases=len(cases), lattice_cases=n_lat, dtype_independence_cases=n_dtind, non_C_layout_cases=n_layout, layouts=LAYOUTS, model_terms=len(terms), pyx_source_executed=pyx_err is None)
    if ck.build is not None and ck.build.ok:
        res = ck.coq_bools(HDR, terms, name="morph")
        ck.cov["traces_validated_against_impl"] += len(res)
        for ok, (sig, what, replay) in zip(res, meta):
            if not ok:
                ck.fail(sig, "model and implementation disagree: " + what, replay)


# ---------------------------------------------------------------- level sets, diffusion, subfield
def d_bifurcations(V, nb, col, order):
    """Direct definition: visit the vertices in `order` (non-increasing value); the already visited neighbours of i
    lie in connected components of the visited set, recomputed FROM SCRATCH by graph search; the current region of
    a component is the most recently created region present in it (= its largest label).  No component: new region.
    One component: i joins its current region.  Several: i is a saddle, creates a region, which becomes the parent
    of the merged regions.  idx[c] = first maximum of the field over region c."""
    label = [-1] * V
    visited = set()
    parent = []
    for i in order:
        regions = set()
        seen = set()
        for j in nb[i]:
            if j in visited and j not in seen:
                comp, front = {j}, [j]
                while front:
                    x = front.pop()
                    for y in nb[x]:
                        if y in visited and y not in comp:
                            comp.add(y)
                            front.append(y)
                seen |= comp
                regions.add(max(label[x] for x in comp))
        if len(regions) == 1:
            label[i] = regions.pop()
        else:
            q = len(parent)
            for c in regions:
                parent[c] = q
            parent.append(q)
            label[i] = q
        visited.add(i)
    idx = []
    for c in range(len(parent)):
        members = [i for i in range(V) if label[i] == c]
        idx.append(max(members, key=lambda m: (col[m], -m)))
    return idx, parent, label


def nesting_depth(parent):
    """longest chain of regions region -> parent -> ... (number of nested saddles above a leaf)"""
    best = 0
    for c in range(len(parent)):
        d, x = 0, c
        while parent[x] != x and d <= len(parent):
            x = parent[x]
            d += 1
        best = max(best, d)
    return best


def levelset_case(rng, k):
    """(V, E symmetric, data (V, dim) float array of integers, kind)"""
    kind = k % 4
    if kind < 2:
        V = int(rng.integers(1, 11))
        dens = rng.choice([0.2, 0.4, 0.7])
        E = []
        for a in range(V):
            for b in range(a + 1, V):
                if rng.random() < dens:
                    E += [(a, b), (b, a)]
        levels = int(rng.choice([1, 2, 4, 30]))
        dim = 1 if k % 8 else int(rng.integers(2, 4))
        data = rng.integers(-levels if (k // 4) % 2 else 0, levels + 1, (V, dim)).astype(float)   # every other case has negative values (basin maxima <= 0)
        return V, E, data, "random"
    # many maxima and deeply nested saddles: sparse graphs (paths, trees, grids, rings) with pairwise distinct values
    V = int(rng.integers(6, 19))
    shape = int(rng.integers(0, 4))
    und = []
    if shape == 0:      # path
        und = [(i, i + 1) for i in range(V - 1)]
    elif shape == 1:    # random tree with randomly numbered vertices
        perm = [int(x) for x in rng.permutation(V)]
        und = [(perm[i], perm[int(rng.integers(0, i))]) for i in range(1, V)]
    elif shape == 2:    # grid, 2 or 3 rows
        r = int(rng.integers(2, 4))
        c = max(2, V // r)
        V = r * c
        und = [(a * c + b, a * c + b + 1) for a in range(r) for b in range(c - 1)] + [(a * c + b, (a + 1) * c + b) for a in range(r - 1) for b in range(c)]
    else:               # ring with one chord
        und = [(i, (i + 1) % V) for i in range(V)] + [(0, V // 2)]
    E = []
    for a, b in dict.fromkeys((min(a, b), max(a, b)) for a, b in und if a != b):
        E += [(a, b), (b, a)]
    if kind == 2:       # random permutation of distinct values
        vals = [int(x) for x in rng.permutation(V)]
    else:               # zigzag: high values on every other vertex, low values between them, the low ones nearly sorted
        hi = [int(x) for x in rng.permutation(range(V // 2, V))]
        lo = list(range(V // 2))
        if rng.random() < 0.5:
            lo.reverse()
        for _ in range(int(rng.integers(0, 3))):
            a, b = int(rng.integers(0, len(lo))), int(rng.integers(0, len(lo)))
            lo[a], lo[b] = lo[b], lo[a]
        vals = [hi[i // 2] if i % 2 == 0 else lo[i // 2] for i in range(V)]     # len(hi) = ceil(V/2) even places, len(lo) = floor(V/2) odd places
        if rng.random() < 0.5:
            vals = [V - 1 - v for v in vals][::-1] if rng.random() < 0.5 else vals[::-1]
    shift = int(rng.integers(-V, 3))
    data = np.array([v + shift for v in vals], dtype=float).reshape(V, 1)
    return V, E, data, "nested"


def levelsets_section(ck):
    from nipy.algorithms.graph.field import Field
    rng = ck.rng("levelsets")
    n = ck.n(150, 1500)
    terms, meta = [], []
    depth_hist = {}
    for k in range(n):
        V, E, data, origin = levelset_case(rng, k)
        dim = data.shape[1]
        layout = LAYOUTS[(k // 4) % len(LAYOUTS)]         # memory layout of every array handed to Field() in this case
        refdim = int(rng.integers(0, dim))
        col = [int(x) for x in data[:, refdim]]
        vals = sorted(set(col))
        if origin == "nested":
            th = -np.inf if k % 5 else float(vals[int(rng.integers(0, max(1, len(vals) // 3)))])      # mostly the whole graph, sometimes the lowest third cut off
        else:
            th = float(rng.choice(vals + [vals[0] - 1, vals[-1] + 1])) if k % 3 else -np.inf
        above = [c >= th for c in col]
        rp = {"V": V, "edges": [list(e) for e in E], "field": data.tolist(), "refdim": refdim, "th": th, "layout": layout}
        ck.count(("level", V, tuple(E), data.tobytes(), refdim, th), nontrivial=V > 1 and any(above),
                 bucket="levelsets:%s:%s:dim=%d:%s" % (origin, layout, dim, "none-above" if not any(above) else ("all-above" if all(above) else "some-above")))
        nb = d_nbrs(V, E, False)
        dimtag = "dim=1" if dim == 1 else "multi-dim-field"

        # ---- local maxima
        try:
            F = mk_field(Field, V, E, relayout(data, layout))
            dep = as_list(F.local_maxima(refdim, th))
            F = mk_field(Field, V, E, relayout(data, layout))
            gi, gd = F.get_local_maxima(refdim, th)
            gi, gd = as_list(gi), as_list(gd)
        except AttributeError:
            dep = None
        # correspondence with the Coq model of local_maxima / get_local_maxima (ModelLM.v; column refdim, exact integers):
        # the full depth array (order of every maximum), not only its sign
        lth = "None" if th == -np.inf else "(Some %s)" % cz(int(th))
        if dep is None:
            terms.append("lm_eqb (local_maxima %s %s %s) None" % (cedges(E), czl(col), lth))
            meta.append(("local_maxima/model-vs-impl", "local_maxima(th=%s) raises on V=%d edges=%s column %s but the model returns depths" % (th, V, E, col), dict(rp, impl="raises")))
        else:
            terms.append("lm_eqb (local_maxima %s %s %s) (Some %s)" % (cedges(E), czl(col), lth, cnatl(dep)))
            meta.append(("local_maxima/model-vs-impl", "local_maxima(refdim=%d, th=%s) on V=%d edges=%s column %s: impl depth %s" % (refdim, th, V, E, col, dep), dict(rp, depth=dep)))
            terms.append("glm_eqb (get_local_maxima %s %s %s) (Some (%s, %s))" % (cedges(E), czl(col), lth, cnatl(gi), cnatl(gd)))
            meta.append(("get_local_maxima/model-vs-impl", "get_local_maxima(refdim=%d, th=%s) on V=%d edges=%s column %s: impl idx %s depth %s" % (refdim, th, V, E, col, gi, gd), dict(rp, idx=gi, depth=gd)))
        if dep is None:
            if not any(above):
                ck.fail("local_maxima/raises/no-vertex-above-threshold", "local_maxima(th=%s) raises AttributeError when no vertex reaches the threshold (field %s)" % (th, col), rp)
            else:
                ck.fail("local_maxima/raises", "local_maxima raised on V=%d edges=%s field=%s" % (V, E, col), rp)
        else:
            ismax = [above[i] and not any(above[j] and col[j] > col[i] for j in nb[i]) for i in range(V)]
            if [x > 0 for x in dep] != ismax:
                ck.fail("local_maxima/depth-positive-iff-no-higher-neighbour/%s" % dimtag, "local_maxima(refdim=%d, th=%s) on V=%d edges=%s field=%s gives %s; local maxima are %s" % (refdim, th, V, E, col, dep, ismax),
                        dict(rp, got=dep, expected_maxima=ismax))
            if gi != [i for i in range(V) if dep[i]] or gd != [dep[i] for i in gi]:
                ck.fail("get_local_maxima/inconsistent-with-local_maxima", "get_local_maxima %s %s vs local_maxima %s" % (gi, gd, dep), dict(rp, idx=gi, depth=gd, all=dep))

        # ---- watershed
        try:
            F = mk_field(Field, V, E, relayout(data, layout))
            widx, wlab = F.custom_watershed(refdim, th)
            widx, wlab = as_list(widx), as_list(wlab)
            werr = None
        except (AttributeError, IndexError) as e:
            werr = type(e).__name__
        # correspondence with the Coq model of custom_watershed (column refdim, exact integers)
        cth = "None" if th == -np.inf else "(Some %s)" % cz(int(th))
        if werr is None:
            terms.append("ws_eqb (custom_watershed_fast %s %s %s) (Some (%s, %s))" % (cedges(E), czl(col), cth, cnatl(widx), czl(wlab)))
            meta.append(("custom_watershed/model-vs-impl", "custom_watershed(refdim=%d, th=%s) on V=%d edges=%s column %s: impl idx %s label %s" % (refdim, th, V, E, col, widx, wlab),
                         dict(rp, idx=widx, label=wlab)))
        elif werr == "AttributeError":
            terms.append("ws_eqb (custom_watershed_fast %s %s %s) None" % (cedges(E), czl(col), cth))
            meta.append(("custom_watershed/model-vs-impl", "custom_watershed(th=%s) raises on V=%d edges=%s column %s but the model returns a labelling" % (th, V, E, col), dict(rp, impl="raises")))
        if werr is not None:
            if not any(above):
                ck.fail("custom_watershed/raises/no-vertex-above-threshold", "custom_watershed(th=%s) raises %s when no vertex reaches the threshold" % (th, werr), rp)
            elif dim > 1:
                ck.fail("custom_watershed/highest_neighbor-ignores-refdim/multi-dim-field", "custom_watershed raises %s on a %d-dimensional field (V=%d edges=%s field=%s)" % (werr, dim, V, E, data.tolist()), rp)
            else:
                ck.fail("custom_watershed/raises", "custom_watershed raised %s on V=%d edges=%s field=%s" % (werr, V, E, col), rp)
        else:
            nbs = d_nbrs(V, E, True)
            hnb = [max([j for j in nbs[i] if above[j]], key=lambda j: (col[j], -j)) if above[i] else None for i in range(V)]
            fixed = [i for i in range(V) if above[i] and hnb[i] == i]
            # direct basins: follow the highest neighbour to its fixed point
            basin = []
            for i in range(V):
                if not above[i]:
                    basin.append(-1)
                    continue
                w = i
                while hnb[w] != w:
                    w = hnb[w]
                basin.append(w)
            ok = [l >= 0 for l in wlab] == above
            nlab = len(set(l for l in wlab if l >= 0))
            ok = ok and sorted(set(l for l in wlab if l >= 0)) == list(range(nlab)) and len(widx) == nlab
            if ok:
                for c in range(nlab):
                    members = [i for i in range(V) if wlab[i] == c]
                    fx = [i for i in members if i in fixed]
                    if len(fx) != 1 or widx[c] != fx[0] or len({basin[i] for i in members}) != 1:
                        ok = False
                ok = ok and len(fixed) == nlab
            if not ok:
                sig = "custom_watershed/basins-one-maximum-each/%s" % ("dim=1" if dim == 1 else "highest_neighbor-ignores-refdim/multi-dim-field")
                ck.fail(sig, "custom_watershed(refdim=%d, th=%s) on V=%d edges=%s field=%s gives idx %s label %s; ascent basins %s" % (refdim, th, V, E, data.tolist(), widx, wlab, basin),
                        dict(rp, idx=widx, label=wlab, expected_basin_roots=basin))

        # ---- bifurcations
        try:
            F = mk_field(Field, V, E, relayout(data, layout))
            bidx, bpar, blab = F.threshold_bifurcations(refdim, th)
            bidx, bpar, blab = as_list(bidx), as_list(bpar), as_list(blab)
            berr = None
        except (AttributeError, IndexError) as e:
            berr = type(e).__name__
        # correspondence with the Coq model (the argsort order, an oracle value, is recomputed on the same float64 numbers)
        if berr is None:
            amask = np.array(above)
            sub = data[amask][:, refdim].astype(np.float64)
            order = [int(np.nonzero(amask)[0][j]) for j in np.argsort(- sub)]
            terms.append("bif_order_ok %s %s %s && bif_eqb (threshold_bifurcations %s %s %s %s) (Some (%s, %s, %s))" % (
                czl(col), cth, cnatl(order), cedges(E), czl(col), cth, cnatl(order), cnatl(bidx), cnatl(bpar), czl(blab)))
            meta.append(("threshold_bifurcations/model-vs-impl", "threshold_bifurcations(refdim=%d, th=%s) on V=%d edges=%s column %s (visit order %s): impl idx %s parent %s label %s" % (refdim, th, V, E, col, order, bidx, bpar, blab),
                         dict(rp, order=order, idx=bidx, parent=bpar, label=blab)))
            # direct definition (components of the visited set recomputed from scratch)
            nbs_above = [[j for j in nb[i] if above[j]] for i in range(V)]
            eidx, epar, elab = d_bifurcations(V, nbs_above, col, order)
            ndepth = nesting_depth(epar)
            depth_hist[min(ndepth, 4)] = depth_hist.get(min(ndepth, 4), 0) + 1
            if (bidx, bpar, blab) != (eidx, epar, elab):
                ck.fail("threshold_bifurcations/direct-definition/%s" % ("saddle-nesting>=3" if ndepth >= 3 else "saddle-nesting<=2"),
                        "threshold_bifurcations(refdim=%d, th=%s) on V=%d edges=%s column %s: idx %s parent %s label %s; regions of the visited set give idx %s parent %s label %s" % (
                            refdim, th, V, E, col, bidx, bpar, blab, eidx, epar, elab),
                        dict(rp, order=order, idx=bidx, parent=bpar, label=blab, expected_idx=eidx, expected_parent=epar, expected_label=elab, nesting_depth=ndepth))
        if berr is not None:
            if not any(above):
                ck.fail("threshold_bifurcations/raises/no-vertex-above-threshold", "threshold_bifurcations(th=%s) raises %s when no vertex reaches the threshold" % (th, berr), rp)
            else:
                ck.fail("threshold_bifurcations/raises/%s" % dimtag, "threshold_bifurcations raised %s on V=%d edges=%s field=%s" % (berr, V, E, data.tolist()), rp)
        else:
            q = len(bpar)
            ok = [l >= 0 for l in blab] == above and all(l < q for l in blab) and len(bidx) == q
            ok = ok and all(bpar[c] >= c for c in range(q)) and d_reaches_root(bpar) if q else ok
            # every region label 0..q-1 is used, idx[c] attains the maximum of its region
            for c in range(q):
                members = [i for i in range(V) if blab[i] == c]
                if not members or bidx[c] not in members or col[bidx[c]] != max(col[i] for i in members):
                    ok = False
            # leaves of the hierarchy = strict-or-plateau maxima components: each leaf region contains a local maximum
            if ok:
                ch = d_children(bpar)
                for c in range(q):
                    if not ch[c]:
                        i = bidx[c]
                        if any(above[j] and col[j] > col[i] for j in nb[i]):
                            ok = False
            if not ok:
                ck.fail("threshold_bifurcations/labels-total-and-hierarchy/%s" % dimtag, "threshold_bifurcations(refdim=%d, th=%s) on V=%d edges=%s field=%s: idx %s parent %s label %s" % (refdim, th, V, E, col, bidx, bpar, blab),
                        dict(rp, idx=bidx, parent=bpar, label=blab))

        # ---- highest_neighbor on multi-dimensional fields
        if dim > 1:
            nbs = d_nbrs(V, E, True)
            ehn = [max(nbs[i], key=lambda j: (col[j], -j)) for i in range(V)]
            try:
                hn = as_list(mk_field(Field, V, E, relayout(data, layout)).highest_neighbor(refdim))
            except IndexError:
                hn = "IndexError"
            if hn != ehn:
                ck.fail("highest_neighbor/ignores-refdim/multi-dim-field", "highest_neighbor(refdim=%d) on V=%d edges=%s field=%s gives %s, expected %s" % (refdim, V, E, data.tolist(), hn, ehn),
                        dict(rp, got=hn, expected=ehn))

        # ---- diffusion: n iterations = A^n f with A the weighted adjacency (sum of the weights of repeated edges), computed
        #      exactly; dyadic weights (also < 1), every field dtype, one call with nbiter = n and n calls with nbiter = 1
        wq = [Fraction(int(x), 4) for x in rng.choice([1, 2, 4, 4, 8, 12], len(E))] if k % 2 else [Fraction(int(x)) for x in rng.integers(1, 4, len(E))]
        w = np.array([float(x) for x in wq], dtype=float)
        nit = int(rng.integers(0, 4))
        fdt = ["float64", "float32", "int32", "int64", "int16", "uint8"][k % 6]
        fdata = (np.abs(data) if fdt == "uint8" else data).astype(fdt)
        exp = [[Fraction(int(x)) for x in r] for r in fdata.tolist()]
        for _ in range(nit):
            nxt = [[Fraction(0)] * dim for _ in range(V)]
            for (a, b), ww in zip(E, wq):
                for d in range(dim):
                    nxt[a][d] += ww * exp[b][d]
            exp = nxt

        def mk():
            return Field(V, np.array(E, dtype=np.int_), w.copy(), relayout(fdata, layout)) if E else Field(V, None, None, relayout(fdata, layout))

        for mode in ("nbiter=n", "n-calls"):
            F = mk()
            try:
                if mode == "nbiter=n":
                    F.diffusion(nit)
                else:
                    for _ in range(nit):
                        F.diffusion(1)
                got = np.asarray(F.field)
                gotq = [[Fraction(*float(x).as_integer_ratio()) for x in r] for r in got.reshape(V, -1).tolist()] if got.shape == (V, dim) else "shape %s" % (got.shape,)
            except Exception as e:  # noqa
                gotq = "raises %s" % type(e).__name__
            if gotq != exp:
                ck.fail("diffusion/adjacency-applied-n-times/%s-field" % dtype_kind(fdt) + ("" if mode == "nbiter=n" else "/repeated-calls"),
                        "diffusion [%s, n=%d] on V=%d edges=%s weights=%s %s field=%s gives %s, A^n f = %s" % (mode, nit, V, E, w.tolist(), fdt, fdata.tolist(), gotq if isinstance(gotq, str) else np.asarray(F.field).tolist(), [[float(x) for x in r] for r in exp]),
                        dict(rp, weights=w.tolist(), nbiter=nit, field_dtype=fdt, mode=mode, expected=[[str(x) for x in r] for r in exp]))
                break
        if isinstance(gotq, list):
            for d in range(dim):
                terms.append("qlist_eqb (diffusion %s %s %s) %s" % (
                    clist(["(%s, %s, %s)" % (cnat(a), cnat(b), cq(ww)) for (a, b), ww in zip(E, wq)]), cnat(nit), cql([Fraction(int(x)) for x in fdata[:, d].tolist()]), cql([r[d] for r in gotq])))
                meta.append(("diffusion/model-vs-impl", "diffusion(%d) on V=%d edges=%s weights=%s %s column %s: impl %s" % (nit, V, E, w.tolist(), fdt, fdata[:, d].tolist(), [float(r[d]) for r in gotq]),
                             dict(rp, weights=w.tolist(), nbiter=nit, field_dtype=fdt, column=d)))

        # ---- documented defaults: no arguments = (refdim=0, th=-inf) / nbiter=1
        def outcome(fn, *a):
            F = mk_field(Field, V, E, relayout(data, layout))
            try:
                r = getattr(F, fn)(*a)
            except Exception as e:  # noqa
                return "raises %s" % type(e).__name__
            if fn == "diffusion":
                return np.asarray(F.field).tolist()
            return [as_list(x) for x in r] if isinstance(r, tuple) else as_list(r)

        for fn, explicit in (("local_maxima", (0, -np.inf)), ("get_local_maxima", (0, -np.inf)), ("custom_watershed", (0, -np.inf)),
                             ("threshold_bifurcations", (0, -np.inf)), ("highest_neighbor", (0,)), ("diffusion", (1,))):
            a, b = outcome(fn), outcome(fn, *explicit)
            if a != b:
                ck.fail("%s/default-arguments-differ-from-explicit-defaults" % fn, "%s() on V=%d edges=%s field=%s gives %s but %s%s gives %s" % (fn, V, E, data.tolist(), a, fn, explicit, b),
                        dict(rp, fn=fn, default_call=a, explicit=b))

        # ---- the queries are pure: they leave the stored field (values, dtype, shape) as it was
        for fn, args in (("local_maxima", (refdim, th)), ("get_local_maxima", (refdim, th)), ("custom_watershed", (refdim, th)),
                         ("threshold_bifurcations", (refdim, th)), ("highest_neighbor", (refdim,))):
            F = mk_field(Field, V, E, relayout(data, layout))
            try:
                getattr(F, fn)(*args)
            except Exception:  # noqa  (reported by the sub-check of that function)
                continue
            after = np.asarray(F.field)
            if after.dtype != data.dtype or after.shape != data.shape or not np.array_equal(after, data):
                ck.fail("%s/modifies-the-field" % fn, "%s%s on V=%d edges=%s changed the stored field from %s to %s" % (fn, args, V, E, data.tolist(), after.tolist()), dict(rp, fn=fn, after=after.tolist()))

        # ---- subfield
        valid = rng.integers(0, 2, V).astype(bool)
        F = Field(V, np.array(E, dtype=np.int_), w, relayout(data, layout)) if E else Field(V, None, None, relayout(data, layout))
        S = F.subfield(valid)
        kept = [i for i in range(V) if valid[i]]
        if not kept:
            if S is not None:
                ck.fail("subfield/empty-selection-not-None", "subfield of an empty selection is not None", rp)
        else:
            r = {v: i for i, v in enumerate(kept)}
            eedges = [((r[a], r[b]), ww) for (a, b), ww in zip(E, w) if valid[a] and valid[b]]
            gedges = [(tuple(as_list(e)), float(ww)) for e, ww in zip(np.asarray(S.edges).reshape(-1, 2), np.asarray(S.weights).ravel())] if S.E > 0 else []
            if S.V != len(kept) or gedges != eedges or not np.array_equal(np.asarray(S.field), data[valid]):
                ck.fail("subfield/restriction-and-renumbering", "subfield(valid=%s) on V=%d edges=%s: V=%d edges=%s field=%s" % (valid.tolist(), V, E, S.V, gedges, np.asarray(S.field).tolist()),
                        dict(rp, valid=valid.tolist(), got_edges=gedges, expected_edges=eedges))
    # ---- dtype independence: unsigned / signed / bool / float32 fields, values at the ends of the range
    nd = ck.n(100, 600)
    for k in range(nd):
        V = int(rng.integers(2, 9))
        E = []
        for a in range(V):
            for b in range(a + 1, V):
                if rng.random() < 0.4:
                    E += [(a, b), (b, a)]
        if k % 2:
            E = list(dict.fromkeys(E + [(i, (i + 1) % V) for i in range(V)] + [((i + 1) % V, i) for i in range(V)]))
        dt = ["uint8", "uint16", "uint32", "int8", "int16", "int32", "bool", "float32", "uint64", "int64"][k % 10]
        if dt in ("uint64", "int64"):
            pal = [0, 1, 2, 5, 2 ** 40]
        elif dt == "float32":
            pal = [-2 ** 24, -1, 0, 1, 2 ** 24]
        elif k % 3 == 0 and dt != "bool":
            pal = [0, 1]
        else:
            pal = dtype_palette(dt)
        col = [int(pal[int(j)]) for j in rng.integers(0, len(pal), V)]
        data = np.array(col, dtype=dt).reshape(V, 1)
        dataf = np.array(col, dtype=np.float64).reshape(V, 1)
        vals = sorted(set(col))
        th = -np.inf if k % 3 else float(vals[int(rng.integers(0, len(vals)))])
        above = [c >= th for c in col]
        nb = d_nbrs(V, E, False)
        dk = dtype_kind(dt)
        layout = LAYOUTS[(k // 10) % len(LAYOUTS)]
        rp = {"V": V, "edges": [list(e) for e in E], "field": col, "dtype": dt, "th": th, "layout": layout}
        ck.count(("level-dtype", V, tuple(E), tuple(col), dt, th), nontrivial=len(E) > 0, bucket="levelsets-dtype:%s" % dt)

        # threshold_bifurcations visits the vertices in argsort order: its numbering is only determined when the values are
        # pairwise distinct (the order of ties is an unspecified, dtype-dependent property of np.argsort), so it gets its own field
        if dt == "bool":
            cold = col
        else:
            lo, hi = ((-2 ** 24, 2 ** 24) if dt == "float32" else (0, 2 ** 40) if dt in ("uint64", "int64") else (int(np.iinfo(dt).min), int(np.iinfo(dt).max)))
            pool = sorted(set(pal))
            while len(pool) < V + 2:
                x = int(rng.integers(lo, hi, endpoint=True))
                if x not in pool:
                    pool.append(x)
            cold = [int(pool[int(j)]) for j in rng.permutation(len(pool))[:V]]
        fields = {"ties": (data, dataf, col),
                  "distinct": (np.array(cold, dtype=dt).reshape(V, 1), np.array(cold, dtype=np.float64).reshape(V, 1), cold)}

        def call(name, src):
            F = mk_field(Field, V, E, relayout(src, layout))
            try:
                r = getattr(F, name)(0, th)
            except Exception as e:  # noqa
                return "raises %s" % type(e).__name__
            return [as_list(x) for x in r] if isinstance(r, tuple) else as_list(r)

        for name in ("local_maxima", "get_local_maxima", "custom_watershed", "threshold_bifurcations"):
            data, dataf, col = fields["distinct" if name == "threshold_bifurcations" else "ties"]
            rp["field"] = col
            got, ref = call(name, data), call(name, dataf)
            if name == "threshold_bifurcations" and len(set(col)) != len(col) and not isinstance(got, str):
                continue      # bool field with ties: numbering not determined
            if got != ref:
                sig = "%s/dtype-dependent-result/%s" % (name, dk)
                tmin = 0 if dt == "bool" else (int(np.iinfo(dt).min) if np.dtype(dt).kind in "iu" else None)
                if name == "threshold_bifurcations" and (dk == "bool" or (dk == "unsigned" and any(col)) or (dk == "signed" and tmin in col)):
                    # `np.argsort(- initial_field)`: the negation wraps (unsigned, signed minimum) or raises (bool)
                    sig = "threshold_bifurcations/sorts-by-negated-field/negation-wraps-or-raises-for-dtype"
                elif (name in ("custom_watershed", "threshold_bifurcations") and isinstance(got, list) and isinstance(ref, list) and got[1:] == ref[1:]
                      and len(got[0]) == len(ref[0]) and all(col[r] == tmin for g, r in zip(got[0], ref[0]) if g != r)):
                    # `ma.array(field, mask=...).argmax()` fills masked entries with the dtype minimum: ties with a basin whose maximum is that minimum
                    sig = "%s/idx-masked-argmax/basin-maximum-is-dtype-minimum" % name
                ck.fail(sig, "%s(th=%s) on V=%d edges=%s gives %s for the %s field %s but %s for the same numbers as float64" % (name, th, V, E, got, dt, col, ref),
                        dict(rp, fn=name, got=got, float64_result=ref))
            if name == "local_maxima" and isinstance(got, list) and all(isinstance(x, int) and x >= 0 for x in got):
                terms.append("lm_eqb (local_maxima %s %s %s) (Some %s)" % (cedges(E), czl(col), "None" if th == -np.inf else "(Some %s)" % cz(int(th)), cnatl(got)))
                meta.append(("local_maxima/model-vs-impl", "local_maxima(th=%s) on V=%d edges=%s %s field %s: impl depth %s" % (th, V, E, dt, col, got), dict(rp, depth=got)))
            if name == "local_maxima" and isinstance(got, list):
                ismax = [above[i] and not any(above[j] and col[j] > col[i] for j in nb[i]) for i in range(V)]
                if [x > 0 for x in got] != ismax:
                    ck.fail("local_maxima/depth-positive-iff-no-higher-neighbour/%s-dtype" % dk, "local_maxima(th=%s) on V=%d edges=%s %s field %s gives %s; local maxima are %s" % (th, V, E, dt, col, got, ismax),
                            dict(rp, got=got, expected_maxima=ismax))
    ck.section("levelsets", cases=n, dtype_cases=nd, model_terms=len(terms), bifurcation_nesting_depth_histogram={("depth%s%d" % (">=" if d == 4 else "=", d)): c for d, c in sorted(depth_hist.items())})
    if ck.build is not None and ck.build.ok:
        res = ck.coq_bools(HDR, terms, name="levelsets")
        ck.cov["traces_validated_against_impl"] += len(res)
        for ok, (sig, what, replay) in zip(res, meta):
            if not ok:
                ck.fail(sig, "model and implementation disagree: " + what, replay)


def run(ck):
    ck.cov["rule"] = ("forest: EVERY parent array with entries in 0..V-1 for V <= 5 (quick) / 6 (thorough), every array with an entry in {V, V+1} or a negative entry for V <= 3/4, "
                      "random relabelled forests and near-forests with 7..27 vertices; per accepted array all queries, all 2^V sub-forest masks for V <= 4 (random masks above), random "
                      "propagation inputs; distinct by (query, array, argument).  morphology: every symmetric graph on <= 3/4 vertices x every field in {0,1,2}^V, random graphs on 2..12 "
                      "vertices (directed, repeated edges, isolated vertices, ring), 1..3 feature columns, float64/float32/int64/int16, integers and quarter-dyadics; non-trivial when the graph "
                      "has an edge.  levelsets: random graphs on 1..10 vertices, 1..30 value levels (plateaus), thresholds on, below and above the value set.")
    ck.trust.append("oracle: scipy.sparse coo->lil rows are the sorted distinct column indices of each row (model: filter over 0..V-1); np.argsort returns a permutation sorting its keys (order is taken from the implementation and validated by argsort_ok); np.unique / ma.argmax as documented")
    ck.trust.append("field values are compared as exact integers after scaling dyadic rationals (max/min/compare only, so order-preserving scaling is faithful); the model treats one feature column at a time and the harness checks every column of multi-column fields (highest_neighbor with refdim = that column)")
    ck.trust.append("the `parents.min() < 0` half of the Forest constructor guard is outside the nat-valued model; negative entries are checked on the implementation only (every array with a negative entry for V <= 3/4 must be refused)")
    ck.coq_build()
    ck.overlay()
    forest_section(ck)
    morphology_section(ck)
    levelsets_section(ck)
