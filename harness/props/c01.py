"""C01 - coordinate-map algebra agrees with function semantics.

Correspondence: random programs of coordinate-map operations are executed on
nipy's AffineTransform objects and on the Coq model (NV.C01.Exec.run, by
vm_compute); every step's result (coordinate names, system names, dtype tag,
affine matrix, or the error kind) and point evaluations are compared exactly.
Property oracles evaluate the property statement on the implementation's
outputs (sequential vs composed evaluation, named-tuple semantics of
reorder/rename, block independence, inverse round trip, shift, append/drop).
"""
import itertools

import numpy as np

from ..kit import cz, czl, cnat, cnatl, cstr, cbool, clist

HDR = ("From Coq Require Import String.\nFrom Coq Require Import List ZArith.\n"
       "From NV.Lib Require Import RingMat Harness.\nFrom NV.C01 Require Import Model Exec Axes Batch.\nOpen Scope string_scope.\n")

NAMES = list("ijklmnxyztuvw") + ["phase", "freq", "slice"]
SYSNAMES = ["", "in", "out", "world"]
DT = {np.dtype(np.int64): 0, np.dtype(np.float64): 1, np.dtype(object): 2}


def cstrl(xs):
    return clist([cstr(x) for x in xs])


def ccs(cs):
    return "{| cnames := %s; cname := %s; cdt := %d |}" % (cstrl(cs.coord_names), cstr(cs.name), DT[np.dtype(cs.coord_dtype)])


def cmat(M):
    return clist([czl([int(v) for v in row]) for row in np.asarray(M)])


def is_int_matrix(M):
    M = np.asarray(M, dtype=float)
    return np.all(M == np.round(M)) and np.all(np.abs(M) < 2 ** 50)


def caff(a):
    return "(Build_aff %s %s %s)" % (ccs(a.function_domain), ccs(a.function_range), cmat(a.affine))


def copt(x):
    return "None" if x is None else "(Some %s)" % cnat(x)


def errkind(e):
    from nipy.core.reference.coordinate_map import AxisError
    from nipy.core.reference.coordinate_system import CoordinateSystemError
    if isinstance(e, AxisError):
        return "EAxis"
    if isinstance(e, CoordinateSystemError):
        return "ECoordSys"
    if isinstance(e, (ValueError, IndexError)):
        return "EValue"
    return None


def rand_unimodular(rng, n):
    M = np.eye(n, dtype=np.int64)
    for _ in range(rng.integers(0, 4)):
        i, j = rng.integers(0, n, 2)
        if i != j:
            M[i] += int(rng.integers(-2, 3)) * M[j]
    if rng.random() < 0.5:
        M = M[rng.permutation(n)]
    if rng.random() < 0.4:
        M[int(rng.integers(0, n))] *= -1
    return M


def rand_aff(rng, maxdim):
    from nipy.core.api import AffineTransform, CoordinateSystem as CS
    nin = int(rng.integers(1, maxdim + 1))
    nout = int(rng.integers(1, maxdim + 1)) if rng.random() < 0.5 else nin
    names = [str(v) for v in rng.permutation(NAMES)]
    dn = names[:nin]
    rn = names[nin:nin + nout] if rng.random() < 0.7 else [str(v) for v in rng.permutation(NAMES)][:nout]
    dt = np.int64 if rng.random() < 0.2 else np.float64
    M = np.zeros((nout + 1, nin + 1), dtype=np.int64)
    if nin == nout and rng.random() < 0.6:
        M[:-1, :-1] = rand_unimodular(rng, nin)
    else:
        M[:-1, :-1] = rng.integers(-3, 4, (nout, nin))
        if rng.random() < 0.2:
            M[int(rng.integers(0, nout)), :-1] = 0
    M[:-1, -1] = rng.integers(-4, 5, nout)
    M[-1, -1] = 1
    return AffineTransform(CS(dn, str(rng.choice(SYSNAMES)), dt), CS(rn, str(rng.choice(SYSNAMES)), dt), M.astype(dt))


def call(a, x):
    """Evaluate map a at x, casting to the map's integer dtype when needed (values are integral)."""
    x = np.asarray(x)
    if np.dtype(a.function_domain.coord_dtype).kind == "i":
        x = np.round(x).astype(np.int64)
    return a(x)


def named_in(a, x):
    return dict(zip(a.function_domain.coord_names, [int(v) for v in x]))


def named_out(a, x):
    return dict(zip(a.function_range.coord_names, [float(v) for v in a(np.asarray(x))]))


def near_miss_system(rng, s):
    """A coordinate system differing from `s` in exactly one attribute (system name, coordinate dtype, one coordinate
    name, order of the names): composing across it must be refused by every kind of map."""
    from nipy.core.api import CoordinateSystem as CS
    other_dt = np.float64 if np.dtype(s.coord_dtype).kind == "i" else np.int64
    variants = [CS(s.coord_names, s.name + "2", s.coord_dtype), CS(s.coord_names, s.name, other_dt),
                CS(("qq",) + tuple(s.coord_names[1:]), s.name, s.coord_dtype)]
    if s.ndim > 1:
        variants.append(CS(tuple(s.coord_names[1:]) + tuple(s.coord_names[:1]), s.name, s.coord_dtype))
    return variants[int(rng.integers(0, len(variants)))]


def chained_and_near_miss(rng, env):
    """Extra maps for an environment: one whose domain IS the range of an existing map (so that compose applies),
    and 'near-miss' twins whose domain differs from that range in exactly one attribute - the system name, the
    coordinate dtype, one coordinate name, or the order of the names - which compose must refuse."""
    from nipy.core.api import AffineTransform, CoordinateSystem as CS
    out = []
    a = env[int(rng.integers(0, len(env)))]
    r = a.function_range
    variants = [("exact", r)]
    other_dt = np.float64 if np.dtype(r.coord_dtype).kind == "i" else np.int64
    variants.append(("name", CS(r.coord_names, r.name + "2", r.coord_dtype)))
    variants.append(("dtype", CS(r.coord_names, r.name, other_dt)))
    if r.ndim > 1:
        variants.append(("order", CS(r.coord_names[1:] + r.coord_names[:1], r.name, r.coord_dtype)))
    variants.append(("one-coordinate", CS(("qq",) + tuple(r.coord_names[1:]), r.name, r.coord_dtype)))
    picks = [variants[0]] + [variants[int(k)] for k in rng.choice(np.arange(1, len(variants)), size=min(2, len(variants) - 1), replace=False)]
    for _tag, dom in picks:
        nout = int(rng.integers(1, 4))
        names = [n_ for n_ in [str(v) for v in rng.permutation(NAMES)] if n_ not in dom.coord_names][:nout]
        M = np.zeros((nout + 1, dom.ndim + 1), dtype=np.int64)
        M[:-1, :] = rng.integers(-3, 4, (nout, dom.ndim + 1))
        M[-1, -1] = 1
        out.append(AffineTransform(dom, CS(names, str(rng.choice(SYSNAMES)), dom.coord_dtype), M.astype(dom.coord_dtype)))
    return out


ck_note_singular = []     # exactly singular maps for which inverse() nevertheless returned a map


def gen_op(rng, env, maxdim):
    """Returns (coq_op, callable producing impl result, oracle(result) -> None|str, kind)"""
    from nipy.core.reference import coordinate_map as cmod
    kind = str(rng.choice(["compose", "compose", "product", "reorder_dom", "reorder_rng", "reorder_dom_names",
                           "reorder_rng_names", "rename_dom", "rename_rng", "shift_dom", "shift_rng", "inverse",
                           "append", "drop"]))
    n = len(env)
    s = int(rng.integers(0, n))
    a = env[s]
    nin, nout = a.ndims
    bad = rng.random() < 0.22
    if kind == "compose":
        k = int(rng.integers(2, 4))
        srcs = [int(rng.integers(0, n))]
        for _ in range(k - 1):
            # pick a map whose range matches the domain of the previous one, if any
            cands = [i for i in range(n) if env[i].function_range == env[srcs[-1]].function_domain]
            # near misses: same number of coordinates but not the same system (name, dtype, a coordinate name or the order differs)
            near = [i for i in range(n) if env[i].function_range != env[srcs[-1]].function_domain
                    and env[i].function_range.ndim == env[srcs[-1]].function_domain.ndim]
            if cands and not bad:
                srcs.append(int(rng.choice(cands)))
            elif near and rng.random() < 0.7:
                srcs.append(int(rng.choice(near)))
            else:
                srcs.append(int(rng.integers(0, n)))
        fs = [env[i] for i in srcs]

        def oracle(r):
            x = rng.integers(-5, 6, fs[-1].ndims[0])
            y = x
            for f in fs[::-1]:
                y = f(y)
            if not np.array_equal(r(x), y):
                return "compose/apply-differs-from-sequential"
            if r.function_domain != fs[-1].function_domain or r.function_range.coord_names != fs[0].function_range.coord_names:
                return "compose/systems"
        return ("OCompose %s" % cnatl(srcs), lambda: cmod.compose(*fs), oracle, kind)
    if kind == "product":
        k = int(rng.integers(2, 4))
        srcs = [int(rng.integers(0, n)) for _ in range(k)]
        fs = [env[i] for i in srcs]

        def oracle(r):
            xs = [rng.integers(-5, 6, f.ndims[0]) for f in fs]
            y = r(np.concatenate(xs))
            if not np.array_equal(y, np.concatenate([f(x) for f, x in zip(fs, xs)])):
                return "product/not-blockwise"
            if list(r.function_domain.coord_names) != sum([list(f.function_domain.coord_names) for f in fs], []):
                return "product/names"
        return ("OProduct %s" % cnatl(srcs), lambda: cmod.product(*fs), oracle, kind)
    if kind in ("reorder_dom", "reorder_rng", "reorder_dom_names", "reorder_rng_names"):
        dom = "dom" in kind
        nd = nin if dom else nout
        order = [int(v) for v in rng.permutation(nd)]
        if bad:
            c = rng.integers(0, 4)
            if c == 0 and nd > 1:
                order[0] = order[1]
            elif c == 1:
                order = order + [nd]
            elif c == 2:
                order = order[:-1]
            else:
                order[int(rng.integers(0, nd))] = nd + 1
        names = list(a.function_domain.coord_names if dom else a.function_range.coord_names)
        byname = kind.endswith("names")
        if byname:
            onames = [names[i] if i < len(names) else "qq" for i in order]
            if len(onames) == 0:
                byname = False
        arg = onames if byname else order

        def oracle(r):
            x = rng.integers(-5, 6, r.ndims[0])
            if dom:
                xin = named_in(r, x)
                xo = np.array([xin[nm] for nm in a.function_domain.coord_names])
                if named_out(a, xo) != named_out(r, x):
                    return "reorder_domain/named-values-change"
            else:
                if named_out(a, x) != named_out(r, x):
                    return "reorder_range/named-values-change"
                if list(r.function_range.coord_names) != [names[i] for i in order]:
                    return "reorder_range/names"
        if len(order) == 0:
            return None
        cop = ("%s %s %s" % ({"reorder_dom": "OReorderDom", "reorder_rng": "OReorderRng", "reorder_dom_names": "OReorderDomNames",
                             "reorder_rng_names": "OReorderRngNames"}[kind if byname or not kind.endswith("names") else kind[:-6]],
                            cnat(s), cstrl(arg) if byname else cnatl(arg)))
        f = (lambda: a.reordered_domain(arg)) if dom else (lambda: a.reordered_range(arg))
        return (cop, f, oracle, kind)
    if kind in ("rename_dom", "rename_rng"):
        dom = kind == "rename_dom"
        names = list(a.function_domain.coord_names if dom else a.function_range.coord_names)
        k = int(rng.integers(1, len(names) + 1))
        keys = [names[int(i)] for i in rng.permutation(len(names))[:k]]
        fresh = [nm for nm in ["aa", "bb", "cc", "dd", "ee"]]
        if rng.random() < 0.4 and len(keys) > 1:
            fresh = keys[1:] + keys[:1]          # new names that are OLD names of other axes (swap / cycle)
        d = {}
        for key, nv in zip(keys, fresh):
            usekey = names.index(key) if rng.random() < 0.3 else key
            d[usekey] = nv
        if bad:
            if rng.random() < 0.5:
                d["nosuch"] = "zz"
            else:
                d[keys[0]] = names[-1] if names[-1] != keys[0] and len(names) > 1 else "aa"
        # mirror of the code's resolution of integer keys (dict iteration order)
        nn = dict(d)
        for key in list(nn):
            if type(key) == int:
                nn[names[key]] = nn[key]
                del nn[key]
        cnn = clist(["(%s, %s)" % (cstr(k_), cstr(v_)) for k_, v_ in nn.items()])
        snapshot = dict(d)

        def oracle(r):
            if d != snapshot:
                return "rename/mutates-callers-dict"
            x = rng.integers(-5, 6, r.ndims[0])
            if not np.array_equal(r(x), a(x)):
                return "rename/values-change"
            newn = list(r.function_domain.coord_names if dom else r.function_range.coord_names)
            if newn != [nn.get(nm, nm) for nm in names]:
                return "rename/names"
        f = (lambda: a.renamed_domain(d)) if dom else (lambda: a.renamed_range(d))
        return ("%s %s %s" % ("ORenameDom" if dom else "ORenameRng", cnat(s), cnn), f, oracle, kind)
    if kind in ("shift_dom", "shift_rng"):
        dom = kind == "shift_dom"
        nd = nin if dom else nout
        dv = [int(v) for v in rng.integers(-4, 5, nd + (1 if bad else 0))]
        nm = str(rng.choice(["neworigin", "o2"]))

        def oracle(r):
            x = rng.integers(-5, 6, r.ndims[0])
            if dom:
                if not np.array_equal(r(x), a(x + np.array(dv))):
                    return "shifted_domain_origin/value"
            else:
                if not np.array_equal(r(x), a(x) - np.array(dv)):
                    return "shifted_range_origin/value"
        fn = cmod.shifted_domain_origin if dom else cmod.shifted_range_origin
        return ("%s %s %s %s" % ("OShiftDom" if dom else "OShiftRng", cnat(s), czl(dv), cstr(nm)),
                lambda: fn(a, dv, nm), oracle, kind)
    if kind == "inverse":
        if nin != nout:
            return None
        inv = a.inverse()
        if inv is None:
            return None
        Minv = np.asarray(inv.affine, dtype=float)
        # the property speaks of maps that HAVE an inverse: decide that exactly (integer matrix, exact determinant).
        # numpy.linalg.inv does not always raise on an exactly singular matrix (rounding), and nipy then returns
        # a meaningless "inverse"; that is outside the property's quantifier, so it is only counted.
        import sympy
        if nin != nout or sympy.Matrix(np.asarray(a.affine[:-1, :-1]).astype(int).tolist()).det() == 0:
            ck_note_singular.append(caff(a))
            return None
        if np.max(np.abs(Minv - np.round(Minv))) > 1e-9:
            # non-integer inverse: round trip oracle only (no model step)
            x = rng.integers(-5, 6, nin).astype(float)
            if not np.allclose(np.asarray(inv(call(a, x)), dtype=float), x, atol=1e-8):
                return ("FAIL", "inverse/round-trip", {"map": caff(a), "x": [int(v) for v in x], "inverse_matrix": Minv.tolist(),
                                                      "got": np.asarray(inv(call(a, x)), dtype=float).tolist()})
            return None
        Mi = np.round(Minv).astype(np.int64)

        def oracle(r):
            x = rng.integers(-5, 6, nin)
            if not np.array_equal(np.round(call(r, call(a, x))), x) or not np.array_equal(np.round(call(a, call(r, x))), x):
                return "inverse/round-trip"
            if r.function_domain.coord_names != a.function_range.coord_names or \
                    r.function_range.coord_names != a.function_domain.coord_names:
                return "inverse/systems-not-swapped"
        return ("OInverse %s %s" % (cnat(s), cmat(Mi)), lambda: a.inverse(), oracle, kind)
    if kind == "append":
        used = set(a.function_domain.coord_names) | set(a.function_range.coord_names)
        iname = "aa" if not bad else a.function_domain.coord_names[0]
        oname = "bb"
        st, sp = int(rng.integers(-3, 4)), int(rng.integers(1, 4))

        def oracle(r):
            x = rng.integers(-5, 6, nin)
            t = int(rng.integers(-5, 6))
            y = r(np.concatenate([x, [t]]))
            if not np.array_equal(y[:-1], a(x)) or y[-1] != sp * t + st:
                return "append_io_dim/value"
        return ("OAppend %s %s %s %s %s" % (cnat(s), cstr(iname), cstr(oname), cz(st), cz(sp)),
                lambda: cmod.append_io_dim(a, iname, oname, st, sp), oracle, kind)
    if kind == "drop":
        if nin < 2 or nout < 2:
            return None
        fix0 = bool(rng.random() < 0.7)
        choices = list(range(nin)) + list(a.function_domain.coord_names) + list(a.function_range.coord_names)
        ax = choices[int(rng.integers(0, len(choices)))]
        if isinstance(ax, (np.integer,)):
            ax = int(ax)
        ax = ax if isinstance(ax, int) else str(ax)
        try:
            i, o = cmod.io_axis_indices(a, ax, fix0)   # oracle (nibabel io_orientation)
        except Exception:
            return None

        def oracle(r):
            if i is None or o is None or r.ndims[0] == 0 or r.ndims[1] == 0:
                return None
            x = rng.integers(-5, 6, nin)
            xr = np.delete(x, i)
            yfull = a(np.where(np.arange(nin) == i, 0, x))
            if not np.array_equal(r(xr), np.delete(yfull, o) if True else None):
                return "drop_io_dim/remaining-axes-change"
        return ("ODrop %s %s %s %s" % (cnat(s), copt(i), copt(o), cbool(fix0)),
                lambda: cmod.drop_io_dim(a, ax, fix0), oracle, kind)
    return None



def make_cmap(a):
    """A general CoordinateMap with the same forward/inverse functions as the integer AffineTransform a."""
    from nipy.core.api import CoordinateMap
    A = np.array(a.affine[:-1, :-1]); b = np.array(a.affine[:-1, -1])

    def fwd(x, A=A, b=b):
        return np.dot(x, A.T) + b
    inv = None
    if A.shape[0] == A.shape[1] and abs(round(np.linalg.det(A.astype(float)))) == 1:
        Ai = np.round(np.linalg.inv(A.astype(float))).astype(A.dtype)
        if np.array_equal(Ai.dot(A), np.eye(A.shape[0], dtype=A.dtype)):
            def inv(y, Ai=Ai, b=b):
                return np.dot(y - b, Ai.T)
    return CoordinateMap(a.function_domain, a.function_range, fwd, inv)


def cmap_near_miss_refusals(ck):
    """compose() of a general CoordinateMap with a map whose adjoining system differs in exactly one attribute
    (system name, coordinate dtype in either direction, one coordinate name, order of the names) must be refused,
    on either side, exactly as the AffineTransform path refuses it."""
    from nipy.core.reference import coordinate_map as cmod
    from nipy.core.reference.coordinate_system import CoordinateSystemError
    from nipy.core.api import AffineTransform, CoordinateSystem as CS
    rng = ck.rng("cmap-near-miss")
    n = 0
    for case in range(ck.n(30, 200)):
        a = rand_aff(rng, 3)
        base_dt = np.int64 if case % 2 else np.float64
        dom = CS(a.function_domain.coord_names, a.function_domain.name, base_dt)
        ran = CS(a.function_range.coord_names, a.function_range.name, base_dt)
        a = AffineTransform(dom, ran, np.asarray(a.affine).astype(base_dt))
        try:
            cm = make_cmap(a)
        except Exception:
            continue
        for side in ("left", "right"):
            s0 = cm.function_range if side == "left" else cm.function_domain
            other_dt = np.float64 if np.dtype(s0.coord_dtype).kind == "i" else np.int64
            variants = [("name", CS(s0.coord_names, s0.name + "2", s0.coord_dtype)),
                        ("dtype", CS(s0.coord_names, s0.name, other_dt)),
                        ("one-coordinate", CS(("qq",) + tuple(s0.coord_names[1:]), s0.name, s0.coord_dtype))]
            if s0.ndim > 1:
                variants.append(("order", CS(tuple(s0.coord_names[1:]) + tuple(s0.coord_names[:1]), s0.name, s0.coord_dtype)))
            for tag, sysx in variants:
                k = int(rng.integers(1, 4))
                if side == "left":
                    M = np.zeros((k + 1, sysx.ndim + 1), dtype=np.int64)
                    M[:-1, :-1] = rng.integers(-2, 3, (k, sysx.ndim)); M[:-1, -1] = rng.integers(-3, 4, k); M[-1, -1] = 1
                    other = AffineTransform(sysx, CS(["o%d" % i for i in range(k)], "out", sysx.coord_dtype), M.astype(sysx.coord_dtype))
                    f = lambda o: cmod.compose(other, o)
                else:
                    M = np.zeros((sysx.ndim + 1, k + 1), dtype=np.int64)
                    M[:-1, :-1] = rng.integers(-2, 3, (sysx.ndim, k)); M[:-1, -1] = rng.integers(-3, 4, sysx.ndim); M[-1, -1] = 1
                    other = AffineTransform(CS(["n%d" % i for i in range(k)], "in", sysx.coord_dtype), sysx, M.astype(sysx.coord_dtype))
                    f = lambda o: cmod.compose(o, other)
                # a second general map on the other side as well (no AffineTransform in the chain at all)
                for kind, mk in (("affine-neighbour", lambda: other), ("cmap-neighbour", lambda: make_cmap(other))):
                    try:
                        oth = mk()
                    except Exception:
                        continue
                    g = (lambda o, oth=oth: cmod.compose(oth, o)) if side == "left" else (lambda o, oth=oth: cmod.compose(o, oth))
                    n += 1
                    ck.count(("cmap-near-miss", case, side, tag, kind), nontrivial=True, bucket="cmap-near-miss:%s:%s" % (tag, np.dtype(base_dt).kind))
                    meta = {"map": caff(a), "side": side, "differs_in": tag, "base_dtype": str(np.dtype(base_dt)), "neighbour": caff(other), "neighbour_kind": kind}
                    try:
                        g(a)
                        ck.fail("compose/near-miss-accepted/affine/%s" % tag, "AffineTransform compose accepts systems that differ in %s" % tag, meta)
                    except (ValueError, CoordinateSystemError):
                        pass
                    try:
                        g(cm)
                        ck.fail("cmap/compose/near-miss-accepted/%s" % tag,
                                "compose of a general CoordinateMap accepts a neighbour whose adjoining coordinate system differs in %s only "
                                "(the AffineTransform path refuses it)" % tag, meta)
                    except (ValueError, CoordinateSystemError):
                        pass
    ck.section("cmap-near-miss", cases=n)


def cmaps(ck):
    """General CoordinateMap: chains of reorder / rename / compose / product on a CoordinateMap whose
    functions are those of an integer affine; compared with the Coq CMap model (vm_compute), with the
    AffineTransform path of the implementation, and with the named-tuple semantics."""
    from nipy.core.reference import coordinate_map as cmod
    from nipy.core.api import AffineTransform, CoordinateSystem as CS
    rng = ck.rng("cmaps")
    ncases = ck.n(120, 1200)
    terms, metas = [], []
    for case in range(ncases):
        a = rand_aff(rng, 4)
        while np.dtype(a.function_domain.coord_dtype).kind != "f":   # integer-typed systems refuse float intermediates at evaluation time
            a = rand_aff(rng, 4)
        cm = make_cmap(a)
        cur_c, cur_a = cm, a
        ops = []
        refused = False
        for _ in range(int(rng.integers(1, 4))):
            kind = str(rng.choice(["rdom", "rrng", "ndom", "nrng", "cleft", "cright", "prod"]))
            nin, nout = cur_c.ndims
            try:
                if kind in ("rdom", "rrng"):
                    nd = nin if kind == "rdom" else nout
                    order = [int(v) for v in rng.permutation(nd)]
                    if rng.random() < 0.15 and nd > 1:
                        order[0] = order[1]
                    cop = "%s %s" % ("CReorderDom" if kind == "rdom" else "CReorderRng", cnatl(order))
                    f = (lambda o: o.reordered_domain(order)) if kind == "rdom" else (lambda o: o.reordered_range(order))
                elif kind in ("ndom", "nrng"):
                    names = list(cur_c.function_domain.coord_names if kind == "ndom" else cur_c.function_range.coord_names)
                    keys = [names[int(i)] for i in rng.permutation(len(names))[:int(rng.integers(1, len(names) + 1))]]
                    # include renamings whose new name is another OLD name (swaps / cycles / chains)
                    if rng.random() < 0.5 and len(keys) > 1:
                        vals = keys[1:] + keys[:1]
                    else:
                        vals = ["aa", "bb", "cc", "dd"][:len(keys)]
                    d = dict(zip(keys, vals))
                    cop = "%s %s" % ("CRenameDom" if kind == "ndom" else "CRenameRng",
                                     clist(["(%s, %s)" % (cstr(k), cstr(v)) for k, v in d.items()]))
                    f = (lambda o: o.renamed_domain(dict(d))) if kind == "ndom" else (lambda o: o.renamed_range(dict(d)))
                elif kind in ("cleft", "cright"):
                    other = rand_aff(rng, 3)
                    while np.dtype(other.function_domain.coord_dtype).kind != "f":
                        other = rand_aff(rng, 3)
                    # make the systems match (most of the time) by building `other` on the current systems
                    if kind == "cleft":
                        sysd = cur_c.function_range
                        if rng.random() < 0.3:
                            sysd = near_miss_system(rng, sysd)   # differs in name / dtype / one coordinate / order only
                        M = np.zeros((other.ndims[1] + 1, sysd.ndim + 1), dtype=np.int64)
                        M[:-1, :-1] = rng.integers(-2, 3, (other.ndims[1], sysd.ndim)); M[:-1, -1] = rng.integers(-3, 4, other.ndims[1]); M[-1, -1] = 1
                        # both systems of `other` carry the dtype of sysd (AffineTransform promotes mixed dtypes to a common one,
                        # which would silently undo a dtype near-miss)
                        other = AffineTransform(sysd, CS(other.function_range.coord_names, other.function_range.name, sysd.coord_dtype),
                                                M.astype(sysd.coord_dtype))
                        f = lambda o: cmod.compose(other, o)
                        cop = "CComposeLeft %s" % caff(other)
                    else:
                        sysr = cur_c.function_domain
                        if rng.random() < 0.3:
                            sysr = near_miss_system(rng, sysr)
                        M = np.zeros((sysr.ndim + 1, other.ndims[0] + 1), dtype=np.int64)
                        M[:-1, :-1] = rng.integers(-2, 3, (sysr.ndim, other.ndims[0])); M[:-1, -1] = rng.integers(-3, 4, sysr.ndim); M[-1, -1] = 1
                        other = AffineTransform(CS(other.function_domain.coord_names, other.function_domain.name, sysr.coord_dtype), sysr,
                                                M.astype(sysr.coord_dtype))
                        f = lambda o: cmod.compose(o, other)
                        cop = "CComposeRight %s" % caff(other)
                else:
                    other = rand_aff(rng, 2)
                    while np.dtype(other.function_domain.coord_dtype).kind != "f":
                        other = rand_aff(rng, 2)
                    f = lambda o: cmod.product(o, other)
                    cop = "CProductWith %s" % caff(other)
            except Exception:
                continue
            ops.append(cop)
            res_c = res_a = None
            from nipy.core.reference.coordinate_system import CoordinateSystemError
            try:
                res_c = f(cur_c)
            except (ValueError, IndexError, CoordinateSystemError) as e:
                refused = True
            try:
                res_a = f(cur_a)
            except (ValueError, IndexError, CoordinateSystemError):
                pass
            if refused:
                if res_a is not None:
                    ck.fail("cmap/%s/refused-but-affine-path-accepts" % kind, "CoordinateMap path refuses an operation the AffineTransform path accepts",
                            {"start": caff(a), "ops": ops})
                break
            if res_a is None:
                # e.g. permuted-name systems must be refused by both paths
                ck.fail("cmap/%s/accepted-but-affine-path-refuses" % kind,
                        "CoordinateMap path accepts an operation the AffineTransform path refuses (systems do not match / invalid argument)",
                        {"start": caff(a), "ops": ops})
                break
            cur_c, cur_a = res_c, res_a
            x = rng.integers(-5, 6, cur_c.ndims[0])
            if cur_c.function_domain != cur_a.function_domain or cur_c.function_range.coord_names != cur_a.function_range.coord_names \
                    or not np.array_equal(np.asarray(cur_c(x), dtype=float), np.asarray(call(cur_a, x), dtype=float)):
                ck.fail("cmap/%s/differs-from-affine-path" % kind,
                        "a general CoordinateMap and the equivalent AffineTransform give different results after the same operations",
                        {"start": caff(a), "ops": ops, "x": [int(v) for v in x]})
                break
        if not ops:
            continue
        ck.count(("cmap", tuple(ops)), nontrivial=not refused, bucket="cmap:" + ("refused" if refused else "ok"))
        if refused:
            terms.append("cm_chain_agrees %s %s [] None" % (caff(a), clist(["(%s)" % o for o in ops])))
        else:
            x = rng.integers(-6, 7, cur_c.ndims[0])
            y = cur_c(x)
            if not is_int_matrix(np.atleast_2d(y)):
                continue
            terms.append("cm_chain_agrees %s %s %s (Some (%s, %s, %s))" % (
                caff(a), clist(["(%s)" % o for o in ops]), czl(x), cstrl(cur_c.function_domain.coord_names),
                cstrl(cur_c.function_range.coord_names), czl([int(v) for v in y])))
            inv = cur_c.inverse()
            if inv is not None:
                xb = inv(cur_c(x))
                if not np.allclose(xb, x):
                    ck.fail("cmap/inverse-round-trip", "inverse of a CoordinateMap does not undo it", {"start": caff(a), "ops": ops})
        metas.append({"start": caff(a), "ops": ops})
        if case < 2:
            ck.sample({"cmap_chain": ops})
    if ck.build.ok:
        res = ck.coq_bools(HDR, terms, shard=120, name="cmaps")
        ck.cov["traces_validated_against_impl"] += len(res)
        for ok, m in zip(res, metas):
            if not ok:
                ck.fail("model-vs-impl/cmap-chain", "CMap model and implementation disagree on a chain of CoordinateMap operations", m)
                break
    ck.section("cmaps", chains=len(terms))


def my_fix0(aff):
    """Independent restatement of the documented _fix0 rule (exactly one all-zero row and one all-zero
    column in the linear part -> 1 at their crossing); used to feed nibabel's io_orientation."""
    aff = np.asarray(aff)
    L = aff[:-1, :-1]
    zr = [k for k in range(L.shape[0]) if not L[k].any()]
    zc = [j for j in range(L.shape[1]) if not L[:, j].any()]
    if len(zr) != 1 or len(zc) != 1:
        return aff
    out = aff.copy()
    out[zr[0], zc[0]] = 1
    return out


def rand_axis_aff(rng):
    """Maps built for axis surgery: a partial matching of inputs to outputs (non-square allowed), optional
    coupling that breaks orthogonality, zero rows / columns (0 TR), names shared between input and output."""
    from nipy.core.api import AffineTransform, CoordinateSystem as CS
    nin, nout = int(rng.integers(1, 6)), int(rng.integers(1, 6))
    if rng.random() < 0.35:
        nout = nin
    M = np.zeros((nout + 1, nin + 1), dtype=np.int64)
    outs = [int(v) for v in rng.permutation(nout)]
    ins = [int(v) for v in rng.permutation(nin)]
    for i, o in list(zip(ins, outs))[:int(rng.integers(0, min(nin, nout) + 1))]:
        M[o, i] = int(rng.choice([-3, -2, -1, 1, 2, 3])) if rng.random() < 0.9 else 0
    c = rng.random()
    if c < 0.3:
        for _ in range(int(rng.integers(1, 3))):
            M[int(rng.integers(0, nout)), int(rng.integers(0, nin))] = int(rng.integers(-2, 3))
    elif c < 0.4:
        M[:-1, :-1] = rng.integers(-2, 3, (nout, nin))
    if rng.random() < 0.35:      # large steps (e.g. time in ms) next to unit couplings: orthogonality is not relative
        k = int(rng.integers(0, nout))
        M[k, :-1] *= 10 ** int(rng.integers(3, 9))
        if rng.random() < 0.5 and nin > 1 and nout > 1:
            M[int(rng.integers(0, nout)), int(rng.integers(0, nin))] += int(rng.choice([-1, 1]))
    M[:-1, -1] = rng.integers(-4, 5, nout)
    M[-1, -1] = 1
    names = [str(v) for v in rng.permutation(NAMES)]
    dn = names[:nin]
    rn = names[nin:nin + nout]
    if rng.random() < 0.35:      # a name shared by an input and an output axis (corresponding or not)
        rn[int(rng.integers(0, nout))] = dn[int(rng.integers(0, nin))]
    dt = np.int64 if rng.random() < 0.15 else np.float64
    return AffineTransform(CS(dn, "in", dt), CS(rn, "out", dt), M.astype(dt))


def axes(ck):
    """io_axis_indices / axmap / _fix0 / drop_io_dim by axis id (negative and out-of-range integers, input
    names, output names, shared and unknown names) on non-square maps: implementation against the Coq model
    (vm_compute; nibabel's io_orientation is the only oracle) and against the named-axis semantics."""
    from nibabel.orientations import io_orientation
    from nipy.core.reference import coordinate_map as cmod
    from nipy.core.api import AffineTransform
    rng = ck.rng("axes")
    ncases = ck.n(250, 2500)
    t_io, m_io, t_fx, m_fx, t_dr, m_dr = [], [], [], [], [], []

    def cax(ax):
        return "(AxInt %s)" % cz(ax) if isinstance(ax, int) else "(AxName %s)" % cstr(ax)

    def kind_of(ax, a):
        if isinstance(ax, int):
            n = a.ndims[0]
            return "int:" + ("negative" if -n <= ax < 0 else "in-range" if 0 <= ax < n else "out-of-range")
        i, o = ax in a.function_domain.coord_names, ax in a.function_range.coord_names
        return "name:" + ("shared" if i and o else "input" if i else "output" if o else "unknown")

    for case in range(ncases):
        a = rand_axis_aff(rng)
        nin, nout = a.ndims
        dn, rn = list(a.function_domain.coord_names), list(a.function_range.coord_names)
        fix0 = bool(rng.random() < 0.6)
        aff = np.asarray(a.affine)
        fx = my_fix0(aff)
        got_fx = cmod._fix0(aff)
        if not np.array_equal(np.asarray(got_fx), fx):
            ck.fail("fix0/not-the-documented-rule", "_fix0 does not put a 1 at the crossing of the single zero row and zero column (or changes another matrix)",
                    {"affine": aff.tolist(), "got": np.asarray(got_fx).tolist(), "expected": fx.tolist()})
        t_fx.append("fix0_agrees %s %s" % (cmat(aff), cmat(np.asarray(got_fx))))
        m_fx.append({"affine": aff.tolist()})
        ornts_f = io_orientation(fx if fix0 else aff)[:, 0]
        ornts = [None if np.isnan(v) else int(v) for v in ornts_f]
        cornts = clist([copt(v) for v in ornts])
        ids = list(range(-nin - 2, nin + 2)) + dn + rn + ["qq"]
        for ax in [ids[int(k)] for k in rng.choice(len(ids), size=min(len(ids), 4), replace=False)]:
            ax = int(ax) if isinstance(ax, (int, np.integer)) else str(ax)
            kd = kind_of(ax, a)
            meta = {"map": caff(a), "axis_id": ax, "fix0": fix0, "io_orientation": ornts}
            # ---- io_axis_indices
            try:
                got = cmod.io_axis_indices(a, ax, fix0)
                exp = "(AxOk %s %s)" % (copt(got[0]), copt(got[1]))
            except cmod.AxisError:
                got, exp = "AxisError", "AxErrAxis"
            except KeyError:
                got, exp = "KeyError", "AxErrKey"
            except Exception as e:  # noqa
                ck.fail("io_axis_indices/unexpected-exception", "%s: %s" % (type(e).__name__, e), meta)
                continue
            t_io.append("io_axis_agrees %s %s %s %s %s" % (cstrl(dn), cstrl(rn), cornts, cax(ax), exp))
            m_io.append(dict(meta, got=str(got)))
            # named-axis semantics, independent of the model: which pair must have been identified
            if isinstance(got, tuple):
                want_i = want_o = "?"
                if isinstance(ax, int):
                    want_i = ax % nin          # "-2 refers to the second from last input axis"
                elif ax in dn:
                    want_i = dn.index(ax)
                else:
                    want_o = rn.index(ax)
                if (want_i != "?" and got[0] != want_i) or (want_o != "?" and got[1] != want_o):
                    ck.fail("io_axis_indices/wrong-axis/" + kd.replace(":", "-"),
                            "io_axis_indices identifies another axis than the one the id names", dict(meta, got=list(got)))
            elif got == "KeyError" and isinstance(ax, int) and -nin <= ax < nin:
                ck.fail("io_axis_indices/refuses-valid-index", "a valid (possibly negative) input index is refused", meta)
            # ---- drop_io_dim by the same id
            try:
                r = cmod.drop_io_dim(a, ax, fix0)
                ok = isinstance(r, AffineTransform) and is_int_matrix(r.affine)
                exp_d = "(Some (Ok %s))" % caff(r) if ok else None
            except cmod.AxisError:
                r, exp_d = None, "(Some (Err EAxis))"
            except KeyError:
                r, exp_d = None, "None"
            except Exception as e:  # noqa
                k = errkind(e)
                if k is None:
                    ck.fail("drop_io_dim/unexpected-exception", "%s: %s" % (type(e).__name__, e), meta)
                    continue
                r, exp_d = None, "(Some (Err %s))" % k
            ck.count(("axes", caff(a), ax, fix0), nontrivial=r is not None, bucket="axes:%s:%s" % (kd, "dropped" if r is not None else "refused"))
            if exp_d is not None:
                t_dr.append("drop_id_agrees %s %s %s %s %s" % (caff(a), cax(ax), cornts, cbool(fix0), exp_d))
                m_dr.append(meta)
            if r is not None and isinstance(got, tuple):
                gi, go = got
                keep_in = [n_ for k_, n_ in enumerate(dn) if k_ != gi]
                keep_out = [n_ for k_, n_ in enumerate(rn) if k_ != go]
                # the axis the id names must be gone, all others must remain, in order
                named_in = dn[ax % nin] if isinstance(ax, int) else (ax if ax in dn else None)
                named_out = ax if (not isinstance(ax, int) and ax in rn) else None
                rd, rr = list(r.function_domain.coord_names), list(r.function_range.coord_names)
                if rd != keep_in or rr != keep_out or (named_in is not None and (named_in in rd or len(rd) != nin - 1)) \
                        or (named_out is not None and (named_out in rr or len(rr) != nout - 1)):
                    ck.fail("drop_io_dim/wrong-axes-remain/" + kd.replace(":", "-"),
                            "after drop_io_dim the axis the id names is still there or another axis is gone",
                            dict(meta, remaining_domain=rd, remaining_range=rr))
                elif r.ndims[0] > 0 and r.ndims[1] > 0:
                    x = rng.integers(-5, 6, nin)
                    if gi is not None and go is None:
                        x[gi] = 0
                    xr = np.delete(x, gi) if gi is not None else x
                    y = np.asarray(call(a, x), dtype=float)
                    yr = np.delete(y, go) if go is not None else y
                    if not np.array_equal(np.asarray(call(r, xr), dtype=float), yr):
                        ck.fail("drop_io_dim/remaining-axes-change", "after dropping an axis the remaining named outputs are no longer the same function of the remaining named inputs",
                                dict(meta, x=[int(v) for v in x]))
        if case < 2:
            ck.sample({"axes_map": caff(a), "io_orientation": ornts})
    if ck.build.ok:
        for nm, terms, metas, sig, what in (
                ("axes_fix0", t_fx, m_fx, "model-vs-impl/fix0", "_fix0: model and implementation disagree"),
                ("axes_io", t_io, m_io, "model-vs-impl/io_axis_indices", "io_axis_indices: model and implementation disagree on the (input, output) pair an axis id names"),
                ("axes_drop", t_dr, m_dr, "model-vs-impl/drop_io_dim-by-id", "drop_io_dim(cm, axis_id): model and implementation disagree")):
            res = ck.coq_bools(HDR, terms, shard=300, name=nm)
            ck.cov["traces_validated_against_impl"] += len(res)
            for ok, m in zip(res, metas):
                if not ok:
                    ck.fail(sig, what, m)
                    break
    ck.section("axes", fix0=len(t_fx), io_axis_indices=len(t_io), drop_by_id=len(t_dr))


def batches(ck):
    """Point batches: maps evaluated on arrays of shape (..., nin) with 1-3 leading dimensions in C, Fortran,
    transposed-base and strided layouts; every batch position must hold the map applied to the point at that
    position (AffineTransform and general CoordinateMap), and the C-order flattening must agree with the model."""
    rng = ck.rng("batches")
    ncases = ck.n(120, 1200)
    terms, metas = [], []
    for case in range(ncases):
        a = rand_aff(rng, 4)
        nin, nout = a.ndims
        isint = np.dtype(a.function_domain.coord_dtype).kind == "i"
        lead = tuple(int(v) for v in rng.integers(1, 5, int(rng.integers(1, 4))))
        X = rng.integers(-6, 7, lead + (nin,)).astype(np.int64 if isint else np.float64)
        layout = str(rng.choice(["C", "F", "transposed-base", "strided", "negative-stride"]))
        if layout == "F":
            Xl = np.asfortranarray(X)
        elif layout == "transposed-base":          # what np.indices(...).T produces
            Xl = np.ascontiguousarray(X.transpose()).transpose()
        elif layout == "strided":
            big = np.zeros(tuple(2 * s for s in X.shape), dtype=X.dtype)
            sl = tuple(slice(None, None, 2) for _ in X.shape)
            big[sl] = X
            Xl = big[sl]
        elif layout == "negative-stride":
            Xl = X[::-1].copy()[::-1]
        else:
            Xl = X
        assert np.array_equal(Xl, X)
        want = np.array([np.asarray(call(a, x), dtype=float) for x in X.reshape(-1, nin)]).reshape(lead + (nout,))
        meta = {"map": caff(a), "batch_shape": list(X.shape), "layout": layout, "X": X.tolist()}
        for kind, m in (("affine", a), ("cmap", make_cmap(a) if not isint else None)):
            if m is None:
                continue
            X0 = Xl.copy()
            try:
                got = np.asarray(m(Xl), dtype=float)
            except Exception as e:  # noqa
                ck.fail("batch/%s/raises/%s" % (kind, layout), "evaluating a %s batch raised %s: %s" % (layout, type(e).__name__, e), meta)
                continue
            ck.count(("batch", kind, caff(a), X.tobytes(), layout), nontrivial=X.ndim > 2, bucket="batch:%s:%s:ndim%d" % (kind, layout, X.ndim))
            if got.shape != want.shape or not np.array_equal(got, want):
                ck.fail("batch/%s/not-pointwise/%s" % (kind, layout),
                        "the value at some batch position is not the map applied to the point at that position", dict(meta, got=got.tolist(), expected=want.tolist()))
            if not np.array_equal(Xl, X0):
                ck.fail("batch/%s/modifies-points" % kind, "evaluation changed the caller's point array", meta)
            if kind == "affine" and got.shape == want.shape and is_int_matrix(got):
                terms.append("batch_agrees %s %s %s (Some %s)" % (caff(a), cnat(int(np.prod(lead))), czl([int(v) for v in X.reshape(-1)]),
                                                                   czl([int(v) for v in got.reshape(-1)])))
                metas.append(meta)
        # wrong trailing length must be refused
        if rng.random() < 0.3:
            bad = rng.integers(-3, 4, lead + (nin + 1,)).astype(X.dtype)
            try:
                a(bad)
                ck.fail("batch/accepts-wrong-trailing-length", "a batch whose last axis is not the domain dimension was accepted", meta)
            except Exception:
                terms.append("batch_agrees %s %s %s None" % (caff(a), cnat(int(np.prod(lead))), czl([int(v) for v in bad.reshape(-1)])))
                metas.append(dict(meta, bad_shape=list(bad.shape)))
        if case < 1:
            ck.sample({"batch_shape": list(X.shape), "layout": layout})
    if ck.build.ok:
        res = ck.coq_bools(HDR, terms, shard=200, name="batches")
        ck.cov["traces_validated_against_impl"] += len(res)
        for ok, m in zip(res, metas):
            if not ok:
                ck.fail("model-vs-impl/batch", "batch evaluation: model and implementation disagree", m)
                break
    ck.section("batches", batches=ncases, model_comparisons=len(terms))


def symbolic(ck):
    """Symbolic entries: programs over AffineTransforms whose matrices hold sympy polynomials (object dtype).  The
    implementation runs symbolically; then the symbols are replaced by random integers in the inputs and in every
    result, and the substituted results must be what the model computes from the substituted inputs (evaluation is
    a ring homomorphism, and the theorems hold over every commutative ring)."""
    import sympy
    from nipy.core.api import AffineTransform, CoordinateSystem as CS
    from nipy.core.reference import coordinate_map as cmod
    rng = ck.rng("symbolic")
    syms = sympy.symbols("a b c")
    nprog = ck.n(40, 400)

    pool = NAMES + ["p", "q", "r", "s", "o", "e", "f", "g", "h", "d"]

    def rand_sym_aff(fresh, dom=None, maxdim=3):
        """fresh: iterator over unused names; dom: reuse this coordinate system as the domain (so that compose applies)"""
        nin = dom.ndim if dom is not None else int(rng.integers(1, maxdim + 1))
        nout = int(rng.integers(1, maxdim + 1))
        M = np.zeros((nout + 1, nin + 1), dtype=object)
        for i in range(nout):
            for j in range(nin + 1):
                k = rng.random()
                e = sympy.Integer(int(rng.integers(-2, 3)))
                if k < 0.35:
                    e = e + int(rng.integers(-2, 3)) * syms[int(rng.integers(0, 3))]
                elif k < 0.45:
                    e = e + syms[int(rng.integers(0, 3))] * syms[int(rng.integers(0, 3))]
                M[i, j] = e
        M[-1, :] = 0
        M[-1, -1] = 1
        d = dom if dom is not None else CS([next(fresh) for _ in range(nin)], str(rng.choice(SYSNAMES)), object)
        return AffineTransform(d, CS([next(fresh) for _ in range(nout)], str(rng.choice(SYSNAMES)), object), M)

    def rand_env():
        fresh = iter([str(v) for v in rng.permutation(pool)])
        env = []
        for _ in range(int(rng.integers(2, 5))):
            dom = env[int(rng.integers(0, len(env)))].function_range if env and rng.random() < 0.6 else None
            env.append(rand_sym_aff(fresh, dom))
        return env

    def subst(a, vals):
        M = np.array(a.affine, dtype=object)
        out = np.zeros(M.shape, dtype=object)
        for idx in np.ndindex(M.shape):
            v = sympy.sympify(M[idx]).subs(vals)
            fv = sympy.nsimplify(v) if not v.is_Integer else v
            if not (fv.is_Integer or (fv.is_Rational and fv.q == 1)):
                raise ValueError("non-integer after substitution: %r" % (v,))
            out[idx] = int(fv)
        return "(Build_aff %s %s %s)" % (ccs(a.function_domain), ccs(a.function_range), clist([czl([int(v) for v in row]) for row in out]))

    terms, metas = [], []
    for p in range(nprog):
        env = rand_env()
        env0 = list(env)
        ops, results = [], []
        for _ in range(int(rng.integers(1, 6))):
            kind = str(rng.choice(["compose", "product", "reorder_dom", "reorder_rng", "rename_dom", "rename_rng", "shift_dom", "shift_rng", "append"]))
            n = len(env)
            s_ = int(rng.integers(0, n)); a = env[s_]
            nin, nout = a.ndims
            try:
                if kind == "compose":
                    srcs = [int(rng.integers(0, n))]
                    cands = [i for i in range(n) if env[i].function_range == env[srcs[-1]].function_domain]
                    srcs.append(int(rng.choice(cands)) if cands and rng.random() < 0.8 else int(rng.integers(0, n)))
                    cop, f = "OCompose %s" % cnatl(srcs), (lambda: cmod.compose(*[env[i] for i in srcs]))
                elif kind == "product":
                    srcs = [int(rng.integers(0, n)) for _ in range(int(rng.integers(2, 4)))]
                    cop, f = "OProduct %s" % cnatl(srcs), (lambda: cmod.product(*[env[i] for i in srcs]))
                elif kind in ("reorder_dom", "reorder_rng"):
                    nd = nin if kind == "reorder_dom" else nout
                    order = [int(v) for v in rng.permutation(nd)]
                    cop = "%s %s %s" % ("OReorderDom" if kind == "reorder_dom" else "OReorderRng", cnat(s_), cnatl(order))
                    f = (lambda: a.reordered_domain(order)) if kind == "reorder_dom" else (lambda: a.reordered_range(order))
                elif kind in ("rename_dom", "rename_rng"):
                    names = list(a.function_domain.coord_names if kind == "rename_dom" else a.function_range.coord_names)
                    d = {names[int(rng.integers(0, len(names)))]: "aa"}
                    cop = "%s %s %s" % ("ORenameDom" if kind == "rename_dom" else "ORenameRng", cnat(s_), clist(["(%s, %s)" % (cstr(k), cstr(v)) for k, v in d.items()]))
                    f = (lambda: a.renamed_domain(dict(d))) if kind == "rename_dom" else (lambda: a.renamed_range(dict(d)))
                elif kind in ("shift_dom", "shift_rng"):
                    nd = nin if kind == "shift_dom" else nout
                    dl = [int(v) for v in rng.integers(-3, 4, nd)]
                    cop = "%s %s %s %s" % ("OShiftDom" if kind == "shift_dom" else "OShiftRng", cnat(s_), czl(dl), cstr("neworigin"))
                    f = (lambda: cmod.shifted_domain_origin(a, np.array(dl, dtype=object), "neworigin")) if kind == "shift_dom" else \
                        (lambda: cmod.shifted_range_origin(a, np.array(dl, dtype=object), "neworigin"))
                else:
                    st, sp = int(rng.integers(-3, 4)), int(rng.integers(1, 4))
                    cop, f = "OAppend %s %s %s %s %s" % (cnat(s_), cstr("aa"), cstr("bb"), cz(st), cz(sp)), (lambda: cmod.append_io_dim(a, "aa", "bb", st, sp))
            except Exception:
                continue
            try:
                r = f()
                e = None
            except Exception as ex:  # noqa
                r, e = None, ex
            if e is not None:
                k = errkind(e)
                if k is None:
                    ck.fail("symbolic/%s/unexpected-exception" % kind, "%s on symbolic maps raised %s: %s" % (kind, type(e).__name__, e),
                            {"op": cop, "env": [str(x.affine.tolist()) for x in env]})
                    continue
                results.append(("err", k))
                ck.count(("sym", cop, "err"), nontrivial=False, bucket="symbolic:refused:" + kind)
            else:
                if not isinstance(r, AffineTransform):
                    continue
                results.append(("ok", r))
                env.append(r)
                ck.count(("sym", cop, str(r.affine.tolist())), nontrivial=True, bucket="symbolic:ok:" + kind)
            ops.append(cop)
        # inverse of symbolic maps (sympy branch of AffineTransform.inverse): exact check, Minv * M = I
        for m_ in [e_ for e_ in env if e_.ndims[0] == e_.ndims[1]][:2]:
            Ms = sympy.Matrix(np.asarray(m_.affine).tolist())
            if sympy.simplify(Ms.det()) == 0:
                continue
            try:
                mi = m_.inverse()
            except Exception as e:  # noqa
                ck.fail("symbolic/inverse/raises", "inverse() of an invertible symbolic map raised %s: %s" % (type(e).__name__, e), {"matrix": str(m_.affine.tolist())})
                continue
            ck.count(("sym-inv", str(m_.affine.tolist())), nontrivial=mi is not None, bucket="symbolic:inverse")
            if mi is None:
                ck.fail("symbolic/inverse/missing", "an invertible symbolic map has no inverse", {"matrix": str(m_.affine.tolist())})
            else:
                P = (sympy.Matrix(np.asarray(mi.affine).tolist()) * Ms - sympy.eye(Ms.shape[0])).applyfunc(
                    lambda e_: sympy.simplify(sympy.nsimplify(e_, rational=True)))
                if any(e_ != 0 for e_ in P) or mi.function_domain.coord_names != m_.function_range.coord_names or mi.function_range.coord_names != m_.function_domain.coord_names:
                    ck.fail("symbolic/inverse/does-not-undo", "the inverse of a symbolic map times the map is not the identity (or the systems are not swapped)",
                            {"matrix": str(m_.affine.tolist()), "inverse": str(mi.affine.tolist())})
        if not ops:
            continue
        for _ in range(2):
            vals = {s: int(rng.integers(-4, 5)) for s in syms}
            try:
                exp = ["Err %s" % x[1] if x[0] == "err" else "Ok %s" % subst(x[1], vals) for x in results]
                envs = [subst(x, vals) for x in env0]
            except ValueError:
                continue
            terms.append("run_agrees %s %s %s" % (clist(envs), clist(["(%s)" % o for o in ops]), clist(["(%s)" % x for x in exp])))
            metas.append({"symbolic_env": [str(x.affine.tolist()) for x in env0], "ops": ops, "substitution": {str(k): v for k, v in vals.items()},
                          "results": [str(x[1].affine.tolist()) if x[0] == "ok" else x[1] for x in results]})
        if p < 1:
            ck.sample({"symbolic_ops": ops, "first_matrix": str(env0[0].affine.tolist())})
    if ck.build.ok:
        res = ck.coq_bools(HDR, terms, shard=60, name="symbolic")
        ck.cov["traces_validated_against_impl"] += len(res)
        for ok, m in zip(res, metas):
            if not ok:
                ck.fail("model-vs-impl/symbolic-program", "a program on symbolic (sympy) maps, evaluated at integer values of the symbols, is not what the model computes from the evaluated inputs", m)
                break
    ck.section("symbolic", programs=nprog, substituted_comparisons=len(terms))


def cmaps_more(ck):
    """General CoordinateMaps in mixed company: compose() chains of 3-4 maps mixing CoordinateMap and AffineTransform
    objects (including runs of adjacent affines), shifted origins of general maps, and the inverse of every result -
    all against the function semantics (apply the parts in turn; an inverse undoes its map)."""
    from nipy.core.reference import coordinate_map as cmod
    from nipy.core.api import AffineTransform, CoordinateSystem as CS
    rng = ck.rng("cmaps_more")
    ncases = ck.n(150, 1500)
    for case in range(ncases):
        k = int(rng.integers(2, 5))
        names = [str(v) for v in rng.permutation(NAMES + ["p", "q", "r", "s", "o", "e", "f", "g"])]
        square = rng.random() < 0.6
        n0 = int(rng.integers(1, 4))
        dims = [n0] * (k + 1) if square else [int(rng.integers(1, 4)) for _ in range(k + 1)]
        systems, pos = [], 0
        for d in dims:
            systems.append(CS(names[pos:pos + d], str(rng.choice(SYSNAMES)), np.float64)); pos += d
        affs = []
        for j in range(k):
            M = np.zeros((dims[j + 1] + 1, dims[j] + 1))
            M[:-1, :-1] = rand_unimodular(rng, dims[j]) if dims[j] == dims[j + 1] else rng.integers(-2, 3, (dims[j + 1], dims[j]))
            M[:-1, -1] = rng.integers(-4, 5, dims[j + 1]); M[-1, -1] = 1
            affs.append(AffineTransform(systems[j], systems[j + 1], M))
        kinds = [("cmap" if rng.random() < 0.45 else "affine") for _ in range(k)]
        if "cmap" not in kinds:
            kinds[int(rng.integers(0, k))] = "cmap"
        objs = [make_cmap(a) if kd == "cmap" else a for a, kd in zip(affs, kinds)]
        meta = {"maps_applied_first_to_last": [caff(a) for a in affs], "kinds": kinds}
        x = rng.integers(-5, 6, dims[0]).astype(float)
        want = x
        for a in affs:
            want = a(want)
        # ---- compose(last, ..., first)
        try:
            r = cmod.compose(*objs[::-1])
        except Exception as e:  # noqa
            ck.fail("compose-mixed/raises/" + "-".join(kinds), "compose() of a valid chain mixing CoordinateMap and AffineTransform objects raised %s: %s" % (type(e).__name__, e), meta)
            continue
        ck.count(("cmix", tuple(kinds), tuple(dims), case), nontrivial=True, bucket="compose-mixed:k=%d:%s" % (k, "adjacent-affines" if any(kinds[i] == kinds[i + 1] == "affine" for i in range(k - 1)) else "no-adjacent-affines"))
        got = np.asarray(r(x), dtype=float)
        if not np.array_equal(got, want) or r.function_domain != systems[0] or r.function_range.coord_names != systems[-1].coord_names:
            ck.fail("compose-mixed/not-sequential-application/" + ("adjacent-affines" if any(kinds[i] == kinds[i + 1] == "affine" for i in range(k - 1)) else "other"),
                    "evaluating compose() of a chain mixing CoordinateMap and AffineTransform objects differs from applying the maps one after the other",
                    dict(meta, x=x.tolist(), got=got.tolist(), expected=want.tolist()))
        invertible = square
        if invertible:
            ri = r.inverse()
            if ri is None:
                ck.fail("compose-mixed/inverse-missing", "every part has an inverse but the composition has none", meta)
            elif not np.allclose(np.asarray(ri(r(x)), dtype=float), x, atol=1e-9) or not np.allclose(np.asarray(r(ri(want)), dtype=float), want, atol=1e-9):
                ck.fail("compose-mixed/inverse-does-not-undo", "the inverse of a composition of invertible maps does not undo it", dict(meta, x=x.tolist()))
        # ---- shifted origins of one part (general map or affine)
        j = int(rng.integers(0, k)); obj, a = objs[j], affs[j]
        xin = rng.integers(-5, 6, dims[j]).astype(float)
        dd = rng.integers(-3, 4, dims[j]).astype(float); dr = rng.integers(-3, 4, dims[j + 1]).astype(float)
        for which, fn, d_, expect in (("domain", cmod.shifted_domain_origin, dd, lambda: a(xin + dd)), ("range", cmod.shifted_range_origin, dr, lambda: a(xin) - dr)):
            try:
                sft = fn(obj, d_, "neworigin")
            except Exception as e:  # noqa
                ck.fail("shift-%s/raises/%s" % (which, kinds[j]), "shifted_%s_origin raised %s: %s" % (which, type(e).__name__, e), dict(meta, part=j))
                continue
            ck.count(("shift", which, kinds[j], case), nontrivial=True, bucket="shift:%s:%s" % (which, kinds[j]))
            if not np.array_equal(np.asarray(sft(xin), dtype=float), np.asarray(expect(), dtype=float)):
                ck.fail("shift-%s/value/%s" % (which, kinds[j]), "shifted_%s_origin does not evaluate to the shifted map" % which, dict(meta, part=j, x=xin.tolist(), shift=d_.tolist()))
            if dims[j] == dims[j + 1]:
                si = sft.inverse()
                if si is None:
                    ck.fail("shift-%s/inverse-missing/%s" % (which, kinds[j]), "the shifted map of an invertible map has no inverse", dict(meta, part=j))
                elif not np.allclose(np.asarray(si(sft(xin)), dtype=float), xin, atol=1e-9):
                    ck.fail("shift-%s/inverse-does-not-undo/%s" % (which, kinds[j]), "the inverse of a map with shifted origin does not undo it",
                            dict(meta, part=j, x=xin.tolist(), shift=d_.tolist(), got=np.asarray(si(sft(xin)), dtype=float).tolist()))
    ck.section("cmaps_more", cases=ncases)


def run(ck):
    ck.cov["rule"] = ("random programs (length 1..8) over 3..5 random integer AffineTransforms (dims 1..4/5, unimodular/rank-deficient, "
                      "int64 and float64 systems, colliding names), ~22% of steps deliberately ill-typed; a case = one program step; "
                      "non-trivial = step whose result is Ok and not the identity shortcut; distinct by (op, operand matrices)")
    ck.coq_build()
    ck.overlay()
    from nipy.core.api import AffineTransform
    rng = ck.rng("programs")
    nprog = ck.n(150, 1500)
    maxdim = ck.n(4, 5)
    terms, metas = [], []
    pterms, pmetas = [], []
    for p in range(nprog):
        env = [rand_aff(rng, maxdim) for _ in range(int(rng.integers(3, 6)))]
        env += chained_and_near_miss(rng, env)
        env0 = list(env)
        ops, expected, descr = [], [], []
        for _ in range(int(rng.integers(1, 9))):
            g = gen_op(rng, env, maxdim)
            if g is None:
                continue
            if g[0] == "FAIL":
                ck.fail(g[1], "inverse round trip failed on the implementation", {"program": descr, "detail": g[2] if len(g) > 2 else None})
                continue
            cop, f, oracle, kind = g
            try:
                r = f()
                e = None
            except Exception as ex:  # noqa
                r, e = None, ex
            if e is not None:
                k = errkind(e)
                if k is None:
                    ck.fail("%s/unexpected-exception" % kind, "%s raised %s: %s" % (kind, type(e).__name__, e),
                            {"op": cop, "env": [caff(a) for a in env]})
                    continue
                expected.append("Err %s" % k)
                ck.count((cop, "err"), nontrivial=False, bucket="refused:" + kind)
            else:
                if r is None or not isinstance(r, AffineTransform) or not is_int_matrix(r.affine):
                    continue
                msg = oracle(r)
                if msg:
                    ck.fail(msg, "property oracle failed on the implementation for step %s" % cop,
                            {"op": cop, "env": [caff(a) for a in env], "result": caff(r)})
                expected.append("Ok %s" % caff(r))
                env.append(r)
                ck.count((cop, r.affine.tobytes()), nontrivial=True, bucket="ok:" + kind)
                # point evaluations model vs impl
                for _k in range(2 if r.ndims[0] > 0 else 0):
                    x = rng.integers(-6, 7, r.ndims[0])
                    y = r(x)
                    pterms.append("apply_agrees %s %s %s" % (caff(r), czl(x), czl([int(v) for v in y])))
                    pmetas.append((cop,))
            ops.append(cop)
            descr.append(cop)
        if not ops:
            continue
        t = "run_agrees %s %s %s" % (clist([caff(a) for a in env0]), clist(["(%s)" % o for o in ops]),
                                     clist(["(%s)" % x for x in expected]))
        terms.append(t)
        metas.append({"env": [caff(a) for a in env0], "ops": ops, "expected": expected})
        if p < 2:
            ck.sample({"ops": ops, "expected": [x[:120] for x in expected]})
    if ck.build.ok:
        res = ck.coq_bools(HDR, terms, shard=60)
        ck.cov["traces_validated_against_impl"] += len(res)
        for ok, m in zip(res, metas):
            if not ok:
                mv = ck.coq_show(HDR, "(run_diff %s %s %s, run %s %s)" % (clist(m["env"]), clist(["(%s)" % o for o in m["ops"]]), clist(["(%s)" % x for x in m["expected"]]), clist(m["env"]), clist(["(%s)" % o for o in m["ops"]])))
                ck.fail("model-vs-impl/program", "model and implementation disagree on a program of coordinate-map operations",
                        {"program": m, "model_result": mv})
                break
        res = ck.coq_bools(HDR, pterms, shard=400)
        for ok, m in zip(res, pmetas):
            if not ok:
                ck.fail("model-vs-impl/apply", "model and implementation disagree on a point evaluation", {"op": m[0]})
                break
    ck.section("programs", programs=len(terms), point_evaluations=len(pterms),
               exactly_singular_maps_for_which_inverse_returned_a_map=len(ck_note_singular))
    if ck_note_singular:
        ck.note("inverse() returned a map for %d exactly singular integer matrices (numpy.linalg.inv did not raise); "
                "no inverse exists there, so the round-trip clause does not apply: e.g. %s" % (len(ck_note_singular), ck_note_singular[0][:300]))
    cmaps(ck)
    cmap_near_miss_refusals(ck)
    cmaps_more(ck)
    axes(ck)
    batches(ck)
    symbolic(ck)
    ck.trust.append("oracles: numpy.linalg.inv (candidate inverse is an input of the model, which re-checks shape/bottom row); "
                    "nibabel.io_orientation (its first column is an input of the model's io_axis_indices / drop_by_id; in random programs the (in,out) pair io_axis_indices returns is an input of the model's drop_io_dim)")
