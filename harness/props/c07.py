"""C07 - design-matrix regressors are linear, causal and shift-consistent.

Sections
  hr            _sample_condition vs Model.sample_condition / hr_grid  (exact, rationals)
  regressor     compute_regressor vs Model.compute_regressor with the kernels of _hrf_kernel threaded in
                (FIR: exact; gamma kernels: 1e-10), FIR kernels vs Model.fir_kernel (exact)
  oracles       superposition / amplitude linearity / causality / shift by whole scans evaluated
                directly on compute_regressor for every hrf model, on commensurate and incommensurate grids
  dmtx          make_dmtx column assembly + names (names vs Model.dmtx_names), drifts, kernels, CSV round trip
  paradigm      experimental_paradigm CSV loader round trip
  poly          _poly_drift vs PolyModel.poly_drift (all columns 1e-9; shape and constant column exact)
"""
import itertools
import os
import tempfile
import time
import warnings
from fractions import Fraction

import numpy as np

from ..kit import cnat, cq, cql, cstr, cbool, clist, frac

HDR = ("From Coq Require Import String.\nFrom Coq Require Import List ZArith QArith.\n"
       "From NV.C07 Require Import Model.\nOpen Scope Q_scope.\n"
       "Fixpoint rle (l : list (Q * nat)) : list Q := match l with nil => nil | cons (v, k) r => (repeat v k ++ rle r)%list end.\n")

MODELS = ["canonical", "canonical with derivative", "spm", "spm_time", "spm_time_dispersion", "fir"]
COQ_MODEL = {"canonical": "Canonical", "canonical with derivative": "CanonicalDeriv", "spm": "Spm",
             "spm_time": "SpmTime", "spm_time_dispersion": "SpmTimeDisp", "fir": "Fir"}
NCOL = {"canonical": 1, "canonical with derivative": 2, "spm": 1, "spm_time": 2, "spm_time_dispersion": 3}


# ------------------------------------------------------------------ helpers
def is_dyadic(fr, bits=40):
    d = fr.denominator
    return d & (d - 1) == 0 and abs(fr.numerator).bit_length() <= bits


def grid_facts(TR, n, f0, mo, osamp):
    """Exact facts about the oversampled grid of _sample_condition for frametimes f0 + TR*arange(n)
    (rational arithmetic on the inputs; used to CLASSIFY cases, never to decide pass/fail)."""
    TR, f0, mo = frac(TR), frac(f0), frac(mo)
    fmin, fmax = f0, f0 + (n - 1) * TR
    stop = fmax * (1 + Fraction(1, n - 1))
    x = Fraction(n - 1) / (fmax - fmin) * (stop - fmin - mo) * osamp + 1
    N = int(x)
    step = (stop - fmin - mo) / (N - 1) if N > 1 else Fraction(0)
    dt = TR / osamp
    commensurate = (step == dt) and ((-mo) / dt).denominator == 1 and mo <= 0
    exact = is_dyadic(step) and is_dyadic(stop) and is_dyadic(Fraction(1, n - 1)) and is_dyadic(fmin + mo)
    return {"N": N, "step": step, "dt": dt, "commensurate": commensurate, "exact_floats": exact,
            "start": fmin + mo, "stop": stop}


def cevents(on, du, va):
    return clist(["(%s, %s, %s)" % (cq(float(o)), cq(float(d)), cq(float(v))) for o, d, v in zip(on, du, va)])


def rle_term(xs):
    out = []
    for v in xs:
        v = float(v)
        if out and out[-1][0] == v:
            out[-1][1] += 1
        else:
            out.append([v, 1])
    body = clist(["(%s, %s)" % (cq(v), cnat(k)) for v, k in out])
    return "(rle %s)" % body


def bins_of(hr, on, du):
    tmax = len(hr)
    a = np.minimum(np.searchsorted(hr, on), tmax - 1)
    b = np.minimum(np.searchsorted(hr, on + du), tmax - 1)
    b = np.where((b < tmax - 1) & (b == a), b + 1, b)
    return a, b


def coincident(hr, on, du):
    """two events share an onset bin or an offset bin of the oversampled grid"""
    a, b = bins_of(hr, on, du)
    return len(set(a.tolist())) < len(a) or len(set(b.tolist())) < len(b)


class ImplRaised(Exception):
    pass


def guarded(ck, where, replay, fn, *args, **kw):
    """Run an implementation call; an exception becomes a structured failure with the concrete input."""
    try:
        with warnings.catch_warnings():
            warnings.simplefilter("ignore")
            return fn(*args, **kw)
    except Exception as e:  # noqa
        ck.fail("raises/%s" % where, "%s raised %s: %s" % (where, type(e).__name__, e), replay)
        raise ImplRaised(where)


def gen_events(rng, ft, TR, mo, kind, quantum):
    """Paradigms stressing the index arithmetic.  All values are multiples of `quantum` (dyadic)."""
    fmin, fmax = ft[0], ft[-1]
    lo, hi = fmin + mo, fmax + TR
    q = quantum

    def snap(x):
        return np.round(np.asarray(x, dtype=float) / q) * q
    m = int(rng.integers(1, 6))
    on = snap(rng.uniform(max(lo, fmin - 3 * TR), fmax, m))
    du = snap(rng.choice([0.0, 0.0, q, TR / 2, TR, 2.5 * TR, 5 * TR], m))
    if kind == "coincident":
        j = int(rng.integers(0, m))
        on = np.append(on, on[j]); du = np.append(du, du[j] if rng.random() < .5 else snap(rng.choice([0.0, TR, 3 * TR])))
        if rng.random() < .5:           # a third one in the same oversampled bin but a different time
            on = np.append(on, on[j] + (q if q < TR / 16 else 0.0)); du = np.append(du, 0.0)
    elif kind == "prescan":
        on = np.append(on, snap([lo - TR, lo, lo + q, fmin - q, fmin])); du = np.append(du, snap([TR, 0, 2 * TR, 0, q]))
    elif kind == "pastend":
        on = np.append(on, snap([fmax, fmax + TR - q, hi, hi + 3 * TR, fmax - TR])); du = np.append(du, snap([0, 0, TR, 0, 8 * TR]))
    elif kind == "zerodur":
        du = np.zeros_like(on)
        on = np.append(on, snap([fmin, fmin + TR])); du = np.append(du, [0.0, 0.0])
    elif kind == "ongrid":
        on = snap(fmin + TR * rng.integers(0, max(1, len(ft) - 1), m) + (TR / 16) * rng.integers(0, 16, m))
    elif kind == "late":            # everything inside the last two scans (and the bin after the last scan)
        on = snap(rng.uniform(fmax - 2 * TR, fmax + TR / 2, m)); on[0] = fmax
        du = snap(rng.choice([0.0, 0.0, q, TR / 2, TR], m))
    elif kind == "early":           # everything inside the first two scans
        on = snap(rng.uniform(fmin, fmin + 2 * TR, m)); on[0] = fmin
        du = snap(rng.choice([0.0, 0.0, q, TR / 2, TR], m))
    elif kind == "ends":            # both ends of the run
        on = snap(np.concatenate((rng.uniform(fmin, fmin + TR, m), rng.uniform(fmax - TR, fmax + TR / 2, m))))
        du = snap(rng.choice([0.0, 0.0, TR / 2], 2 * m))
    va = rng.integers(-3, 6, len(on)).astype(float)      # amplitude 0 is a legal value (mean-centred modulators)
    if kind == "zeroamp":           # every event of the condition has amplitude exactly 0
        va[:] = 0.0
    p = rng.permutation(len(on))
    return on[p], du[p], va[p]


KINDS = ["plain", "coincident", "prescan", "pastend", "zerodur", "ongrid", "late", "early", "ends", "zeroamp"]


def exact_grids(ck):
    """(TR, n, f0, min_onset, oversampling) on which every float operation of _sample_condition is exact."""
    out = []
    ns = [3, 5, 9] if not ck.thorough() else [2, 3, 5, 9, 17, 33]
    f0s = (0.0, 1.0) if not ck.thorough() else (0.0, 1.0, 4.0)
    mos = (-24.0, -8.0, 0.0, -7.0, -1.5) if not ck.thorough() else (-24.0, -8.0, 0.0, -3.0, -7.0, -1.5, -3.5)
    for TR in (1.0, 2.0, 0.5):
        for n in ns:
            for mo in mos:
                for osamp in (1, 2, 4, 16):
                    for f0 in [TR * f for f in f0s]:
                        g = grid_facts(TR, n, f0, mo, osamp)
                        if g["exact_floats"] and 2 <= g["N"] <= 700:
                            out.append((TR, n, f0, mo, osamp, g))
    return out


# ------------------------------------------------------------------ section: hr regressor (exact)
def sec_hr(ck, hm):
    rng = ck.rng("hr")
    grids = exact_grids(ck)
    per = ck.n(1, 6)
    terms, meta = [], []
    nco = ninc = 0
    for (TR, n, f0, mo, osamp, g) in grids:
        ft = f0 + TR * np.arange(n)
        for rep in range(per):
            kind = KINDS[(rep + len(terms)) % len(KINDS)]
            on, du, va = gen_events(rng, ft, TR, mo, kind, TR / 64)
            inp = {"frametimes": ft.tolist(), "oversampling": osamp, "min_onset": mo, "onsets": on.tolist(),
                   "durations": du.tolist(), "amplitudes": va.tolist()}
            try:
                reg, hr = guarded(ck, "_sample_condition", inp, hm._sample_condition, (on, du, va), ft, osamp, mo)
            except ImplRaised:
                continue
            coinc = coincident(hr, on, du)
            ck.count(("hr", TR, n, f0, mo, osamp, on.tolist(), du.tolist(), va.tolist()), nontrivial=bool(np.any(reg != 0)),
                     bucket="hr:%s%s" % (kind, ":coincident-bin" if coinc else ""))
            nco += g["commensurate"]; ninc += (not g["commensurate"])
            gt = "(hr_grid %s %s %s)" % (cql(ft.tolist()), cnat(osamp), cq(mo))
            t = "andb (qlist_eqb %s %s) (qlist_eqb (sample_condition %s %s) %s)" % (
                gt, cql(hr.tolist()), gt, cevents(on, du, va), rle_term(reg))
            if g["commensurate"] and rep == 0:
                # the hypothesis of the shift/causality theorems: the code's grid IS the uniform grid start + i*TR/oversampling
                t = "andb (%s) (qlist_eqb %s (ugrid %s %s %s))" % (t, gt, cq(g["start"]), cq(g["dt"]), cnat(g["N"]))
            terms.append(t)
            meta.append({"frametimes": ft.tolist(), "oversampling": osamp, "min_onset": mo, "onsets": on.tolist(),
                         "durations": du.tolist(), "amplitudes": va.tolist(), "impl_regressor_nonzero_runs": rle_term(reg)[:400],
                         "n_hr": len(hr), "coincident_bin": coinc})
            # direct oracle on the implementation: hr regressor of the set == sum of single-event regressors
            tot = np.zeros_like(reg)
            with warnings.catch_warnings():
                warnings.simplefilter("ignore")
                for i in range(len(on)):
                    tot += hm._sample_condition((on[i:i + 1], du[i:i + 1], va[i:i + 1]), ft, osamp, mo)[0]
            if not np.array_equal(tot, reg):
                sig = "superposition/coincident-events" if coinc else "superposition/hr-distinct-bins"
                ck.fail(sig, "_sample_condition of %d events differs from the sum of the single-event regressors "
                        "(max abs diff %g; events in one oversampled bin: %s)" % (len(on), np.max(np.abs(tot - reg)), coinc), meta[-1])
            if len(ck.cov["samples"]) < 2 and coinc:
                ck.sample({"section": "hr", "frametimes": ft.tolist(), "oversampling": osamp, "onsets": on.tolist(),
                           "durations": du.tolist(), "amplitudes": va.tolist(), "n_hr": len(hr)})
    if ck.build.ok:
        res = ck.coq_bools(HDR, terms, shard=40, name="hr")
        ck.cov["traces_validated_against_impl"] += len(res)
        for ok, m in zip(res, meta):
            if not ok:
                ck.fail("model-vs-impl/sample_condition", "Model.sample_condition/hr_grid and _sample_condition disagree "
                        "(exact comparison of hr_frametimes and the high-resolution regressor)", m)
                break
    ck.section("hr", grids=len(grids), cases=len(terms), commensurate=nco, incommensurate=ninc)


def replay_two_event(ck, hm):
    """The historical defect (fixed in 6264c0b): two events in one bin.  Smallest replay first."""
    ft = np.arange(5.0)
    for model in ("fir", "canonical"):
        one, _ = hm.compute_regressor(([4.0], [1.0], [1.0]), model, ft, oversampling=16, fir_delays=[0])
        two, _ = hm.compute_regressor(([4.0, 4.0], [1.0, 1.0], [1.0, 1.0]), model, ft, oversampling=16, fir_delays=[0])
        ck.count(("two-event", model), bucket="oracle:two-event")
        if not np.allclose(two, 2 * one, rtol=0, atol=1e-12):
            ck.fail("superposition/coincident-events",
                    "compute_regressor(onsets {4.0, 4.0}, %s) = %s but 2 x compute_regressor(onset {4.0}) = %s" % (
                        model, two[:, 0].tolist(), (2 * one[:, 0]).tolist()),
                    {"frametimes": ft.tolist(), "hrf_model": model, "onsets": [4.0, 4.0], "durations": [1.0, 1.0],
                     "amplitudes": [1.0, 1.0], "oversampling": 16, "got": two[:, 0].tolist(), "expected": (2 * one[:, 0]).tolist()})


# ------------------------------------------------------------------ section: compute_regressor vs model
def sec_regressor(ck, hm):
    rng = ck.rng("reg")
    terms, meta, tols = [], [], []
    # FIR kernels vs Model.fir_kernel (exact)
    kt, km = [], []
    for osamp in (1, 2, 4, 16):
        delays = [3, 0, 5, 1, 1, 2] if osamp != 2 else [0, 1, 2, 3, 5]     # listing order and repeats are the caller's
        ks = hm._hrf_kernel("fir", 2.0, osamp, delays)
        if len(ks) != len(delays):
            ck.fail("kernel/fir-count", "_hrf_kernel('fir', fir_delays=%s) returns %d kernels for %d listed delays" % (delays, len(ks), len(delays)),
                    {"fir_delays": delays, "oversampling": osamp, "n_kernels": len(ks)})
        for d, k in zip(delays, ks):
            kt.append("qlist_eqb (fir_kernel %s %s) %s" % (cnat(d), cnat(osamp), cql(np.asarray(k, float).tolist())))
            km.append({"delay": d, "fir_delays": delays, "oversampling": osamp, "impl_kernel": np.asarray(k).tolist()})
            ck.count(("firk", d, osamp), bucket="kernel:fir")
    cases = []
    small = [(1.0, 5, -8.0), (2.0, 5, -8.0), (0.5, 9, -3.0), (1.0, 9, -24.0), (2.0, 3, -7.0), (1.0, 3, -1.5)]
    reps = ck.n(1, 3)
    for (TR, n, mo) in small:
        for model in MODELS:
            oss = (1, 4) if model == "fir" else ((4,) if not ck.thorough() else (2, 16))
            for osamp in oss:
                g = grid_facts(TR, n, 0.0, mo, osamp)
                if not g["exact_floats"] or g["N"] < 2:
                    continue
                for rep in range(reps):
                    cases.append((TR, n, mo, model, osamp, KINDS[(rep + n + osamp + len(model)) % len(KINDS)], g))
    for (TR, n, mo, model, osamp, kind, g) in cases:
        ft = TR * np.arange(n)
        on, du, va = gen_events(rng, ft, TR, mo, kind, TR / 64)
        delays = [[0, 1, 3], [3, 0, 1], [1, 3, 0, 1], [3, 1, 0]][len(terms) % 4] if model == "fir" else None
        tr = float(ft.max()) / (n - 1)
        inp = {"frametimes": ft.tolist(), "hrf_model": model, "oversampling": osamp, "min_onset": mo, "fir_delays": delays,
               "onsets": on.tolist(), "durations": du.tolist(), "amplitudes": va.tolist()}
        try:
            creg, names = guarded(ck, "compute_regressor", inp, hm.compute_regressor, (on, du, va), model, ft, "c", osamp, delays, mo)
            hs = guarded(ck, "_hrf_kernel", inp, hm._hrf_kernel, model, tr, osamp, delays)
        except ImplRaised:
            continue
        creg = np.asarray(creg, float)
        if creg.ndim == 1:
            creg = creg[:, None]
        if not np.all(np.isfinite(creg)):
            ck.fail("regressor/not-finite", "compute_regressor(%s) returns nan/inf" % model, inp)
            continue
        ck.count(("reg", TR, n, mo, model, osamp, on.tolist(), du.tolist(), va.tolist()), nontrivial=bool(np.any(creg != 0)),
                 bucket="reg:%s:%s" % (model, "commensurate" if g["commensurate"] else "incommensurate"))
        fir = model == "fir"
        exact = fir and g["commensurate"]        # off-grid resampling divides by a step that is not a power of two
        eps = "0" if exact else "(1 # 10000000000)"
        cols = clist([cql(creg[:, j].tolist()) for j in range(creg.shape[1])])
        # FIR: the kernels are the model's own, one per LISTED delay in listing order; gamma kernels are threaded in
        hsT = ("(fir_kernels %s %s)" % (clist([cnat(d) for d in delays]), cnat(osamp)) if model == "fir"
               else clist([cql(np.asarray(h, float).tolist()) for h in hs]))
        t = ("list_eqb (qlist_close %s) (compute_regressor %s %s %s %s %s %s) %s" % (
            eps, cql(ft.tolist()), cnat(osamp), cq(mo), hsT, cbool(fir), cevents(on, du, va), cols))
        terms.append(t)
        meta.append({"frametimes": ft.tolist(), "hrf_model": model, "oversampling": osamp, "min_onset": mo, "fir_delays": delays,
                     "onsets": on.tolist(), "durations": du.tolist(), "amplitudes": va.tolist(), "impl_columns": creg.T.tolist(),
                     "tolerance": "exact" if exact else "1e-10"})
        exp_names = {"fir": ["c_delay_%d" % d for d in (delays or [])]}.get(model)
        if len(names) != creg.shape[1] or (exp_names is not None and list(names) != exp_names):
            ck.fail("names/compute_regressor", "compute_regressor returned %d columns but names %s" % (creg.shape[1], names), meta[-1])
    if ck.build.ok:
        r1 = ck.coq_bools(HDR, kt, shard=20, name="firk")
        for ok, m in zip(r1, km):
            if not ok:
                ck.fail("model-vs-impl/fir_kernel", "_hrf_kernel('fir') differs from zeros(delay*oversampling) ++ ones(oversampling)", m)
                break
        res = ck.coq_bools(HDR, terms, shard=4, name="reg")
        ck.cov["traces_validated_against_impl"] += len(res) + len(r1)
        for ok, m in zip(res, meta):
            if not ok:
                ck.fail("model-vs-impl/compute_regressor", "Model.compute_regressor (kernels of _hrf_kernel threaded in) and "
                        "compute_regressor disagree for hrf_model=%s (%s)" % (m["hrf_model"], m["tolerance"]), m)
                break
    ck.section("regressor", cases=len(terms), fir_kernels=len(kt))


# ------------------------------------------------------------------ section: _convolve_regressors vs Model.convolve_regressors
def sec_convolve(ck, hm, dm, ep):
    """Paradigm objects through design_matrix._convolve_regressors (the path make_dmtx uses: oversampling 1 for FIR, 16 otherwise;
    called directly because make_dmtx's _full_rank perturbs rank-deficient designs) against Model.convolve_regressors:
    events listed in arbitrary order with unequal amplitudes, several conditions, events near both ends of the run,
    FIR delays small / just past the pre-scan window / about the run length / beyond it, min_onset 0 .. -24."""
    rng = ck.rng("convolve")
    terms, meta = [], []
    combos = []
    for TR in (1.0, 2.0, 0.5):
        for n in ((5, 9) if not ck.thorough() else (3, 5, 9, 17)):
            for mo in (0.0, -TR, -4 * TR, -24.0):
                combos.append((TR, n, mo))
    reps = ck.n(2, 6)
    for (TR, n, mo) in combos:
        ft = TR * np.arange(n)
        g = grid_facts(TR, n, 0.0, mo, 1)
        if not (g["exact_floats"] and g["commensurate"]):
            continue
        for rep in range(reps):
            nc = int(rng.integers(1, 4))
            ids = ["c%d" % i for i in range(nc)]
            kinds = [KINDS[int(k)] for k in rng.integers(0, len(KINDS), nc)]
            if len(terms) % 4 == 1:
                kinds[-1] = "zeroamp"               # a condition whose amplitudes are all 0 keeps its (zero) columns
            con, on, du, va = [], [], [], []
            for cid, kind in zip(ids, kinds):
                o, d, v = gen_events(rng, ft, TR, mo, kind, TR / 4)
                con += [cid] * len(o); on += o.tolist(); du += d.tolist(); va += v.tolist()
            pm = rng.permutation(len(on))           # listing order: arbitrary, conditions interleaved
            con = np.array(con)[pm]; on = np.array(on)[pm]; du = np.array(du)[pm]; va = np.array(va)[pm]
            block = rep % 2 == 1
            noamp = rep % 3 == 2
            if not block:
                du = np.zeros_like(du)
            if noamp:
                va = np.ones_like(va)
            par = (ep.BlockParadigm(con, on, du, None if noamp else va) if block else ep.EventRelatedParadigm(con, on, None if noamp else va))
            # the last repetition on small grids goes through the oversampling-16 (gamma kernel) path
            fir = not (rep == reps - 1 and mo >= (-4 * TR if ck.thorough() else -TR) and n <= (9 if ck.thorough() else 5))
            model = "fir" if fir else ["canonical", "spm_time"][(n + int(-mo / TR)) % 2]
            delays = fir_delay_set(n, TR, mo, rng) if fir else [0]
            inp = {"frametimes": ft.tolist(), "hrf_model": model, "fir_delays": delays, "min_onset": mo, "paradigm_type": "block" if block else "event",
                   "con_id": con.tolist(), "onsets": on.tolist(), "durations": du.tolist(), "amplitudes": None if noamp else va.tolist()}
            try:
                X, names = guarded(ck, "_convolve_regressors", inp, dm._convolve_regressors, par, model, ft, delays, mo)
            except ImplRaised:
                continue
            nbasis = len(delays) if fir else NCOL[model]
            ncols = 0 if X is None else int(np.asarray(X).reshape(n, -1).shape[1])
            ck.count(("conv-count", len(terms)), bucket="convolve:column-count")
            if ncols != nbasis * nc or len(names) != nbasis * nc:
                zero = [c for c in ids if np.all(va[con == c] == 0)]
                ck.fail("convolve/column-count/%s" % ("zero-amplitude-condition" if zero and not noamp else "other"),
                        "_convolve_regressors returns %d columns (names %s) for %d conditions x %d basis functions%s" % (
                            ncols, [str(x) for x in names], nc, nbasis, "; every event of condition(s) %s has amplitude 0" % zero if zero else ""), inp)
                continue
            X = np.asarray(X, float).reshape(n, -1)
            if not np.all(np.isfinite(X)):
                zero = [c for c in ids if np.all(va[con == c] == 0)]
                ck.fail("convolve/not-finite/%s" % ("zero-regressor" if zero or np.any(np.all(np.nan_to_num(X) == 0, axis=0)) else "other"),
                        "_convolve_regressors(%s) returns nan/inf in columns %s" % (model, np.where(~np.all(np.isfinite(X), axis=0))[0].tolist()), inp)
                continue
            if fir:
                # column j of a condition's block is the regressor of the delay LISTED j-th and is named after that delay
                want_names = ["%s_delay_%d" % (c, d) for c in sorted(ids) for d in delays]
                if [str(x) for x in names] != want_names:
                    ck.fail("convolve/fir-names-follow-listed-delays", "_convolve_regressors(fir_delays=%s) names its columns %s, expected %s" % (
                        delays, [str(x) for x in names], want_names), inp)
                bad = None
                for ci, c in enumerate(sorted(ids)):
                    selc = con == c
                    for j, d in enumerate(delays):
                        with warnings.catch_warnings():
                            warnings.simplefilter("ignore")
                            one, _ = hm.compute_regressor((on[selc], du[selc], va[selc]), "fir", ft, c, 1, [d], mo)
                        if np.max(np.abs(np.asarray(one, float).reshape(n) - X[:, ci * len(delays) + j])) > 1e-12:
                            bad = (c, j, d)
                            break
                    if bad:
                        break
                if bad:
                    asc = delays == sorted(set(delays))
                    ck.fail("convolve/fir-column-vs-listed-delay/%s" % ("ascending-delays" if asc else ("repeated-delay" if len(set(delays)) < len(delays) else "unsorted-delays")),
                            "_convolve_regressors(fir_delays=%s): column %d of condition %r (named %s_delay_%d) is not the FIR regressor of delay %d" % (
                                delays, bad[1], bad[0], bad[0], bad[2], bad[2]), inp)
            ck.count(("conv", TR, n, mo, model, tuple(delays), con.tolist(), on.tolist(), du.tolist(), va.tolist()),
                     nontrivial=bool(np.any(X != 0)),
                     bucket="convolve:%s:%s:min_onset%s" % (model, "block" if block else "event", "0" if mo == 0 else ("-24" if mo == -24 else "short")))
            osamp = 1 if fir else 16
            if fir:
                hsT = "(fir_kernels %s %s)" % (clist([cnat(d) for d in delays]), cnat(1))
                eps = "0"
            else:
                tr = float(ft.max()) / (n - 1)
                hsT = clist([cql(np.asarray(h, float).tolist()) for h in hm._hrf_kernel(model, tr, 16)])
                eps = "(1 # 10000000000)"
            parT = clist(["(%s, (%s, %s, %s))" % (cstr(c), cq(float(o)), cq(float(d)), cq(float(v))) for c, o, d, v in zip(con, on, du, va)])
            cols = clist([cql(X[:, j].tolist()) for j in range(X.shape[1])])
            terms.append("list_eqb (qlist_close %s) (convolve_regressors %s %s %s %s %s %s %s) %s" % (
                eps, cql(ft.tolist()), cnat(osamp), cq(mo), hsT, cbool(fir), clist([cstr(c) for c in sorted(set(con.tolist()))]), parT, cols))
            meta.append(dict(inp, impl_columns=X.T.tolist(), names=[str(x) for x in names], tolerance="exact" if fir else "1e-10"))
            if fir and len(ck.cov["samples"]) < 5 and rep == 0 and n == 5:
                ck.sample(dict(section="convolve", **{k: inp[k] for k in ("frametimes", "fir_delays", "min_onset", "con_id", "onsets", "amplitudes")}))
    if ck.build.ok:
        res = ck.coq_bools(HDR, terms, shard=12, name="conv")
        ck.cov["traces_validated_against_impl"] += len(res)
        for ok, m in zip(res, meta):
            if not ok:
                ck.fail("model-vs-impl/convolve_regressors/%s" % ("fir" if m["hrf_model"] == "fir" else "gamma"),
                        "Model.convolve_regressors and design_matrix._convolve_regressors disagree (%s, hrf_model=%s, %d events of %d conditions "
                        "in listing order %s)" % (m["tolerance"], m["hrf_model"], len(m["onsets"]), len(set(m["con_id"])), m["con_id"]), m)
                break
    ck.section("convolve", cases=len(terms))


# ------------------------------------------------------------------ section: _full_rank
def sec_full_rank(ck, dm):
    """design_matrix._full_rank on full-rank and on singular matrices of all shapes: a full-rank matrix is returned unchanged with its
    condition number; a singular one is moved by lda * U.V only (lda = (s_max - cmax*s_min)/(cmax - 1) ~ 1e-15 s_max): same shape, every
    entry within ~1e-14 s_max, singular values s + lda, condition number cmax."""
    rng = ck.rng("fullrank")
    nfr = 0
    for i in range(ck.n(80, 400)):
        n = int(rng.integers(3, 30)); p = int(rng.integers(1, 9))
        A = rng.standard_normal((n, p)) * 10.0 ** rng.integers(-3, 4, (1, p))
        kind = ["full-rank", "duplicate-column", "zero-column", "ones-and-constant", "linear-combination", "wide", "scaled-copy",
                "fortran-order", "ill-conditioned-below-threshold"][i % 9]
        if kind == "duplicate-column" and p > 1:
            A[:, -1] = A[:, 0]
        elif kind == "zero-column":
            A[:, int(rng.integers(0, p))] = 0.0
        elif kind == "ones-and-constant" and p > 1:
            A[:, 0] = 1.0; A[:, -1] = 1.0
        elif kind == "linear-combination" and p > 2:
            A[:, -1] = 2 * A[:, 0] - 3 * A[:, 1]
        elif kind == "wide":
            A = rng.standard_normal((p, n + p))
        elif kind == "scaled-copy" and p > 1:
            A[:, -1] = -1e3 * A[:, 0]
        elif kind == "fortran-order":
            A = np.asfortranarray(A)
            if p > 1:
                A[:, -1] = A[:, 0]
        elif kind == "ill-conditioned-below-threshold" and p > 1:
            A[:, -1] = A[:, 0] + 1e-9 * rng.standard_normal(n)
        A0 = A.copy()
        s = np.linalg.svd(A, compute_uv=False)
        smax, smin = s.max(), s.min()
        singular = smin * 1e15 <= smax * (1 + 1e-3)
        near = (not singular) and smin * 1e15 <= smax * 1e3
        rep = {"kind": kind, "shape": list(A.shape), "matrix": A0.tolist() if A0.size <= 80 else "see generator case %d" % i,
               "singular_values": s.tolist(), "fortran_order": bool(A.flags.f_contiguous and not A.flags.c_contiguous)}
        try:
            R, c = guarded(ck, "_full_rank", rep, dm._full_rank, A)
        except ImplRaised:
            continue
        nfr += 1
        ck.count(("fullrank", i, kind, A.shape), bucket="full_rank:%s:%s" % (kind, "singular" if singular else "full-rank"))
        R = np.asarray(R)
        if not np.array_equal(A, A0):
            ck.fail("full_rank/mutates-input", "_full_rank changed its argument in place", rep)
        if R.shape != A0.shape:
            ck.fail("full_rank/shape", "_full_rank returns shape %s for an input of shape %s" % (R.shape, A0.shape), rep)
            continue
        if near:
            continue
        if not singular:
            if not np.array_equal(R, A0) or abs(c - smax / smin) > 1e-6 * smax / smin:
                ck.fail("full_rank/full-rank-changed", "_full_rank changed a full-rank matrix (cond %g) or reports condition number %g" % (smax / smin, c), rep)
            continue
        lda = (smax - 1e15 * smin) / (1e15 - 1)
        d = float(np.max(np.abs(R - A0)))
        if d > 4 * abs(lda) + 1e-13 * smax:
            ck.fail("full_rank/regularised-matrix-far-from-input", "_full_rank moved a singular %dx%d matrix (%s) by %g; the regularisation "
                    "U.diag(s + lda).V with lda = %g may move an entry by at most ~lda" % (A0.shape[0], A0.shape[1], kind, d, lda), dict(rep, returned=R.tolist() if R.size <= 80 else None))
        s2 = np.linalg.svd(R, compute_uv=False)
        if np.max(np.abs(np.sort(s2) - np.sort(s + lda))) > 1e-9 * smax + 4 * abs(lda):
            ck.fail("full_rank/regularised-singular-values", "singular values after regularisation are not s + lda", rep)
        if c != 1e15:
            ck.fail("full_rank/reported-condition", "_full_rank reports condition %r for a regularised matrix (documented: cmax)" % (c,), rep)
    ck.section("full_rank", cases=nfr)


# ------------------------------------------------------------------ section: repeated calls / object reuse
def _snap(x):
    if isinstance(x, (list, tuple)):
        return [_snap(v) for v in x]
    if isinstance(x, np.ndarray):
        return x.copy()
    return x


def _arrays(x):
    if isinstance(x, np.ndarray):
        return [x]
    if isinstance(x, (list, tuple)):
        return [a for v in x for a in _arrays(v)]
    return []


def _same(a, b):
    if isinstance(a, (list, tuple)):
        return isinstance(b, (list, tuple)) and len(a) == len(b) and all(_same(x, y) for x, y in zip(a, b))
    if isinstance(a, np.ndarray):
        return isinstance(b, np.ndarray) and a.shape == b.shape and np.array_equal(a, b, equal_nan=True)
    return a == b


def sec_state(ck, hm, dm, ep):
    """Multi-step sequences on the same arguments / objects: every function of the anchored modules must return the same value when it
    is called again after the caller modified the previously returned arrays in place (kernels normalised for a plot, regressors
    rescaled, ...), must not hand out memory it keeps (two results never share memory), and must leave its array arguments unchanged."""
    rng = ck.rng("state")
    ncall = 0
    ft = 2.0 * np.arange(12)
    on, du, va = np.array([3.0, 11.5, 4.0]), np.array([0.0, 2.0, 1.0]), np.array([1.0, -2.0, 0.5])
    calls = []
    for tr in (2.0, 1.0, 0.5, 2.5):
        for osamp in (16, 1, 8):
            for name in ("spm_hrf", "glover_hrf", "spm_time_derivative", "glover_time_derivative", "spm_dispersion_derivative"):
                calls.append((name + "(tr=%g, oversampling=%d)" % (tr, osamp), getattr(hm, name), (tr, osamp), {}))
            calls.append(("_gamma_difference_hrf(%g, %d)" % (tr, osamp), hm._gamma_difference_hrf, (tr, osamp), {}))
            for model in MODELS:
                calls.append(("_hrf_kernel(%r, %g, %d)" % (model, tr, osamp), hm._hrf_kernel, (model, tr, osamp, [0, 2]), {}))
    for model in MODELS:
        calls.append(("compute_regressor(%r)" % model, hm.compute_regressor, ((on, du, va), model, ft), {"fir_delays": [0, 1]}))
        calls.append(("_sample_condition", hm._sample_condition, ((on, du, va), ft), {}))
    for fts in (ft, 0.5 + ft):
        calls.append(("_cosine_drift", dm._cosine_drift, (9.0, fts), {}))
        calls.append(("_poly_drift", dm._poly_drift, (3, fts), {}))
        calls.append(("_blank_drift", dm._blank_drift, (fts,), {}))
        for dmodel in ("cosine", "polynomial", "blank"):
            calls.append(("_make_drift(%r)" % dmodel, dm._make_drift, (dmodel, fts, 2, 9.0), {}))
    par = ep.BlockParadigm(["a", "b", "a"], on, du, va)
    parE = ep.EventRelatedParadigm(["a", "b", "a"], on, va)
    add = rng.standard_normal((12, 2))
    for model in MODELS:
        for pr in (par, parE):
            calls.append(("_convolve_regressors(%r)" % model, dm._convolve_regressors, (pr, model, ft, [0, 1]), {}))
            calls.append(("dmtx_light(%r)" % model, dm.dmtx_light, (ft, pr, model, "cosine", 9.0, 1, [0, 1], add), {}))
    for label, fn, args, kw in calls:
        a0 = _snap(args)
        rep = {"call": label, "sequence": "r1 = f(args); r1 *= 3 (in place, every returned array); r2 = f(args)"}
        try:
            with warnings.catch_warnings():
                warnings.simplefilter("ignore")
                r1 = fn(*args, **kw)
                ref = _snap(r1)
                for a in _arrays(r1):
                    if a.dtype.kind == "f" and a.flags.writeable:
                        a *= 3.0
                        a += 1.0
                r2 = fn(*args, **kw)
                r3 = fn(*args, **kw)
        except Exception as e:  # noqa
            ck.fail("state/raises", "%s raised %s: %s in a repeated-call sequence" % (label, type(e).__name__, e), rep)
            continue
        ncall += 1
        fname = label.split("(")[0]
        ck.count(("state", label), bucket="state:%s" % fname)
        if not _same(_snap(r2), ref):
            ck.fail("state/result-depends-on-earlier-returned-array/%s" % fname,
                    "%s returns a different value after the caller modified the arrays returned by the previous identical call (shared / cached memory)" % label, rep)
        elif not _same(_snap(r3), ref):
            ck.fail("state/repeated-call-differs/%s" % fname, "%s returns different values on repeated identical calls" % label, rep)
        A2, A3 = _arrays(r2), _arrays(r3)
        if any(np.shares_memory(x, y) for x in A2 for y in A3) or any(np.shares_memory(x, y) for x in _arrays(r1) for y in A2):
            ck.fail("state/results-share-memory/%s" % fname, "two calls of %s return arrays that share memory" % label, rep)
        if not _same(_snap(args), a0):
            ck.fail("state/argument-modified/%s" % fname, "%s modified one of its array arguments" % label, rep)
    # the same Paradigm / frametimes objects reused for several designs: results must not depend on the history
    seq = []
    for k in range(3):
        for model in ("canonical with derivative", "fir", "spm_time_dispersion"):
            with warnings.catch_warnings():
                warnings.simplefilter("ignore")
                d = dm.make_dmtx(ft, par, model, "polynomial", drift_order=2, fir_delays=[0, 1], add_regs=add)
            seq.append((model, np.asarray(d.matrix).copy(), list(d.names)))
            np.asarray(d.matrix)[...] = 7.0          # the caller scribbles over the returned design
            ncall += 1
            ck.count(("state-dmtx", k, model), bucket="state:make_dmtx-object-reuse")
    for model, X, names in seq[3:]:
        X0, names0 = [(x, nm) for (m_, x, nm) in seq[:3] if m_ == model][0]
        if names != names0 or X.shape != X0.shape or not np.array_equal(X, X0):
            ck.fail("state/make_dmtx-object-reuse", "make_dmtx(%r) on the same frametimes / Paradigm / add_regs objects differs from its first result after "
                    "the previous designs were overwritten in place" % model, {"hrf_model": model, "sequence": "3 x (3 models); each returned matrix filled with 7.0"})
    if not np.array_equal(add, _snap(add)) or not np.array_equal(ft, 2.0 * np.arange(12)):
        ck.fail("state/argument-modified/make_dmtx", "make_dmtx modified frametimes or add_regs", {})
    ck.section("state", calls=ncall)


# ------------------------------------------------------------------ section: property oracles on compute_regressor
def col0(hm, ev, model, ft, osamp, delays, mo):
    with warnings.catch_warnings():
        warnings.simplefilter("ignore")
        c, _ = hm.compute_regressor(ev, model, ft, "c", osamp, delays, mo)
    c = np.asarray(c, float)
    if c.ndim == 1:
        c = c[:, None]
    return c if model == "fir" else c[:, :1]


def witness_incommensurate(ck, hm):
    """Smallest replays of the two grid findings (exact in floats: grid step 17/8 instead of TR/oversampling = 2),
    then the same with default parameters (TR = 2.5 s)."""
    for ft, mo, osamp, onset, row in ((2.0 * np.arange(5), -7.0, 1, 4.5, 2), (2.5 * np.arange(17), -24.0, 16, 5.05, 2)):
        c = col0(hm, ([onset], [0.0], [1.0]), "fir", ft, osamp, [0], mo)
        ck.count(("wit-caus", mo, osamp), bucket="oracle:witness")
        if abs(c[row, 0]) > 1e-12:
            ck.fail("causality/incommensurate-grid",
                    "FIR regressor (delay 0, oversampling %d, min_onset %g) of one event at t=%g is %r at scan %d (t=%g < onset)" % (
                        osamp, mo, onset, float(c[row, 0]), row, ft[row]),
                    {"frametimes": ft.tolist(), "hrf_model": "fir", "fir_delays": [0], "oversampling": osamp, "min_onset": mo,
                     "onsets": [onset], "durations": [0.0], "amplitudes": [1.0], "regressor": c[:, 0].tolist()})
        TR = ft[1] - ft[0]
        a = col0(hm, ([onset], [0.0], [1.0]), "fir", ft, osamp, [0], mo)
        b = col0(hm, ([onset + TR], [0.0], [1.0]), "fir", ft, osamp, [0], mo)
        ck.count(("wit-shift", mo, osamp), bucket="oracle:witness")
        if np.max(np.abs(b[1:] - a[:-1])) > 1e-10:
            ck.fail("shift/incommensurate-grid",
                    "FIR regressor of onset %g is %s, of onset %g (one scan later) it is %s: not the same delayed by one row" % (
                        onset, a[:, 0].tolist(), onset + TR, b[:, 0].tolist()),
                    {"frametimes": ft.tolist(), "hrf_model": "fir", "fir_delays": [0], "oversampling": osamp, "min_onset": mo,
                     "onsets": [onset], "k": 1, "regressor": a[:, 0].tolist(), "regressor_delayed_onsets": b[:, 0].tolist()})


def fir_delay_set(n, TR, mo, rng=None):
    """FIR delays: small ones, one just past the pre-scan window (-min_onset/TR scans), one near the run length, one past
    the run plus the pre-scan window (an all-zero column)."""
    pre = int(np.ceil(max(-mo, 0.0) / TR))
    ds = sorted(set([0, 1, 3, min(pre + 2, n + pre + 1), max(n - 1, 0), n + pre + 1]))
    if rng is None:
        return ds
    # the delays are a LIST argument: listed ascending, descending, in arbitrary order, or with a delay listed twice
    mode = int(rng.integers(0, 4))
    if mode == 1:
        ds = ds[::-1]
    elif mode == 2:
        ds = [ds[i] for i in rng.permutation(len(ds))]
    elif mode == 3:
        ds = [ds[i] for i in rng.permutation(len(ds))]
        ds.insert(int(rng.integers(0, len(ds) + 1)), ds[int(rng.integers(0, len(ds)))])
    return [int(d) for d in ds]


def sec_oracles(ck, hm):
    rng = ck.rng("oracle")
    for fn in (replay_two_event, witness_incommensurate):
        try:
            fn(ck, hm)
        except Exception as e:  # noqa
            ck.fail("raises/compute_regressor", "%s: compute_regressor raised %s: %s on a one- or two-event paradigm" % (fn.__name__, type(e).__name__, e),
                    {"frametimes": "arange(5.) / 2*arange(5.) / 2.5*arange(17.)", "hrf_model": "fir", "fir_delays": [0], "onsets": "see %s in harness/props/c07.py" % fn.__name__})
    grids = []
    for TR in (1.0, 2.0, 0.5):
        for n in ((9, 17) if not ck.thorough() else (5, 9, 17, 33, 40)):
            grids.append((TR, n, 0.0, -24.0))
    grids += [(2.0, 9, 0.0, -8.0), (1.0, 12, 0.0, -24.0), (3.0, 11, 0.0, -24.0)]
    # short or no pre-scan window (min_onset is a public parameter of make_dmtx / compute_regressor)
    grids += [(1.0, 9, 0.0, 0.0), (2.0, 9, 0.0, -2.0), (0.5, 17, 0.0, 0.0), (3.0, 12, 0.0, -3.0), (1.0, 6, 0.0, -1.0)]
    # grids on which the oversampled grid is not aligned with the scans (see known findings)
    grids += [(2.5, 17, 0.0, -24.0), (2.0, 9, 1.0, -24.0), (2.0, 5, 0.0, -7.0), (0.72, 15, 0.0, -24.0)]
    reps = ck.n(6, 24)
    stats = {"superposition": 0, "causality": 0, "shift": 0, "scale": 0}
    for (TR, n, f0, mo) in grids:
        ft = f0 + TR * np.arange(n)
        for model in MODELS:
            osamps = (1, 16) if model == "fir" else (16,)
            for osamp in osamps:
                g = grid_facts(TR, n, f0, mo, osamp)
                tag = "commensurate-grid" if g["commensurate"] else "incommensurate-grid"
                delays = fir_delay_set(n, TR, mo, rng) if model == "fir" else None
                for rep in range(reps):
                    kind = KINDS[(rep + n + len(model)) % len(KINDS)]
                    quantum = TR / 64 if g["exact_floats"] else TR / 50
                    on, du, va = gen_events(rng, ft, TR, mo, kind, quantum)
                    base = {"frametimes": ft.tolist(), "hrf_model": model, "oversampling": osamp, "min_onset": mo,
                            "fir_delays": delays, "onsets": on.tolist(), "durations": du.tolist(), "amplitudes": va.tolist(),
                            "grid": {k: str(v) for k, v in g.items()}}
                    try:
                        full = guarded(ck, "compute_regressor", base, col0, hm, (on, du, va), model, ft, osamp, delays, mo)
                    except ImplRaised:
                        continue
                    if model == "fir" and full.shape[1] != len(delays):
                        ck.fail("fir/column-count/%s" % ("repeated-delay" if len(set(delays)) < len(delays) else "distinct-delays"),
                                "compute_regressor('fir', fir_delays=%s) returns %d columns for %d listed delays" % (delays, full.shape[1], len(delays)), base)
                        continue
                    if not np.all(np.isfinite(full)):
                        ck.fail("regressor/not-finite", "compute_regressor(%s) returns nan/inf" % model, base)
                        continue
                    scale = max(1.0, float(np.max(np.abs(full))))
                    ck.count(("or", TR, n, f0, mo, model, osamp, on.tolist(), du.tolist(), va.tolist()),
                             nontrivial=bool(np.any(full != 0)), bucket="oracle:%s:%s" % (model, tag))
                    # --- superposition: sum of single-event regressors (unit amplitude, weighted)
                    tot = np.zeros_like(full)
                    for i in range(len(on)):
                        tot += va[i] * col0(hm, (on[i:i + 1], du[i:i + 1], np.ones(1)), model, ft, osamp, delays, mo)
                    stats["superposition"] += 1
                    if np.max(np.abs(tot - full)) > 1e-10 * scale:
                        with warnings.catch_warnings():
                            warnings.simplefilter("ignore")
                            hr = hm._sample_condition((on, du, va), ft, osamp, mo)[1]
                        coinc = coincident(hr, on, du)
                        ck.fail("superposition/coincident-events" if coinc else "superposition/distinct-bins",
                                "main regressor (%s) of %d events differs from the amplitude-weighted sum of the single-event "
                                "regressors by %g" % (model, len(on), np.max(np.abs(tot - full))),
                                dict(base, got=full[:, 0].tolist(), expected=tot[:, 0].tolist()))
                    # --- amplitude linearity
                    c3 = col0(hm, (on, du, -3 * va), model, ft, osamp, delays, mo)
                    stats["scale"] += 1
                    if np.max(np.abs(c3 + 3 * full)) > 1e-10 * scale * 3:
                        ck.fail("superposition/amplitude-scaling", "regressor of amplitudes -3a differs from -3 x regressor of a (%s)" % model, base)
                    # --- FIR: the column of delay d is the column of delay 0 moved down by d rows, zero-filled
                    #     (no event before the first scan, scans on the oversampled grid)
                    if model == "fir" and g["commensurate"] and (on >= ft[0]).all():
                        j0 = delays.index(0)
                        for j, dly in enumerate(delays):
                            exp = np.zeros(n)
                            if dly < n:
                                exp[dly:] = full[:n - dly, j0]
                            stats["fir_row_shift"] = stats.get("fir_row_shift", 0) + 1
                            if np.max(np.abs(full[:, j] - exp)) > 1e-12 * scale:
                                r = int(np.argmax(np.abs(full[:, j] - exp)))
                                ck.fail("fir/delay-is-row-shift/%s" % ("wraps-to-start" if r < dly else "other"),
                                        "FIR column of delay %d (oversampling %d, min_onset %g) is not the delay-0 column moved down by %d rows: "
                                        "row %d is %g, expected %g" % (dly, osamp, mo, dly, r, full[r, j], exp[r]),
                                        dict(base, delay=dly, column=full[:, j].tolist(), delay0_column=full[:, j0].tolist()))
                                break
                    # --- causality: zero at every scan before the first onset
                    first = float(np.min(on))
                    pre = ft < first
                    stats["causality"] += 1
                    if pre.any() and np.max(np.abs(full[pre])) > 1e-12 * scale:
                        r = int(np.argmax(np.max(np.abs(full), axis=1) * pre > 1e-12 * scale))
                        ck.fail("causality/%s" % tag,
                                "regressor (%s, oversampling %d) is %g at scan %d (t=%g) before the first onset %g" % (
                                    model, osamp, float(np.max(np.abs(full[r]))), r, ft[r], first),
                                dict(base, row=r, value=full[r].tolist()))
                    # --- shift by whole scans (only events that stay inside the scan so that no clipping is involved)
                    for k in (1, 3):
                        keep = (on + du + k * TR <= ft[-1]) & (on >= ft[0] + mo)
                        if k >= n or not keep.any():
                            continue
                        a = col0(hm, (on[keep], du[keep], va[keep]), model, ft, osamp, delays, mo)
                        b = col0(hm, (on[keep] + k * TR, du[keep], va[keep]), model, ft, osamp, delays, mo)
                        stats["shift"] += 1
                        d = max(float(np.max(np.abs(b[k:] - a[:-k]))), float(np.max(np.abs(b[:k]))) if (on[keep] >= ft[0]).all() else 0.0)
                        if d > 1e-10 * scale:
                            ck.fail("shift/%s" % tag,
                                    "delaying all onsets by %d scans does not delay the %s regressor by %d rows (max abs diff %g)" % (k, model, k, d),
                                    dict(base, k=k, onsets=on[keep].tolist(), durations=du[keep].tolist(), amplitudes=va[keep].tolist(),
                                         regressor=a[:, 0].tolist(), regressor_delayed_onsets=b[:, 0].tolist()))
    ck.section("oracles", grids=len(grids), **stats)


def starts_for(TR, n, thorough):
    """time origins: zero, fractions of TR, whole scans, negative, non-dyadic"""
    st = [0.0, TR / 2, 4 * TR, -3 * TR, 0.3, -1.7]
    if thorough:
        st += [TR / 3, 17.25, -0.1 * TR, 7 * TR + 0.01]
    return st


def poly_ref(n, order):
    """reference for _poly_drift: powers of index/(n-1), each orthogonalised against the previous (orthogonalised) columns, constant last"""
    u = np.arange(n) / (n - 1.0)
    V = u[:, None] ** np.arange(order + 1)[None, :]
    for i in range(1, order + 1):
        x = V[:, i].copy()
        for j in range(i):
            V[:, i] -= (x @ V[:, j]) / (V[:, j] @ V[:, j]) * V[:, j]
    return np.hstack((V[:, 1:], V[:, :1]))


def drift_oracles(ck, dm):
    ndr = 0
    ns = [8, 17, 33, 64, 100] if not ck.thorough() else list(range(4, 130, 3))
    for n in ns:
        for TR in (1.0, 2.0, 2.5, 0.7):
            base_c, base_p = {}, {}
            for start in starts_for(TR, n, ck.thorough()) + ["far", "tmax0"]:
                if start == "far":
                    start = 1000.0
                elif start == "tmax0":
                    start = -(n - 1) * TR
                ft = start + TR * np.arange(n)
                # structural class of the time origin
                if ft.max() == 0:
                    tag = "tmax-zero"
                elif abs(start) > 2 * (n - 1) * TR:
                    tag = "far-origin"          # origin farther away than twice the run length
                else:
                    tag = "start0" if start == 0.0 else "shifted"
                # ------------------------------------------------ cosine
                for period in ((n * TR / 3.1, n * TR / 1.3, 2.0 * TR, 128.0, 7.3 * TR) if tag in ("start0", "shifted") else (n * TR / 3.1,)):
                    ndr += 1
                    rep = {"n": n, "TR": TR, "start": start, "frametimes": "start + TR*arange(n)", "period_cut": period}
                    x = 2 * n * TR / period
                    try:
                        C = dm._cosine_drift(period, ft)
                    except IndexError as e:
                        ck.count(("cos-raise", n, TR, period, start), bucket="drift:cosine-raises")
                        if int(np.floor(x)) == 0:
                            ck.fail("drift/cosine-order-zero-raises", "_cosine_drift(period_cut=%g, TR=%g n=%d) raises IndexError: %s" % (period, TR, n, e), rep)
                        else:
                            ck.fail("drift/cosine-raises", "_cosine_drift raised %s" % e, rep)
                        continue
                    ck.count(("cos", n, TR, period, start), nontrivial=C.shape[1] > 1, bucket="drift:cosine:%s" % tag)
                    rep["shape"] = list(C.shape)
                    order = C.shape[1]
                    if C.shape[0] != n or abs(order - x) > 1 + 1e-9 or order < 1:
                        ck.fail("drift/cosine-shape", "cosine drift has shape %s, expected (%d, floor(%g))" % (C.shape, n, x), rep)
                        continue
                    K = C[:, :-1]
                    if not np.all(C[:, -1] == 1.0):
                        ck.fail("drift/cosine-constant-last", "last cosine-drift column is not the constant 1", rep)
                    if K.shape[1] and order <= n:
                        G = K.T @ K
                        if np.max(np.abs(G - np.eye(K.shape[1]))) > 1e-10:
                            ck.fail("drift/cosine-orthonormal/%s" % tag, "cosine drift columns are not orthonormal for frametimes starting at %g (max |G - I| = %g)"
                                    % (start, np.max(np.abs(G - np.eye(K.shape[1])))), rep)
                        if np.max(np.abs(K.sum(0))) > 1e-10:
                            ck.fail("drift/cosine-orthogonal-to-constant/%s" % tag, "a cosine drift column is not orthogonal to the constant for frametimes starting at %g "
                                    "(max |sum| = %g)" % (start, np.max(np.abs(K.sum(0)))), rep)
                        # DCT-II closed form in the scan INDEX, incl. the column ORDER (frequency k in column k-1)
                        kk = np.arange(1, order)
                        ref = np.sqrt(2.0 / n) * np.cos(np.pi / n * (np.arange(n)[:, None] + .5) * kk[None, :])
                        if np.max(np.abs(ref - K)) > 1e-12:
                            ck.fail("drift/cosine-column-order" if tag == "start0" else "drift/cosine-closed-form/%s" % tag,
                                    "cosine drift column k-1 is not the DCT-II basis function of frequency k of the scan index (start %g)" % start, rep)
                    # invariance under a shift of the time origin
                    if tag == "start0":
                        base_c[period] = C
                    elif period in base_c:
                        C0 = base_c[period]
                        if C0.shape != C.shape:
                            near_int = abs(x - round(x)) < 1e-9
                            ck.fail("drift/cosine-order-boundary-rounding" if near_int else "drift/cosine-not-origin-invariant",
                                    "_cosine_drift(period_cut=%g) has %d columns for frametimes TR*arange(%d) but %d for the same grid started at %g "
                                    "(2*n*TR/period_cut = %r)" % (period, C0.shape[1], n, C.shape[1], start, x), rep)
                        elif np.max(np.abs(C0 - C)) > 1e-12:
                            ck.fail("drift/cosine-not-origin-invariant", "cosine drift changes by %g when the time origin is moved to %g" % (np.max(np.abs(C0 - C)), start), rep)
                # ------------------------------------------------ polynomial
                for order in (0, 1, 2, 3, 5):
                    if order >= n:
                        continue
                    ndr += 1
                    rep = {"n": n, "TR": TR, "start": start, "frametimes": "start + TR*arange(n)", "order": order}
                    try:
                        with warnings.catch_warnings():
                            warnings.simplefilter("ignore")
                            P = dm._poly_drift(order, ft)
                    except Exception as e:  # noqa
                        ck.count(("poly-raise", n, TR, order, start), bucket="drift:polynomial-raises")
                        ck.fail("drift/poly-tmax-zero-raises" if tag == "tmax-zero" else "drift/poly-raises",
                                "_poly_drift(%d, frametimes %g + %g*arange(%d)) raised %s: %s" % (order, start, TR, n, type(e).__name__, e), rep)
                        continue
                    ck.count(("poly", n, TR, order, start), nontrivial=order > 0, bucket="drift:polynomial:%s" % tag)
                    if P.shape != (n, order + 1):
                        ck.fail("drift/poly-shape", "polynomial drift has shape %s" % (P.shape,), rep)
                        continue
                    if not np.all(np.isfinite(P)):
                        ck.fail("drift/poly-tmax-zero-raises" if tag == "tmax-zero" else "drift/poly-not-finite",
                                "_poly_drift(%d, frametimes %g + %g*arange(%d)) contains nan/inf" % (order, start, TR, n), rep)
                        continue
                    G = P.T @ P
                    nrm = np.sqrt(np.diag(G))
                    Gn = G / np.outer(nrm, nrm)
                    if np.max(np.abs(Gn - np.eye(order + 1))) > 1e-7:
                        ck.fail("drift/poly-orthogonal/%s" % tag, "polynomial drift columns (order %d, frametimes starting at %g) are not mutually orthogonal "
                                "(max normalised |<ci,cj>| = %g)" % (order, start, np.max(np.abs(Gn - np.eye(order + 1)))), rep)
                        continue
                    if not np.allclose(P[:, -1], 1.0):
                        ck.fail("drift/poly-constant-last", "last polynomial-drift column is not the constant", rep)
                    # column k-1 has exact degree k: its k-th finite difference is a non-zero constant
                    for k in range(1, order + 1):
                        c = P[:, k - 1] / np.max(np.abs(P[:, k - 1]))
                        dk = np.diff(c, k)
                        dk1 = np.diff(c, k + 1) if k + 1 < n else np.zeros(1)
                        if not (np.max(np.abs(dk)) > 1e-9 and np.max(np.abs(dk1)) < 1e-6 * max(1.0, np.max(np.abs(dk)) * 1e3)):
                            ck.fail("drift/poly-column-order", "polynomial drift column %d is not a polynomial of degree %d (start %g)" % (k - 1, k, start), rep)
                            break
                    # closed form of the current code: Gram-Schmidt of the powers of u = (t - t_first) / (t_last - t_first)
                    # = index / (n - 1): independent of TR and of the time origin; column k-1 has degree k, constant last
                    R = poly_ref(n, order)
                    err = np.max(np.abs(P - R) / np.maximum(np.max(np.abs(R), axis=0), 1e-300))
                    if err > 1e-7:
                        ck.fail("drift/poly-closed-form/%s" % tag, "polynomial drift (order %d, frametimes %g + %g*arange(%d)) differs from the Gram-Schmidt "
                                "orthogonalisation of the powers of index/(n-1) by %g (relative)" % (order, start, TR, n, err), rep)
                    # same basis whatever the time origin
                    if tag == "start0":
                        base_p[order] = P
                    elif order in base_p:
                        P0 = base_p[order]
                        d = np.max(np.abs(P0 - P) / np.maximum(np.max(np.abs(P0), axis=0), 1e-300))
                        if d > 1e-7:
                            ck.fail("drift/poly-not-origin-invariant", "polynomial drift (order %d) changes by %g (relative) when the time origin is moved to %g"
                                    % (order, d, start), rep)
    return ndr


CSV_NAME_POOL = [
    "rest    ", "    task", "  both  ", "x", " x", "x ", "x  ", "a b", "a  b", "cond a", "a\tb", "\tlead_tab", "trail_tab\t",
    "a,b", "a, b", ",", "a;b", "a:b", "c|d", '"q"', 'say "hi"', "it's", "'", '"', "#a", "a#b", "(a)", "[b]", "{c}", "a/b", "a\\b",
    "a=b", "a+b", "-a", "*", "%d", "a.b", "a_b", "a-b", "1", "2", "1.5", "-0", "1e5", "0x10", "nan", "inf", "+3", "007", "", " ", "  ",
    "\t", "NA", "None", "True", "constant", "drift_1", "reg0", "A", "a", "Rest", "rest", "rest ", "a_derivative", "c_delay_0"]
CSV_EXTREMES = [0.0, -0.0, 1.0, -1.0, 5e-324, -5e-324, 2.2250738585072014e-308, 1.7976931348623157e308, -1.7976931348623157e308,
                1e-300, 1e300, 0.1, 1 / 3, 2 ** 53 + 2.0, 2 ** -1074, 123456789.12345679, 1e16, 1e-7, 9.999999999999999e22]


def name_loss(want, back):
    """structural description of how the names changed in the round trip"""
    if len(want) != len(back):
        return "column-count"
    kinds = set()
    for w, b in zip(want, back):
        if w == b:
            continue
        if b == w.lstrip(" \t"):           # trailing blanks kept (csv skipinitialspace behaviour)
            kinds.add("leading")
        elif b == w.rstrip(" \t"):
            kinds.add("trailing")
        elif b == w.strip(" \t"):
            kinds.add("leading"); kinds.add("trailing")
        elif '"' in w or "'" in w:
            kinds.add("quote")
        else:
            kinds.add("other")
    if kinds == {"leading"}:
        return "leading-blanks-lost"
    if kinds <= {"leading", "trailing"}:
        return "trailing-blanks-lost"       # trailing (or both sides) stripped
    if kinds <= {"quote", "leading"}:
        return "quote-characters"
    return "other"


def csv_oracles(ck, dm, ep, rng):
    ncsv = 0
    tmp = tempfile.mkdtemp(prefix="c07-csv-", dir=str(ck.scratch))
    cases = []
    # fixed cases first (smallest replays first)
    cases.append((np.ones((26, 1)), ["n0_"], "one-column"))
    cases.append((rng.standard_normal((6, 1)), ["a"], "one-column"))
    for nm in ([" x"], ["x "], ["rest    "], [""], [" "], ["a b"], ["1"], ["a,b"], ['"q"'], ["\t"]):
        cases.append((rng.standard_normal((4, 1)), nm, "one-column-odd-name"))
    cases.append((rng.standard_normal((4, 2)), ["x", " x"], "near-duplicate-blanks"))
    cases.append((rng.standard_normal((4, 3)), ["x ", "x", "  x  "], "near-duplicate-blanks"))
    cases.append((rng.standard_normal((4, 2)), ["rest    ", "rest"], "near-duplicate-blanks"))
    cases.append((rng.standard_normal((4, 3)), ["rest    ", "task    ", "fix     "], "fixed-width"))
    cases.append((rng.standard_normal((4, 2)), ["", " "], "empty-looking"))
    cases.append((rng.standard_normal((4, 3)), ["1", "2.5", "-0"], "numeric-looking"))
    cases.append((np.array(CSV_EXTREMES).reshape(-1, 1) * np.ones((1, 2)), ["lo", "hi"], "extreme-values"))
    cases.append((np.array(CSV_EXTREMES[::-1] + CSV_EXTREMES).reshape(-1, 2), [" lo", "hi "], "extreme-values"))
    for i in range(ck.n(60, 400)):
        n = int(rng.integers(1, 30)); p = int(rng.integers(1, 7))
        X = rng.standard_normal((n, p)) * 10.0 ** rng.integers(-8, 8, (1, p))
        kind = ("plain", "pool", "pool", "padded", "extreme")[i % 5]
        if kind == "plain":
            names = ["n%d_%s" % (j, "x" * int(rng.integers(0, 4))) for j in range(p)]
        elif kind == "padded":     # ids cut from fixed-width logs + near-duplicates differing only by blanks
            stem = ["rest", "task", "x"][int(rng.integers(0, 3))]
            pads = [stem, stem + " ", " " + stem, stem + "   ", "  " + stem + "  ", stem + "\t", " " + stem + " "]
            names = [pads[j] for j in rng.permutation(len(pads))[:p]]
        else:
            names = [CSV_NAME_POOL[j] for j in rng.permutation(len(CSV_NAME_POOL))[:p]]
        if kind == "extreme":
            X = rng.choice(CSV_EXTREMES, size=(n, p))
        if i % 3 == 0:
            X[:, 0] = 1.0
        cases.append((X, names, kind))
    # a real design matrix with padded condition ids and user regressor names
    ft = 0.5 + 2.0 * np.arange(20)
    with warnings.catch_warnings():
        warnings.simplefilter("ignore")
        d = dm.make_dmtx(ft, ep.EventRelatedParadigm(["rest    ", "task    ", "rest"], [4.0, 10.0, 16.0], [1.0, 1.0, 1.0]), "canonical with derivative",
                         "polynomial", drift_order=2, add_regs=rng.standard_normal((20, 2)), add_reg_names=[" mot", "mot "])
    cases.append((np.asarray(d.matrix), [str(x) for x in d.names], "make_dmtx-padded-ids"))
    for i, (X, names, kind) in enumerate(cases):
        n, p = X.shape
        path = os.path.join(tmp, "d%d.csv" % i)
        dm.DesignMatrix(X, list(names), None).write_csv(path)
        ncsv += 1
        ck.count(("csv", i, n, p, tuple(names)), bucket="csv:%s" % kind)
        rep = {"shape": [n, p], "names": list(names), "first_row": X[0].tolist(), "kind": kind,
               "matrix": X.tolist() if X.size <= 60 else ("np.ones((%d, %d))" % (n, p) if np.all(X == 1.0) else "see generator, case %d" % i)}
        try:
            d2 = dm.dmtx_from_csv(path)
        except Exception as e:  # noqa
            ck.fail("csv/single-column-sniffer" if p == 1 and kind == "one-column" else "csv/read-raises/%s" % kind,
                    "DesignMatrix(%d x %d, names %r).write_csv then dmtx_from_csv raised %s: %s" % (n, p, list(names), type(e).__name__, e), rep)
            continue
        back = [str(x) for x in d2.names]
        rep["names_read_back"] = back
        want = [str(x) for x in names]
        feature = None
        if back != want:
            feature = name_loss(want, back)
            ck.fail("csv/names/%s" % feature, "column names written %r are read back as %r" % (want, back), rep)
        if len(set(want)) == len(want) and len(set(back)) != len(back):
            ck.fail("csv/names/duplicates-after-round-trip/%s" % (feature or "other"),
                    "distinct names %r collapse to %r after the CSV round trip" % (want, back), rep)
        M = np.asarray(d2.matrix)
        if M.shape != X.shape or not np.array_equal(M, X) or not np.array_equal(np.signbit(M), np.signbit(X)):
            ck.fail("csv/values/%s" % ("extreme" if kind.startswith("extreme") else "plain"),
                    "values read back differ from the values written (shape %s vs %s, max abs diff %s)" % (
                        M.shape, X.shape, np.max(np.abs(M - X)) if M.shape == X.shape else "n/a"), rep)
    return ncsv



# ------------------------------------------------------------------ section: make_dmtx, drifts, kernels, csv
def sec_dmtx(ck, hm, dm, ep):
    rng = ck.rng("dmtx")
    terms, meta = [], []
    nd = 0
    idsets = [["a"], ["b", "a"], ["c10", "c2", "c1"], ["x", "y", "z", "w", "v"]]
    drifts = [("cosine", 128, 1), ("cosine", 16, 1), ("polynomial", 128, 1), ("polynomial", 128, 3), ("blank", 128, 1),
              ("Cosine", 9, 1), ("polynomial", 128, 0)]
    ngrid = [(2.0, 33), (1.0, 20), (2.5, 64)] if not ck.thorough() else [(2.0, 33), (1.0, 20), (2.5, 64), (0.5, 128), (3.0, 7)]
    for (TR, n), ids, model, (dmodel, hfcut, order), nadd, named in itertools.product(
            ngrid, idsets, MODELS, drifts, (0, 2), (False, True)):
        if not ck.thorough() and rng.random() > 0.12:
            continue
        if nadd == 0 and named:
            continue
        start = [0.0, TR / 2, -2 * TR, 0.3, 4 * TR, -1.7][nd % 6]
        ft = start + TR * np.arange(n)
        m = 3 * len(ids)
        # events listed in ARBITRARY (not chronological) order, unequal signed amplitudes, some near both ends of the run
        con = np.array([ids[i % len(ids)] for i in range(m)])[rng.permutation(m)]
        on = rng.uniform(ft[0], ft[-1], m)
        on[0], on[1] = ft[-1] - 0.25 * TR, ft[0] + 0.25 * TR
        mo = [-24.0, -8.0, -2 * TR][nd % 3]          # min_onset is an argument like the others
        on[2] = ft[0] - 6.0                          # a pre-scan event: inside the window for -24 / -8, outside for -2 TR (TR <= 2.5)
        block = rng.random() < .5
        amp = rng.uniform(.5, 2, m) * rng.choice([-1.0, 1.0, 1.0], m)
        durs = rng.uniform(0.5, 3 * TR, m)
        variant = ["plain", "plain", "zero-amplitude-condition", "duplicate-user-regressor", "user-column-of-ones",
                   "condition-outside-window", "plain"][nd % 7]
        if variant == "zero-amplitude-condition":
            amp[con == ids[-1]] = 0.0
        elif variant == "condition-outside-window":
            on[con == ids[0]] = ft[-1] + 40 * TR + rng.uniform(0, 5, int((con == ids[0]).sum()))
        par = (ep.BlockParadigm(con, on, durs, amp) if block else ep.EventRelatedParadigm(con, on, amp))
        add = rng.standard_normal((n, nadd)) if nadd else None
        if nadd and variant == "duplicate-user-regressor":
            add[:, 1] = add[:, 0]
        elif nadd and variant == "user-column-of-ones":
            add[:, 1] = 1.0
        # list-valued arguments in arbitrary (not ascending) order: user regressor names, FIR delays
        addn = [["mot_0", "mot_1"], ["mot_1", "mot_0"], ["z_reg", "a_reg"], ["reg1", "reg0"]][nd % 4][:nadd] if named else None
        delays = [[0, 2, 3], [3, 0, 2], [2, 3, 0], [3, 2, 0]][(nd // 2) % 4]
        rep0 = {"frametimes": "%g + %g*arange(%d)" % (start, TR, n), "condition_ids": ids, "hrf_model": model, "drift_model": dmodel, "hfcut": hfcut,
                "drift_order": order}
        try:
            with warnings.catch_warnings():
                warnings.simplefilter("ignore")
                d = dm.make_dmtx(ft, par, model, dmodel, hfcut, order, delays, add, addn, mo)
                drift, dnames = dm._make_drift(dmodel.lower(), ft, order, hfcut)
        except Exception as e:  # noqa
            ck.count(("dmtx-raise", TR, n, dmodel, hfcut), bucket="dmtx:raises")
            rep0 = dict(rep0, variant=variant, con_id=con.tolist(), onsets=on.tolist(), amplitudes=amp.tolist(),
                        durations=durs.tolist() if block else None, n_add_regs=nadd)
            if isinstance(e, IndexError) and dmodel.lower() == "cosine" and int(np.floor(2 * n * TR / hfcut)) == 0:
                ck.fail("drift/cosine-order-zero-raises", "make_dmtx(frametimes TR=%g n=%d, drift_model='cosine', hfcut=%g) raises IndexError "
                        "(run shorter than hfcut/2: no room even for the constant column): %s" % (TR, n, hfcut, e), rep0)
            else:
                ck.fail("dmtx/raises/%s" % variant, "make_dmtx raised %s: %s" % (type(e).__name__, e), rep0)
            nd += 1
            continue
        X, names = np.asarray(d.matrix), list(d.names)
        nd += 1
        # dmtx_light forwards EVERY argument to make_dmtx (all of them non-default here) and writes the CSV of the same design
        lrep = dict(rep0, fir_delays=delays, n_add_regs=nadd, add_reg_names=addn, min_onset=mo, con_id=con.tolist(), onsets=on.tolist(),
                    amplitudes=amp.tolist(), durations=durs.tolist() if block else None, make_dmtx_names=[str(x) for x in names])
        lpath = os.path.join(str(ck.scratch), "light_%d.csv" % nd)
        for how in ("positional", "keyword"):
            try:
                with warnings.catch_warnings():
                    warnings.simplefilter("ignore")
                    if how == "positional":
                        Xl, nl = dm.dmtx_light(ft, par, model, dmodel, hfcut, order, delays, add, addn, mo, lpath)
                    else:
                        Xl, nl = dm.dmtx_light(frametimes=ft, paradigm=par, hrf_model=model, drift_model=dmodel, hfcut=hfcut, drift_order=order,
                                               fir_delays=delays, add_regs=add, add_reg_names=addn, min_onset=mo, path=lpath)
                    back = dm.dmtx_from_csv(lpath)
            except Exception as e:  # noqa
                ck.fail("dmtx_light/raises", "dmtx_light (%s arguments) raised %s: %s" % (how, type(e).__name__, e), lrep)
                break
            ck.count(("light", nd, how), bucket="dmtx_light:%s:%s" % (how, "user-names" if addn else ("default-names" if nadd else "no-user-regressors")))
            nl = [str(x) for x in nl]
            if nl != [str(x) for x in names]:
                ck.fail("dmtx_light/names-differ-from-make_dmtx/%s" % ("user-regressor-names" if addn else "other"),
                        "dmtx_light(... add_reg_names=%s ...) returns names %s, make_dmtx with the same arguments %s" % (addn, nl, [str(x) for x in names]),
                        dict(lrep, dmtx_light_names=nl))
            Xl = np.asarray(Xl)
            if Xl.shape != X.shape or not np.array_equal(Xl, X):
                ck.fail("dmtx_light/matrix-differs-from-make_dmtx", "dmtx_light returns a matrix different from make_dmtx called with the same arguments "
                        "(shape %s vs %s, max abs diff %s)" % (Xl.shape, X.shape, np.max(np.abs(Xl - X)) if Xl.shape == X.shape else "n/a"), lrep)
            bn = [str(x) for x in back.names]
            if bn != [str(x) for x in names] or np.asarray(back.matrix).shape != X.shape or not np.array_equal(np.asarray(back.matrix), X):
                ck.fail("dmtx_light/csv-differs-from-make_dmtx", "the CSV written by dmtx_light(path=...) reads back as names %s / a matrix that differs from "
                        "make_dmtx's design" % bn, dict(lrep, csv_names=bn))
        ck.count(("dmtx", TR, n, start, tuple(ids), model, dmodel, hfcut, order, nadd, named),
                 bucket="dmtx:%s:%s:%s" % (model, dmodel.lower(), "start0" if start == 0 else "shifted"))
        nb = len(delays) if model == "fir" else NCOL[model]
        rep = {"frametimes": "%g + %g*arange(%d)" % (start, TR, n), "condition_ids": ids, "hrf_model": model, "drift_model": dmodel, "hfcut": hfcut,
               "drift_order": order, "fir_delays": delays, "n_add_regs": nadd, "add_reg_names": addn, "names": names, "shape": list(X.shape),
               "variant": variant, "con_id": con.tolist(), "onsets": on.tolist(), "amplitudes": amp.tolist(), "durations": durs.tolist() if block else None}
        if X.shape != (n, len(names)) or len(names) != nb * len(ids) + nadd + drift.shape[1]:
            ck.fail("dmtx/column-count/%s" % variant, "make_dmtx: %s columns, %d names, expected %d conditions x %d basis functions + %d + %d" % (
                X.shape, len(names), len(ids), nb, nadd, drift.shape[1]), rep)
            continue
        if len(set(names)) != len(names):
            ck.fail("dmtx/duplicate-name", "make_dmtx returns duplicate column names %s" % names, rep)
        # blocks in order: conditions (sorted ids) x basis | user regressors | drifts | constant
        p = nb * len(ids)
        # the matrix make_dmtx must return, assembled here from the pieces: condition blocks | user regressors | drifts
        blocks = []
        for cid in sorted(ids):
            sel = con == cid
            dur = par.duration[sel] if block else np.zeros(sel.sum())
            with warnings.catch_warnings():
                warnings.simplefilter("ignore")
                c, _ = hm.compute_regressor((on[sel], dur, par.amplitude[sel]), model, ft, cid, 1 if model == "fir" else 16, delays, mo)
            blocks.append(np.asarray(c, float).reshape(n, -1))
        raw = np.hstack(blocks + ([add] if nadd else []) + [drift])
        sv = np.linalg.svd(raw, compute_uv=False)
        reg = raw.shape[1] > n or sv.min() * 1e15 <= sv.max() * (1 + 1e-6)
        near = (not reg) and sv.min() * 1e15 <= sv.max() * 1e2        # too close to the threshold to predict the branch
        scale = max(1.0, float(np.max(np.abs(raw))))
        rtag = "/regularised-by-full_rank" if reg else ""
        rep["variant"] = variant
        rep["singular_at_working_precision"] = bool(reg)
        ck.count(("dmtx-kind", nd), bucket="dmtx:%s:%s" % (variant, "regularised-by-full_rank" if reg else "full-rank"))
        # _full_rank: a full-rank design is returned unchanged; a singular one moves by lda*U.V, lda ~ 1e-15 * s_max
        tol_user = 0.0 if not (reg or near) else 1e-9 * scale
        if nadd and np.max(np.abs(X[:, p:p + nadd] - add)) > tol_user:
            ck.fail("dmtx/user-regressor-block" + rtag, "user regressors are not columns %d..%d of the design matrix (max abs diff %g)" % (
                p, p + nadd, np.max(np.abs(X[:, p:p + nadd] - add))), rep)
        if np.max(np.abs(X[:, p + nadd:] - drift)) > (1e-12 if not reg else 1e-9 * scale):
            ck.fail("dmtx/drift-block" + rtag, "drift columns are not the last columns of the design matrix (max abs diff %g)" % np.max(np.abs(X[:, p + nadd:] - drift)), rep)
        if np.max(np.abs(X - raw)) > (1e-10 if not reg else 1e-9) * scale:
            j = int(np.argmax(np.max(np.abs(X - raw), axis=0)))
            ck.fail(("dmtx/condition-block" if j < p else "dmtx/assembled-matrix") + rtag,
                    "make_dmtx differs from [condition regressors | user regressors | drifts] by %g in column %d (%s)%s" % (
                        np.max(np.abs(X - raw)), j, names[j], "; the design is singular at working precision, so _full_rank may move it by ~1e-15*s_max only" if reg else ""), rep)
        if start != 0 and dmodel.lower() in ("cosine", "blank"):
            # the drift block of the design depends on the scan index only, not on the time origin
            with warnings.catch_warnings():
                warnings.simplefilter("ignore")
                drift0, _ = dm._make_drift(dmodel.lower(), TR * np.arange(n), order, hfcut)
            if drift0.shape != drift.shape:
                x = 2 * n * TR / hfcut
                ck.fail("drift/cosine-order-boundary-rounding" if abs(x - round(x)) < 1e-9 else "drift/cosine-not-origin-invariant",
                        "make_dmtx drift block has %d columns for frametimes starting at %g but %d for the same grid starting at 0" % (
                            drift.shape[1], start, drift0.shape[1]), rep)
            elif np.max(np.abs(drift0 - drift)) > 1e-12:
                ck.fail("drift/cosine-not-origin-invariant", "make_dmtx drift block changes by %g when the time origin moves from 0 to %g" % (
                    np.max(np.abs(drift0 - drift)), start), rep)
        if names[-1] != "constant" or not np.allclose(X[:, -1], X[0, -1], rtol=1e-9) or X[0, -1] == 0:
            ck.fail("dmtx/constant-last", "last column is not a non-zero constant named 'constant'", rep)
        # the listing order of the events is irrelevant (theorem main_regressor_independent_of_listing_order)
        pm = rng.permutation(m) if nd % 2 else np.argsort(on, kind="stable")
        par2 = (ep.BlockParadigm(con[pm], on[pm], durs[pm], amp[pm]) if block else ep.EventRelatedParadigm(con[pm], on[pm], amp[pm]))
        try:
            with warnings.catch_warnings():
                warnings.simplefilter("ignore")
                X2 = np.asarray(dm.make_dmtx(ft, par2, model, dmodel, hfcut, order, delays, add, addn, mo).matrix)
        except Exception as e:  # noqa
            ck.fail("dmtx/raises/relisted", "make_dmtx raised %s: %s on the re-listed paradigm" % (type(e).__name__, e), rep)
            X2 = X
        if X2.shape != X.shape or np.max(np.abs(X2 - X)) > 1e-9 * max(1.0, np.max(np.abs(X))):
            ck.fail("dmtx/listing-order", "make_dmtx gives a different design matrix when the same events are listed in another order "
                    "(max abs diff %g)" % (np.max(np.abs(X2 - X)) if X2.shape == X.shape else float("nan")),
                    dict(rep, con_id=con.tolist(), onsets=on.tolist(), amplitudes=amp.tolist(), durations=durs.tolist() if block else None,
                         relisted_in_order=pm.tolist()))
        terms.append("list_eqb String.eqb (dmtx_names show_nat %s %s %s %s %s) %s" % (
            clist([cstr(s) for s in sorted(ids)]), COQ_MODEL[model], clist([cnat(x) for x in delays]),
            clist([cstr(s) for s in (addn if addn is not None else ["reg%d" % k for k in range(nadd)])]),
            cnat(drift.shape[1]), clist([cstr(s) for s in names])))
        meta.append(rep)
        if nd == 3:
            ck.sample({"section": "dmtx", **rep})
    if ck.build.ok:
        res = ck.coq_bools(HDR, terms, shard=200, name="names")
        ck.cov["traces_validated_against_impl"] += len(res)
        for ok, m in zip(res, meta):
            if not ok:
                ck.fail("model-vs-impl/dmtx_names", "Model.dmtx_names and make_dmtx(...).names disagree: %s" % m["names"], m)
                break
    # --- adversarial condition ids: an id that is another id plus a basis-function suffix
    ft = 2.0 * np.arange(20)
    for ids2, model in ((["a", "a_derivative"], "canonical with derivative"), (["c", "c_dispersion"], "spm_time_dispersion")):
        par = ep.EventRelatedParadigm(ids2, [4.0, 10.0], [1.0, 1.0])
        with warnings.catch_warnings():
            warnings.simplefilter("ignore")
            d = dm.make_dmtx(ft, par, model, "blank")
        ck.count(("dmtx-adv", tuple(ids2), model), bucket="dmtx:adversarial-ids")
        names = [str(x) for x in d.names]
        if len(set(names)) != len(names):
            ck.fail("dmtx/duplicate-name-suffix-collision", "make_dmtx(condition ids %s, hrf_model=%r) returns duplicate column names %s" % (ids2, model, names),
                    {"frametimes": ft.tolist(), "condition_ids": ids2, "onsets": [4.0, 10.0], "hrf_model": model, "drift_model": "blank", "names": names})
    # --- drifts: every oracle on grids with zero and non-zero start (positive, negative, fractions of TR, non-dyadic)
    ndr = drift_oracles(ck, dm)
    # --- canonical kernels sum to one; time-to-peak ties the kernel grid to tr/oversampling
    nk = 0
    for tr in (0.5, 1.0, 2.0, 2.5, 3.0):
        for osamp in (1, 2, 8, 16, 32):
            for name, fn, base, disp in (("spm_hrf", hm.spm_hrf, 5.0, 1.0), ("glover_hrf", hm.glover_hrf, 6 / .9 - 1, .9)):
                h = fn(tr, osamp)
                nk += 1
                ck.count(("kern", name, tr, osamp), bucket="kernel:gamma")
                rep = {"kernel": name, "tr": tr, "oversampling": osamp, "sum": float(h.sum()), "len": int(h.size)}
                dt = tr / osamp
                if abs(h.sum() - 1.0) > 1e-12:
                    ck.fail("kernel/sum-not-one", "%s(tr=%g, oversampling=%d) sums to %r" % (name, tr, osamp, float(h.sum())), rep)
                if h.size != int(32.0 / dt):
                    ck.fail("kernel/length", "%s has %d samples, expected int(32/dt)=%d" % (name, h.size, int(32.0 / dt)), rep)
                tp = float(np.argmax(h)) * 32.0 / (h.size - 1)
                peak = base + dt / disp          # mode of gamma.pdf(t, delay/disp, loc=dt/disp)
                if abs(tp - peak) > 1.5 * dt + 0.05:
                    ck.fail("kernel/time-to-peak", "%s peaks at %g s (expected about %g s): kernel not sampled every tr/oversampling" % (name, tp, peak), rep)
            for model in MODELS[:5]:
                hs = hm._hrf_kernel(model, tr, osamp)
                if len(hs) != NCOL[model] or any(len(h) != len(hs[0]) for h in hs):
                    ck.fail("kernel/count", "_hrf_kernel(%s) returns %d kernels" % (model, len(hs)), {"model": model})
                ref = (hm.glover_hrf if model.startswith("canonical") else hm.spm_hrf)(tr, osamp)
                if len(hs[0]) != len(ref) or not np.array_equal(hs[0], ref):
                    ck.fail("kernel/hrf_kernel-first", "_hrf_kernel(%r, tr=%g, oversampling=%d)[0] is not the canonical kernel sampled at tr/oversampling" % (model, tr, osamp),
                            {"model": model, "tr": tr, "oversampling": osamp, "len": len(hs[0]), "expected_len": len(ref)})
                # derivative kernels sum to ~0 (differences of unit-sum kernels)
                for h in hs[1:]:
                    if abs(np.sum(h)) > 1e-9:
                        ck.fail("kernel/derivative-sum", "derivative kernel of %s sums to %g" % (model, np.sum(h)), {"model": model, "tr": tr})
    # --- CSV round trip
    ncsv = csv_oracles(ck, dm, ep, rng)
    ck.section("dmtx", designs=nd, drift_cases=ndr, kernel_cases=nk, csv_cases=ncsv, name_terms=len(terms))


def sec_paradigm(ck, ep):
    rng = ck.rng("paradigm")
    tmp = tempfile.mkdtemp(prefix="c07-par-", dir=str(ck.scratch))
    npar = 0
    for i in range(ck.n(10, 40)):
        m = int(rng.integers(1, 12))
        con = np.array(["c%d" % int(x) for x in rng.integers(0, 3, m)])
        on = np.round(np.sort(rng.uniform(0, 100, m)), 3)
        amp = np.round(rng.uniform(.5, 2, m), 3)
        block = i % 2 == 0
        dur = np.round(rng.uniform(.5, 5, m), 3)
        par = ep.BlockParadigm(con, on, dur, amp) if block else ep.EventRelatedParadigm(con, on, amp)
        path = os.path.join(tmp, "p%d.csv" % i)
        par.write_to_csv(path, session="s1")
        npar += 1
        ck.count(("par", i, m, block), bucket="paradigm:%s" % ("block" if block else "event"))
        rep = {"con_id": con.tolist(), "onset": on.tolist(), "duration": dur.tolist() if block else None, "amplitude": amp.tolist()}
        try:
            p2 = ep.load_paradigm_from_csv_file(path, session="s1")
        except Exception as e:  # noqa
            ck.fail("paradigm/read-raises", "load_paradigm_from_csv_file raised %s: %s" % (type(e).__name__, e), rep)
            continue
        ok = (p2 is not None and list(p2.con_id) == con.tolist() and np.allclose(np.asarray(p2.onset, float), on)
              and np.allclose(np.asarray(p2.amplitude, float), amp)
              and (p2.type == ("block" if block else "event"))
              and (not block or np.allclose(np.asarray(p2.duration, float), dur)))
        if not ok:
            ck.fail("paradigm/roundtrip", "paradigm written with write_to_csv and re-read differs", rep)
    ck.section("paradigm", cases=npar)


# ------------------------------------------------------------------ section: _poly_drift vs PolyModel.poly_drift
HDR_POLY = HDR + "From NV.C07 Require Import PolyModel.\n"


def sec_poly(ck, dm):
    """_poly_drift(order, frametimes) on the real code vs PolyModel.poly_drift evaluated in Coq on the same (exact
    rational) frame times: all columns at 1e-9 (the implementation goes through float powers and numpy pinv), the
    column count and the constant column exactly.  Theorems poly_drift_shape_constant_last and
    poly_drift_independent_of_time_origin_and_unit are about this model."""
    rng = ck.rng("poly")
    cases = []
    ns = (2, 3, 5, 8) if not ck.thorough() else (2, 3, 4, 5, 8, 9, 12)
    for n in ns:
        for TR in (1.0, 2.0, 0.5, 2.5, 0.72):
            origins = (0.0, TR / 2, -3 * TR, 0.3, 1000.0) if ck.thorough() else ((0.0, -3 * TR, 0.3, 1000.0)[(n + int(TR * 4)) % 4], TR / 2)
            for f0 in origins:
                for order in range(0, min(n - 1, 4 if ck.thorough() else 3) + 1):
                    cases.append(("uniform", f0 + TR * np.arange(n), order))
        # sparse / irregular acquisitions and a listing that is not ascending
        irr = np.cumsum(rng.integers(1, 6, size=n)) * 0.25 + float(rng.integers(-8, 9))
        cases.append(("irregular", irr, min(n - 1, 2)))
        cases.append(("unsorted", irr[rng.permutation(n)], min(n - 1, 2)))
    terms, meta = [], []
    for kind, ft, order in cases:
        ft = np.asarray(ft, float)
        inp = {"order": order, "frametimes": ft.tolist(), "kind": kind}
        try:
            pol = guarded(ck, "_poly_drift", inp, dm._poly_drift, order, ft.copy())
        except ImplRaised:
            continue
        pol = np.asarray(pol, float)
        far = abs(ft[0]) > 2 * (ft.max() - ft.min())
        feat = kind + ("/far-origin" if far else "")
        ck.count(("poly", order, ft.tolist()), nontrivial=order >= 1, bucket="poly:%s:order%d" % (feat, order))
        if pol.shape != (ft.size, order + 1):
            ck.fail("poly/column-count/" + feat, "_poly_drift(order=%d) returns shape %s for %d scans" % (order, pol.shape, ft.size),
                    dict(inp, impl_shape=list(pol.shape)))
            continue
        if not np.all(np.isfinite(pol)):
            ck.fail("poly/not-finite/" + feat, "_poly_drift returns nan/inf", dict(inp, impl=pol.T.tolist()))
            continue
        if not np.all(pol[:, -1] == 1.0):      # theorem poly_drift_shape_constant_last, on the implementation
            ck.fail("poly/constant-not-last/" + feat, "last column of _poly_drift is not the constant 1", dict(inp, impl=pol.T.tolist()))
        cols = clist([cql(pol[:, j].tolist()) for j in range(pol.shape[1])])
        terms.append("list_eqb (qlist_close (1 # 1000000000)) (poly_drift %s %s) %s" % (cnat(order), cql(ft.tolist()), cols))
        meta.append(dict(inp, impl_columns=pol.T.tolist(), feature=feat, tolerance="1e-9"))
    if meta:
        ck.sample({"section": "poly", **{k: meta[len(meta) // 2][k] for k in ("order", "frametimes", "impl_columns")}})
    if ck.build.ok and terms:
        res = ck.coq_bools(HDR_POLY, terms, shard=12, name="poly")
        ck.cov["traces_validated_against_impl"] += len(res)
        for ok, m in zip(res, meta):
            if not ok:
                model = ck.coq_show(HDR_POLY, "poly_drift %s %s" % (cnat(m["order"]), cql(m["frametimes"])))
                ck.fail("model-vs-impl/poly_drift/" + m["feature"], "PolyModel.poly_drift (powers of (t-tmin)/(tmax-tmin), Gram-Schmidt, constant "
                        "last) and _poly_drift disagree beyond 1e-9 for order=%d" % m["order"], dict(m, model=model))
                break
    ck.section("poly", cases=len(terms))


def run(ck):
    ck.cov["rule"] = (
        "hr/regressor: dyadic frame grids TR in {1,2,0.5}, n-1 a power of two, start 0/TR/4TR, min_onset in {-24,-8,0,-3,-7,-1.5,-3.5}, "
        "oversampling in {1,2,4,16}, kept when every float operation of the grid is exact (rational pre-computation); event sets of kinds "
        "plain/coincident/prescan/pastend/zerodur/ongrid with onsets/durations multiples of TR/64 and integer amplitudes; non-trivial = "
        "regressor not identically zero; distinct by all inputs.  oracles: same generators on commensurate and incommensurate grids, all six "
        "hrf models.  dmtx: product of grids x condition-id sets x hrf models x drift models x user regressors (sub-sampled in quick).")
    ck.trust.append("oracle contracts: np.searchsorted (binary search = first index with entry >= x on ascending input), np.linspace "
                    "(arange*step+start), np.convolve (exact sum of products up to rounding), scipy interp1d linear "
                    "(bracket by searchsorted clipped to [1,N-1]), numpy.linalg.pinv (A pinv(A) = orthogonal projector on span A), "
                    "scipy.stats.gamma.pdf (kernels enter the model as opaque vectors), Python '%d' formatting injective, csv module, float repr round trip")
    ck.coq_build()
    ck.overlay()
    from nipy.modalities.fmri import hemodynamic_models as hm
    from nipy.modalities.fmri import design_matrix as dm
    from nipy.modalities.fmri import experimental_paradigm as ep
    import traceback
    for name, fn, args in (("oracles", sec_oracles, (ck, hm)), ("hr", sec_hr, (ck, hm)), ("regressor", sec_regressor, (ck, hm)),
                           ("convolve", sec_convolve, (ck, hm, dm, ep)),
                           ("poly", sec_poly, (ck, dm)), ("full_rank", sec_full_rank, (ck, dm)), ("state", sec_state, (ck, hm, dm, ep)),
                           ("dmtx", sec_dmtx, (ck, hm, dm, ep)), ("paradigm", sec_paradigm, (ck, ep))):
        t0 = time.time()
        try:
            fn(*args)
            ck.section(name, wall_s=round(time.time() - t0, 1))
        except Exception as e:  # noqa  (keep the other sections running; an implementation call raised outside a guarded site)
            ck.fail("raises/section-%s" % name, "section %s stopped: %s: %s" % (name, type(e).__name__, e),
                    {"kind": "exception", "section": name, "trace": traceback.format_exc()[-2500:]}, found_input=False)
