"""C20, correspondence for coq/C20/Kernels.v (the two Cython kernels without bounds checks).

histogram: the compiled `nipy.algorithms.statistics.histogram.histogram` on uintp arrays of
  several shapes / layouts vs the checked-access model `Kernels.histogram` (vm_compute);
  empty input and non-uintp dtype must be refused with an exception.
dilation: for random graphs, the (idx, neighb) table that `Field.compact_neighb()` really hands
  to the kernel must satisfy `wf_csrb` (the hypothesis of `dilation_trace_in_bounds`), every
  access of the translated trace must be in bounds (`in_boundsb`), and every raw access recorded
  while running the current `_graph.pyx` text (de-cythonised, arrays wrapped in recording
  proxies) must occur in the translated trace (`covered`) and be in bounds itself.
"""
import ast

import numpy as np

from ..kit import REPO

HEADER = ("From Coq Require Import ZArith List String Bool.\nFrom NV.Generated Require Import PyxKernels.\n"
          "From NV.C20 Require Import Kernels.\nOpen Scope Z_scope.\nOpen Scope list_scope.")


def zl(xs):
    return "[" + "; ".join("%d" % int(x) if int(x) >= 0 else "(%d)" % int(x) for x in xs) + "]"


class Rec:
    """array proxy recording raw element accesses"""

    def __init__(self, name, arr, log):
        self.name, self.arr, self.log = name, arr, log
        self.shape = arr.shape

    def _key(self, k):
        if isinstance(k, tuple):
            if any(isinstance(x, slice) for x in k):
                return None
            return tuple(int(x) for x in k)
        if isinstance(k, slice):
            return None
        return (int(k), 0)

    def __getitem__(self, k):
        kk = self._key(k)
        if kk is None:
            return self.arr[k]
        self.log.append((self.name, kk[0], kk[1], False))
        return self.arr[k]          # numpy raises IndexError when outside: reported by the caller

    def __setitem__(self, k, v):
        kk = self._key(k)
        if kk is not None:
            self.log.append((self.name, kk[0], kk[1], True))
        self.arr[k] = v


def instrumented_dilation(py):
    """compile the de-cythonised text; new arrays created from slices are wrapped too"""
    tree = ast.parse(py)

    class W(ast.NodeTransformer):
        def visit_Assign(self, node):
            self.generic_visit(node)
            if (len(node.targets) == 1 and isinstance(node.targets[0], ast.Name)
                    and any(isinstance(x, ast.Slice) for x in ast.walk(node.value))):
                node.value = ast.Call(func=ast.Name(id="_wrap", ctx=ast.Load()),
                                      args=[ast.Constant(value=node.targets[0].id), node.value], keywords=[])
            return node
    tree = ast.fix_missing_locations(W().visit(tree))
    ns = {}
    exec(compile(tree, "_graph_decythonised_recording", "exec"), ns)
    return ns


def run(ck):
    from ..translate import TRANSLATORS
    try:
        _text, meta = TRANSLATORS["PyxKernels.v"][1](REPO)
    except Exception as e:
        ck.fail("pyx-kernels/source-not-understood", "translator cannot read the .pyx kernels: %s" % e,
                {"kind": "correspondence-broken", "error": str(e)}, found_input=False)
        return
    rng = ck.rng("pyxkernels")
    terms, infos = [], []

    def add(term, sig, what, rp):
        terms.append(term)
        infos.append((sig, what, rp))

    # ---------------------------------------------------------------- histogram
    from nipy.algorithms.statistics.histogram import histogram
    nh = ck.n(60, 400)
    shapes = 0
    for k in range(nh):
        nd = int(rng.integers(1, 4))
        shape = tuple(int(s) for s in rng.integers(1, 6, size=nd))
        hi = int(rng.choice([1, 2, 5, 40]))
        x = rng.integers(0, hi + 1, size=shape).astype(np.uintp)
        lay = k % 4
        if lay == 1:
            x = np.asfortranarray(x)
        elif lay == 2:
            big = rng.integers(0, hi + 1, size=tuple(2 * s + 1 for s in shape)).astype(np.uintp) + 1000
            sl = tuple(slice(1, 1 + 2 * s, 2) for s in shape)
            big[sl] = x
            x = big[sl]
        elif lay == 3:
            x = x[tuple(slice(None, None, -1) for _ in shape)]
        vals = [int(v) for v in x.flat]
        before = x.copy()
        try:
            h = [int(v) for v in histogram(x)]
        except Exception as e:
            ck.fail("histogram/raises", "histogram(%s) raised %s" % (vals, type(e).__name__), {"x": vals, "shape": shape, "layout": lay})
            continue
        ck.count(("hist", shape, lay, tuple(vals)), bucket="pyx-histogram")
        if not np.array_equal(before, x):
            ck.fail("mutates-input/histogram", "histogram changed its input", {"x": vals, "shape": shape, "layout": lay})
        shapes += 1
        add("match histogram %s with HOk h => zlist_eqb h %s | _ => false end" % (zl(vals), zl(h)),
            "histogram/model-vs-impl", "histogram(%s) [shape %s layout %d] returned %s, the model disagrees" % (vals, shape, lay, h),
            {"x": vals, "shape": shape, "layout": lay, "impl": h})
        exp = [vals.count(v) for v in range(max(vals) + 1)]
        if h != exp:
            ck.fail("histogram/counts", "histogram(%s) returned %s, counts are %s" % (vals, h, exp), {"x": vals, "shape": shape, "layout": lay, "impl": h, "expected": exp})
    for bad, why in ((np.zeros((0,), dtype=np.uintp), "empty"), (np.zeros((2, 0), dtype=np.uintp), "empty-2d"),
                     (np.array([1, 2], dtype=np.int64), "int64"), (np.array([1.0, 2.0]), "float64"), (np.array([1, 2], dtype=np.uint8), "uint8")):
        try:
            r = histogram(bad)
            ck.fail("histogram/not-refused/%s" % why, "histogram accepted a %s input and returned %s" % (why, list(r)), {"input": why})
        except (ValueError, TypeError):
            pass
        ck.count(("hist-refuse", why), bucket="pyx-histogram-refusal")
    add("match histogram [] with HRefused => true | _ => false end", "histogram/model-empty", "model does not refuse the empty input", {})

    # ---------------------------------------------------------------- dilation
    from nipy.algorithms.graph.field import Field
    ns = instrumented_dilation(meta["dilation_python"])
    ng = ck.n(50, 300)
    nacc = 0
    for k in range(ng):
        V = int(rng.integers(1, 8))
        D = int(rng.integers(1, 4))
        ne = int(rng.integers(0, 3 * V + 1))
        E = [(int(a), int(b)) for a, b in rng.integers(0, V, size=(ne, 2))]
        if k % 5 == 0 and E:
            E = E + E[:2]                      # parallel edges
        data = rng.integers(-9, 10, size=(V, D)).astype(float)
        if E:
            F = Field(V, np.array(E, dtype=np.int_), np.ones(len(E)), data.copy())
        else:
            F = Field(V, None, None, data.copy())
        try:
            idx, neighb, _w = F.compact_neighb()
        except Exception as e:
            if not E:
                continue                       # no edges: Field.dilation does not reach the kernel through compact_neighb
            ck.fail("dilation/compact_neighb-raises", "compact_neighb raised %s on V=%d edges=%s" % (type(e).__name__, V, E), {"V": V, "edges": E})
            continue
        idx_l, ng_l = [int(v) for v in idx], [int(v) for v in neighb]
        rp = {"V": V, "D": D, "edges": E, "idx": idx_l, "neighb": ng_l, "field": data.tolist()}
        ck.count(("dil", V, D, tuple(E)), bucket="pyx-dilation")
        add("wf_csrb %d %s %s" % (V, zl(idx_l), zl(ng_l)), "dilation/compact-table-not-well-formed",
            "Field.compact_neighb() on V=%d edges=%s returned idx=%s neighb=%s, which violates the table contract the unchecked kernel relies on" % (V, E, idx_l, ng_l), rp)
        add("forallb (in_boundsb %d %d %s %s) (src_dilation_trace %d %d %s %s)" % (V, D, zl(idx_l), zl(ng_l), V, D, zl(idx_l), zl(ng_l)),
            "dilation/trace-access-out-of-bounds", "an access of the translated _graph.pyx loop nest is outside its array for V=%d idx=%s neighb=%s" % (V, idx_l, ng_l), rp)
        log = []
        ns["_wrap"] = lambda name, arr, log=log: Rec(name, np.array(arr), log)
        fld = data.copy()
        try:
            ns["dilation"](Rec("field", fld, log), Rec("idx", np.asarray(idx), log), Rec("neighb", np.asarray(neighb), log))
        except IndexError as e:
            ck.fail("dilation/pyx-source-index-error", "_graph.pyx executed from source indexes outside an array on V=%d edges=%s (%s); last access %s" % (V, E, e, log[-1:]), dict(rp, last=log[-1:]))
            continue
        neg = [a for a in log if a[1] < 0 or a[2] < 0]
        if neg:
            ck.fail("dilation/pyx-source-negative-index", "_graph.pyx executed from source uses a negative index %s (wraparound is off in the compiled kernel)" % (neg[0],), dict(rp, access=neg[0]))
        nacc += len(log)
        uniq = sorted(set(log))
        rec = "[" + "; ".join('mk "%s" %d %d %s' % (a, i, j, "true" if w else "false") for a, i, j, w in uniq) + "]"
        add("covered %s (src_dilation_trace %d %d %s %s)" % (rec, V, D, zl(idx_l), zl(ng_l)), "dilation/trace-vs-source-run",
            "an access made by _graph.pyx (executed from source) on V=%d edges=%s is not in the translated trace" % (V, E), rp)
        # the compiled kernel on the same table gives the same field as the source run
        F.dilation(1)
        if not np.array_equal(np.asarray(F.field), fld):
            ck.fail("dilation/compiled-vs-source", "compiled dilation and _graph.pyx source disagree on V=%d edges=%s field=%s" % (V, E, data.tolist()), dict(rp, compiled=np.asarray(F.field).tolist(), source=fld.tolist()))
    res = ck.coq_bools(HEADER, terms, name="pyxkernels")
    for ok, (sig, what, rp) in zip(res, infos):
        if not ok:
            ck.fail(sig, what, rp)
    ck.section("pyx-kernels", histogram_cases=shapes, dilation_graphs=ng, recorded_accesses=nacc, model_terms=len(terms),
               dilation_boundscheck_off="boundscheck(False)" in (REPO / "nipy/algorithms/graph/_graph.pyx").read_text())
