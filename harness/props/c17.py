"""C17 - group statistics equal their definitions; permutations enumerate exactly.

Sections (all C is reached through ctypes on the libcstat.so built from
/repo's current lib/fff by the overlay; `_combinations` is static, so a
two-line wrapper that #includes /repo's fff_gen_stats.c is compiled per run):

  permutation   fff_permutation: all magics for n<=6 (7 thorough) + periodic/huge magics + larger n
  combinations  _combinations for all k<=n<=70 (wrap region included) and k>n;
                fff_combination for all (n,k), n<=10, all magics (+2 beyond), random up to n=58
  signs         fff_onesample_permute_signs: all 2^n magics n<=10; n = 20/31/32 random;
                every n in 33..53 with boundary + random magics >= 2^32 (the int-cast
                overflow repaired by 6262c59 is reported if it returns); magics >= 2^53,
                negative, non-integer and uniform float magics
  twosample     fff_twosample_permutation (count mode + every magic) and
                fff_twosample_apply_permutation for n1+n2<=8 (10 thorough)
  stats         fff_onesample_stat_{new,eval} / fff_twosample_stat_{new,eval}:
                mean, sign, wilcoxon, student (tolerance), antisymmetry
  pvalues       permutation_test.pvalue / calibrate on the real Python (installed
                onesample/twosample glue: stale fallback) - finding p == 0
  python stats  estimate_mean / estimate_varatio re-computed with exact rationals (sd classes: positive, zeros = zero-weight
                subjects, negative, scalar, 1-D) + Coq model of estimate_mean
  rfx defs      all 9 RFX statistics vs definitions on dyadic / decimal / tied data, baselines at, inside and one ulp off the median
  glm twolevel  fff_glm_twolevel EM vs defining recursion and Coq model: designs with/without constant, projected pseudo-inverses,
                continued runs on one EM object; two-sample student_mfx likelihood ratio
  mixed effects MixedEffectsModel.fit vs the defining EM recursion (exact rationals, 1e-10) and vs the
                Coq model (ModelMfx.v); history independence (fit A then fit B on ONE object ==
                fresh fit of B: same shape, same sample, other n_tests, two earlier fits);
                mfx_stat / one_sample_* / two_sample_* wrappers, sign flip and label swap
"""
import ctypes
import itertools
import math
import subprocess
from fractions import Fraction

import numpy as np

from .. import kit
from ..kit import cnat, cq, cql, cbool, frac

HDR = ("From Coq Require Import List Bool ZArith NArith QArith.\n"
       "From NV.Lib Require Import Harness.\n"
       "From NV.C17 Require Import Model.\n"
       "Close Scope Q_scope.\n"
       "Definition nl_eqb := list_eqb N.eqb.\n"
       "Definition onl_eqb := option_eqb nl_eqb.\n"
       "Definition bl_eqb := list_eqb Bool.eqb.\n"
       "Definition ts_eqb (a b : ts_result) : bool := match a, b with\n"
       "  | TsCount x, TsCount y => N.eqb x y\n"
       "  | TsPerm i a1 a2, TsPerm j b1 b2 => Nat.eqb i j && onl_eqb a1 b1 && onl_eqb a2 b2\n"
       "  | _, _ => false end.\n")


def cN(v):
    return "(%d)%%N" % int(v)


def cNl(xs):
    return "[" + "; ".join(cN(x) for x in xs) + "]"


def cnl(xs):
    return "[" + "; ".join(cnat(x) for x in xs) + "]"


class FV(ctypes.Structure):
    _fields_ = [("size", ctypes.c_size_t), ("stride", ctypes.c_size_t),
                ("data", ctypes.POINTER(ctypes.c_double)), ("owner", ctypes.c_int)]


def fvec(vals):
    n = len(vals)
    buf = (ctypes.c_double * max(n, 1))(*[float(v) for v in vals])
    v = FV(n, 1, ctypes.cast(buf, ctypes.POINTER(ctypes.c_double)), 0)
    v._buf = buf
    return v


def load_c(ck):
    L = ctypes.CDLL(str(ck.ov["cstat"]))
    UI = ctypes.POINTER(ctypes.c_uint)
    L.fff_permutation.argtypes = [UI, ctypes.c_uint, ctypes.c_ulong]
    L.fff_permutation.restype = None
    L.fff_combination.argtypes = [UI, ctypes.c_uint, ctypes.c_uint, ctypes.c_ulong]
    L.fff_combination.restype = None
    L.fff_onesample_permute_signs.argtypes = [ctypes.POINTER(FV), ctypes.POINTER(FV), ctypes.c_double]
    L.fff_onesample_permute_signs.restype = None
    L.fff_twosample_permutation.argtypes = [UI, UI, ctypes.c_uint, ctypes.c_uint, ctypes.POINTER(ctypes.c_double)]
    L.fff_twosample_permutation.restype = ctypes.c_uint
    PV = ctypes.POINTER(FV)
    L.fff_twosample_apply_permutation.argtypes = [PV, PV, PV, PV, PV, PV, ctypes.c_uint, UI, UI]
    L.fff_twosample_apply_permutation.restype = None
    L.fff_onesample_stat_new.argtypes = [ctypes.c_uint, ctypes.c_int, ctypes.c_double]
    L.fff_onesample_stat_new.restype = ctypes.c_void_p
    L.fff_onesample_stat_eval.argtypes = [ctypes.c_void_p, PV]
    L.fff_onesample_stat_eval.restype = ctypes.c_double
    L.fff_onesample_stat_delete.argtypes = [ctypes.c_void_p]
    L.fff_onesample_stat_delete.restype = None
    L.fff_twosample_stat_new.argtypes = [ctypes.c_uint, ctypes.c_uint, ctypes.c_int]
    L.fff_twosample_stat_new.restype = ctypes.c_void_p
    L.fff_twosample_stat_eval.argtypes = [ctypes.c_void_p, PV]
    L.fff_twosample_stat_eval.restype = ctypes.c_double
    L.fff_twosample_stat_delete.argtypes = [ctypes.c_void_p]
    L.fff_twosample_stat_delete.restype = None
    return L


def build_comb_wrapper(ck):
    """`_combinations` is static: compile a wrapper that #includes /repo's fff_gen_stats.c."""
    src = ck.scratch / "c17_wrap.c"
    src.write_text('#include "%s"\n'
                   'unsigned long verif_combinations(unsigned int k, unsigned int n) { return _combinations(k, n); }\n'
                   % (kit.REPO / "lib/fff/fff_gen_stats.c"))
    out = ck.scratch / "libc17wrap.so"
    cmd = ["gcc", "-shared", "-fPIC", "-O1", "-w", "-I", str(kit.REPO / "lib/fff"), "-I", str(kit.REPO / "lib/lapack_lite"),
           str(src), "-o", str(out), str(ck.ov["cstat"]), "-Wl,-rpath," + str(ck.ov["cstat"].parent), "-lm"]
    r = subprocess.run(cmd, capture_output=True, text=True)
    if r.returncode != 0:
        ck.fail("combinations/wrapper-build", "cannot compile the wrapper around static _combinations: %s" % r.stderr[-500:],
                {"kind": "correspondence-broken", "cmd": cmd}, found_input=False)
        return None
    W = ctypes.CDLL(str(out))
    W.verif_combinations.argtypes = [ctypes.c_uint, ctypes.c_uint]
    W.verif_combinations.restype = ctypes.c_ulong
    return W


def run_terms(ck, name, terms, metas, show, hdr=None, shard=400):
    """Evaluate model-vs-impl boolean terms; report the first disagreement."""
    if not (ck.build is not None and ck.build.ok) or not terms:
        return
    HDR = hdr or globals()["HDR"]
    res = ck.coq_bools(HDR, terms, shard=shard, name=name)
    ck.cov["traces_validated_against_impl"] += len(res)
    for ok, meta in zip(res, metas):
        if not ok:
            try:
                mv = ck.coq_show(HDR + "From NV.Lib Require Import Harness.\n", show(meta))
            except Exception as e:  # noqa
                mv = "(model value unavailable: %s)" % e
            ck.fail("%s/model-vs-impl" % name, "model and C disagree on %r; model value: %s" % (meta, mv[-400:]),
                    {"case": meta, "model": mv})
            break


# ---------------------------------------------------------------------------- permutation
def c_perm(L, n, magic):
    x = (ctypes.c_uint * (n + 16))()      # slack: a mutated C must not corrupt the heap
    L.fff_permutation(x, n, magic)
    return [int(v) for v in x[:n]]


def sec_permutation(ck, L):
    nmax = ck.n(6, 7)
    terms, metas = [], []
    for n in range(0, nmax + 1):
        f = math.factorial(n)
        seen = {}
        for m in range(f):
            p = c_perm(L, n, m)
            ck.count(("perm", n, m), nontrivial=n > 1, bucket="perm:exhaustive")
            if sorted(p) != list(range(n)):
                ck.fail("permutation/not-a-permutation", "fff_permutation(n=%d, magic=%d) = %s is not a permutation of 0..n-1" % (n, m, p),
                        {"n": n, "magic": m, "out": p})
            if m == 0 and p != list(range(n)):
                ck.fail("permutation/magic0-not-identity", "fff_permutation(n=%d, magic=0) = %s" % (n, p), {"n": n, "out": p})
            if tuple(p) in seen:
                ck.fail("permutation/not-injective", "fff_permutation(n=%d): magics %d and %d give the same %s" % (n, seen[tuple(p)], m, p),
                        {"n": n, "magic_a": seen[tuple(p)], "magic_b": m, "out": p})
            seen.setdefault(tuple(p), m)
            terms.append("natlist_eqb (fff_permutation %s %s) %s" % (cnat(n), cN(m), cnl(p)))
            metas.append(("perm", n, m, p))
        if len(seen) != f:
            ck.fail("permutation/not-surjective", "fff_permutation(n=%d) reaches %d of %d permutations" % (n, len(seen), f), {"n": n})
        # periodicity / magics beyond n!
        for m in [f, f + 1, 2 * f + 3, 2 ** 63 + 11, 2 ** 64 - 1]:
            p = c_perm(L, n, m)
            ck.count(("perm", n, m), nontrivial=n > 1, bucket="perm:beyond-n!")
            if sorted(p) != list(range(n)):
                ck.fail("permutation/not-a-permutation", "fff_permutation(n=%d, magic=%d) = %s" % (n, m, p), {"n": n, "magic": m, "out": p})
            if n > 0 and p != c_perm(L, n, m % f):
                ck.fail("permutation/not-periodic", "fff_permutation(n=%d, magic=%d) differs from magic mod n!" % (n, m), {"n": n, "magic": m})
            terms.append("natlist_eqb (fff_permutation %s %s) %s" % (cnat(n), cN(m), cnl(p)))
            metas.append(("perm", n, m, p))
    rng = ck.rng("perm")
    for _ in range(ck.n(120, 600)):
        n = int(rng.integers(8, 25))
        m = int(rng.integers(0, 2 ** 63)) * 2 + int(rng.integers(0, 2))
        if rng.random() < 0.3:
            m = int(rng.integers(0, 1000))
        p = c_perm(L, n, m)
        ck.count(("perm", n, m), bucket="perm:random-n8..24")
        if sorted(p) != list(range(n)):
            ck.fail("permutation/not-a-permutation", "fff_permutation(n=%d, magic=%d) = %s" % (n, m, p), {"n": n, "magic": m, "out": p})
        terms.append("natlist_eqb (fff_permutation %s %s) %s" % (cnat(n), cN(m), cnl(p)))
        metas.append(("perm", n, m, p))
    ck.sample({"call": "fff_permutation(x, 4, 7)", "out": c_perm(L, 4, 7)})
    run_terms(ck, "permutation", terms, metas, lambda t: "fff_permutation %s %s" % (cnat(t[1]), cN(t[2])))
    ck.section("permutation", exhaustive_n_max=nmax, model_cases=len(terms))


# ---------------------------------------------------------------------------- combinations
def c_comb(L, k, n, magic):
    x = (ctypes.c_uint * (k + 16))()
    L.fff_combination(x, k, n, magic)
    return [int(v) for v in x[:k]]


def unrank(n, k, m):
    """m-th k-subset of range(n) in lexicographic order (independent reference)."""
    out, i = [], 0
    while k > 0:
        c = math.comb(n - i - 1, k - 1)
        if m < c:
            out.append(i)
            k -= 1
        else:
            m -= c
        i += 1
    return out


def sec_combinations(ck, L, W):
    terms, metas = [], []
    # _combinations, wrap region included
    if W is not None:
        nmax = ck.n(70, 90)
        for n in range(0, nmax + 1):
            for k in range(0, n + 1):
                c = int(W.verif_combinations(k, n))
                ck.count(("ncomb", k, n), nontrivial=k > 0, bucket="_combinations:k<=n")
                exact = math.comb(n, k)
                nowrap = all(j * math.comb(n - k + j, j) < 2 ** 64 for j in range(1, k + 1))
                if nowrap and c != max(exact, 1):
                    ck.fail("combinations/not-binomial", "_combinations(k=%d, n=%d) = %d, C(n,k) = %d (no 64-bit wrap possible here)" % (k, n, c, exact),
                            {"k": k, "n": n, "out": c, "binomial": exact})
                terms.append("N.eqb (combinations_c %s %s) %s" % (cnat(k), cnat(n), cN(c)))
                metas.append(("ncomb", k, n, c))
        for n in range(0, 5):
            for k in (n + 1, n + 2):
                c = int(W.verif_combinations(k, n))
                ck.count(("ncomb", k, n), bucket="_combinations:k>n")
                terms.append("N.eqb (combinations_c %s %s) %s" % (cnat(k), cnat(n), cN(c)))
                metas.append(("ncomb", k, n, c))
        ck.sample({"call": "_combinations(31, 63)", "out": int(W.verif_combinations(31, 63)), "binomial": math.comb(63, 31),
                   "note": "64-bit wrap, reproduced by the model"})
    # fff_combination, exhaustive
    for n in range(0, 11):
        for k in range(0, n + 1):
            tot = math.comb(n, k)
            ref = [list(c) for c in itertools.combinations(range(n), k)]
            seen = {}
            for m in list(range(tot)) + [tot, tot + 1, 3 * tot + 2]:
                x = c_comb(L, k, n, m)
                ck.count(("comb", k, n, m), nontrivial=0 < k < n, bucket="combination:exhaustive" if m < tot else "combination:beyond")
                ok_set = all(0 <= v < n for v in x) and all(a < b for a, b in zip(x, x[1:]))
                if not ok_set:
                    ck.fail("combination/not-increasing-subset", "fff_combination(k=%d, n=%d, magic=%d) = %s" % (k, n, m, x),
                            {"k": k, "n": n, "magic": m, "out": x})
                if x != ref[m % tot]:
                    ck.fail("combination/not-mth-lexicographic", "fff_combination(k=%d, n=%d, magic=%d) = %s, expected %s" % (k, n, m, x, ref[m % tot]),
                            {"k": k, "n": n, "magic": m, "out": x, "expected": ref[m % tot]})
                if m < tot:
                    if tuple(x) in seen:
                        ck.fail("combination/not-injective", "fff_combination(k=%d, n=%d): magics %d and %d both give %s" % (k, n, seen[tuple(x)], m, x),
                                {"k": k, "n": n, "magic_a": seen[tuple(x)], "magic_b": m})
                    seen.setdefault(tuple(x), m)
                terms.append("onl_eqb (fff_combination %s %s %s) (Some %s)" % (cnat(k), cnat(n), cN(m), cNl(x)))
                metas.append(("comb", k, n, m, x))
            if len(seen) != tot:
                ck.fail("combination/not-surjective", "fff_combination(k=%d, n=%d) reaches %d of %d subsets" % (k, n, len(seen), tot), {"k": k, "n": n})
    rng = ck.rng("comb")
    for _ in range(ck.n(150, 800)):
        n = int(rng.integers(11, 59))
        k = int(rng.integers(0, n + 1))
        m = int(rng.integers(0, 2 ** 63)) * 2 + int(rng.integers(0, 2))
        x = c_comb(L, k, n, m)
        ck.count(("comb", k, n, m), bucket="combination:random-n11..58")
        exp = unrank(n, k, m % math.comb(n, k))
        if x != exp:
            ck.fail("combination/not-mth-lexicographic", "fff_combination(k=%d, n=%d, magic=%d) = %s, expected %s" % (k, n, m, x, exp),
                    {"k": k, "n": n, "magic": m, "out": x, "expected": exp})
        terms.append("onl_eqb (fff_combination %s %s %s) (Some %s)" % (cnat(k), cnat(n), cN(m), cNl(x)))
        metas.append(("comb", k, n, m, x))
    ck.sample({"call": "fff_combination(x, 2, 4, 4)", "out": c_comb(L, 2, 4, 4)})

    def show(t):
        if t[0] == "ncomb":
            return "combinations_c %s %s" % (cnat(t[1]), cnat(t[2]))
        return "fff_combination %s %s %s" % (cnat(t[1]), cnat(t[2]), cN(t[3]))
    run_terms(ck, "combination", terms, metas, show)
    ck.section("combinations", model_cases=len(terms), static_wrapper=W is not None)


# ---------------------------------------------------------------------------- sign flips
def c_signs(L, xs, magic):
    x = fvec(xs)
    xx = fvec([0.0] * len(xs))
    L.fff_onesample_permute_signs(ctypes.byref(xx), ctypes.byref(x), float(magic))
    return [float(v) for v in xx._buf[:len(xs)]]


def sec_signs(ck, L):
    terms, metas = [], []
    TWO32, TWO53 = 2 ** 32, 2 ** 53

    def one(n, magic, bucket, check_bits):
        """magic: int (exact as a double: |magic| <= 2^53 or explicitly a multiple of a large power of 2) or float."""
        xs = [float(i + 1) for i in range(n)]
        if isinstance(magic, int):
            assert int(float(magic)) == magic, magic        # exactly representable
        out = c_signs(L, xs, magic)
        ck.count(("sign", n, magic), bucket=bucket)
        if any(o != v and o != -v for o, v in zip(out, xs)):
            ck.fail("permute_signs/not-plus-minus-x", "permute_signs(n=%d, magic=%r) changed a magnitude: %s" % (n, magic, out),
                    {"n": n, "magic": magic, "out": out})
        flags = [o == -v for o, v in zip(out, xs)]
        if check_bits:
            bits = [bool((int(magic) >> i) & 1) for i in range(n)]       # two's complement digits for negative magics
            if flags != bits:
                if abs(int(magic)) >= TWO32:
                    # the defect repaired by 6262c59 (FFF_FLOOR's int cast) - must be reported if it returns
                    ck.fail("permute_signs/magic>=2^32-int-cast-overflow",
                            "fff_onesample_permute_signs(n=%d, magic=%d) flips %s instead of the binary digits %s: "
                            "sign flips are not a bijection on [0,2^n) for n >= 33" % (n, magic, flags, bits),
                            {"n": n, "magic": magic, "flips": flags, "binary_digits": bits})
                else:
                    ck.fail("permute_signs/not-binary-digits", "permute_signs(n=%d, magic=%d) flips %s, binary digits are %s" % (n, magic, flags, bits),
                            {"n": n, "magic": magic, "flips": flags})
        terms.append("bl_eqb (sign_flags %s %s) [%s]" % (cnat(n), cq(float(magic)), "; ".join(cbool(f) for f in flags)))
        metas.append(("sign", n, magic, flags))
        return tuple(flags)

    for n in range(1, 11):
        seen = {}
        for m in range(2 ** n):
            f = one(n, m, "signs:exhaustive", True)
            if f in seen:
                ck.fail("permute_signs/not-injective", "permute_signs(n=%d): magics %d and %d give the same pattern" % (n, seen[f], m),
                        {"n": n, "magic_a": seen[f], "magic_b": m})
            seen.setdefault(f, m)
        if len(seen) != 2 ** n:
            ck.fail("permute_signs/not-surjective", "n=%d: %d of %d patterns" % (n, len(seen), 2 ** n), {"n": n})
    rng = ck.rng("signs")
    for n in (20, 31, 32):
        for _ in range(ck.n(30, 150)):
            m = int(rng.integers(0, 2 ** n))
            one(n, m, "signs:random-n%d" % n, True)
        one(n, 2 ** n - 1, "signs:random-n%d" % n, True)
        one(n, 2 ** (n - 1), "signs:random-n%d" % n, True)
    # n = 33..53: every magic of [0,2^n) is an exact double; boundary magics for every n, a full low-bit block
    # on top of a high offset, and random magics >= 2^32; sampled magics must give pairwise distinct patterns
    for n in range(33, 54):
        seen = {}
        ms = [TWO32 - 1, TWO32, TWO32 + 2, TWO32 + 5, 2 ** 33 - 1, 2 ** (n - 1), 2 ** (n - 1) + 12, 2 ** n - 1, 2 ** n - 2]
        ms += [int(rng.integers(TWO32, 2 ** n)) for _ in range(ck.n(12, 60))]
        if n in (33, 40, 53):
            hi = int(rng.integers(1, 2 ** (n - 32))) << 32                    # exhaustive in the 6 low bits above a >=2^32 offset
            ms += [hi + lo for lo in range(64)]
        for m in ms:
            if not (0 <= m < 2 ** n):
                continue
            f = one(n, m, "signs:n33..53-magic>=2^32" if m >= TWO32 else "signs:n33..53", True)
            if f in seen and seen[f] != m:
                ck.fail("permute_signs/magic>=2^32-int-cast-overflow",
                        "fff_onesample_permute_signs(n=%d): distinct magics %d and %d give the same sign pattern" % (n, seen[f], m),
                        {"n": n, "magic": m, "colliding_magic": seen[f]})
            seen.setdefault(f, m)
    # beyond the bijection range: even integers >= 2^53 (exact doubles), n up to 64
    for n, m in [(56, 2 ** 53), (56, 2 ** 53 + 2), (60, 2 ** 59 + 2 ** 20), (64, 2 ** 63), (64, 2 ** 63 + 2 ** 11), (64, 2 ** 64 - 2 ** 11)]:
        one(n, m, "signs:magic>=2^53", True)
    # negative integers: two's complement digits; non-integer magics (what np.random.uniform feeds): model only
    for magic in [-1, -2, -6, -255, -(2 ** 33) - 3]:
        one(36, magic, "signs:negative-integer", True)
    for magic in [0.5, 2.5, 7.25, 1023.75, -1.0, -2.5, -6.0, 0.1, 3.3, 2.0 ** 40 + 0.5, 2.0 ** 33 + 1.25, 1e-3, -7.75]:
        one(8 if abs(magic) < 1e6 else 44, magic, "signs:non-integer-or-negative", False)
    for _ in range(ck.n(40, 200)):
        n = int(rng.integers(2, 50))
        magic = float(rng.uniform(1.0, 2.0 ** n))                            # permutation_test.calibrate: np.random.uniform(max_nperms, size=nperms)
        one(n, magic, "signs:uniform-float-magic", False)
    ck.sample({"call": "permute_signs(x=[1..4], magic=5)", "out": c_signs(L, [1, 2, 3, 4], 5)})
    run_terms(ck, "permute_signs", terms, metas, lambda t: "sign_flags %s %s" % (cnat(t[1]), cq(float(t[2]))))
    ck.section("signs", model_cases=len(terms))


# ---------------------------------------------------------------------------- two-sample permutations
def c_ts_perm(L, n1, n2, magic, count=False):
    mg = ctypes.c_double(float(magic))
    if count:
        i = L.fff_twosample_permutation(None, None, n1, n2, ctypes.byref(mg))
        return int(i), mg.value, None, None
    a = (ctypes.c_uint * (n1 + 16))()
    b = (ctypes.c_uint * (n2 + 16))()
    i = int(L.fff_twosample_permutation(a, b, n1, n2, ctypes.byref(mg)))
    return i, mg.value, [int(v) for v in a[:i]], [int(v) for v in b[:i]]


def c_ts_apply(L, x1, x2, i, idx1, idx2):
    v1, v2 = fvec(x1), fvec(x2)
    px = fvec([0.0] * (len(x1) + len(x2)))
    a = (ctypes.c_uint * max(len(idx1), 1))(*idx1)
    b = (ctypes.c_uint * max(len(idx2), 1))(*idx2)
    L.fff_twosample_apply_permutation(ctypes.byref(px), None, ctypes.byref(v1), None, ctypes.byref(v2), None, i, a, b)
    return [float(v) for v in px._buf[:len(x1) + len(x2)]]


def c_ts_apply_mfx(L, x1, x2, w1, w2, i, idx1, idx2):
    """apply_permutation with first-level variances: returns (px, pv)"""
    q1, q2, r1, r2 = fvec(x1), fvec(x2), fvec(w1), fvec(w2)
    n = len(x1) + len(x2)
    px, pv = fvec([0.0] * n), fvec([0.0] * n)
    a = (ctypes.c_uint * (len(idx1) + 16))(*idx1)
    b = (ctypes.c_uint * (len(idx2) + 16))(*idx2)
    L.fff_twosample_apply_permutation(ctypes.byref(px), ctypes.byref(pv), ctypes.byref(q1), ctypes.byref(r1), ctypes.byref(q2), ctypes.byref(r2), i, a, b)
    return [float(v) for v in px._buf[:n]], [float(v) for v in pv._buf[:n]]


def sec_twosample(ck, L):
    terms, metas = [], []
    smax = ck.n(8, 10)
    for s in range(2, smax + 1):
        for n1 in range(1, s):
            n2 = s - n1
            i0, tot, _, _ = c_ts_perm(L, n1, n2, 0.0, count=True)
            ck.count(("tscount", n1, n2), bucket="twosample:count")
            if i0 != 0 or tot != math.comb(s, n1):
                ck.fail("twosample/count-not-binomial", "count_permutations(%d, %d) = %r, C(n1+n2, n1) = %d" % (n1, n2, tot, math.comb(s, n1)),
                        {"n1": n1, "n2": n2, "out": tot})
            terms.append("N.eqb (ts_count %s %s) %s" % (cnat(n1), cnat(n2), cN(int(tot))))
            metas.append(("tscount", n1, n2, tot))
            total = math.comb(s, n1)
            x1 = list(range(n1))
            x2 = list(range(n1, s))
            seen = {}
            for m in range(total + 2):
                i, mg, a, b = c_ts_perm(L, n1, n2, m)
                ck.count(("ts", n1, n2, m), bucket="twosample:exhaustive" if m < total else "twosample:beyond")
                if m >= total:
                    if i != 0 or mg != total:
                        ck.fail("twosample/out-of-range-magic", "fff_twosample_permutation(%d,%d, magic=%d) returned i=%d magic=%r" % (n1, n2, m, i, mg),
                                {"n1": n1, "n2": n2, "magic": m})
                    terms.append("ts_eqb (fff_twosample_permutation %s %s false %s) (TsCount %s)" % (cnat(n1), cnat(n2), cN(m), cN(int(mg))))
                    metas.append(("ts", n1, n2, m, "count"))
                    continue
                valid = (len(a) == i and len(b) == i and all(0 <= v < n1 for v in a) and all(0 <= v < n2 for v in b)
                         and all(p < q for p, q in zip(a, a[1:])) and all(p < q for p, q in zip(b, b[1:])))
                if not valid:
                    ck.fail("twosample/invalid-exchange", "fff_twosample_permutation(%d,%d, magic=%d): i=%d idx1=%s idx2=%s" % (n1, n2, m, i, a, b),
                            {"n1": n1, "n2": n2, "magic": m, "i": i, "idx1": a, "idx2": b})
                    continue
                px = c_ts_apply(L, x1, x2, i, a, b)
                g1 = frozenset(int(v) for v in px[:n1])
                if sorted(int(v) for v in px) != list(range(s)) or len(g1) != n1:
                    ck.fail("twosample/apply-not-a-relabelling", "apply_permutation(%d,%d, i=%d, %s, %s) = %s" % (n1, n2, i, a, b, px),
                            {"n1": n1, "n2": n2, "magic": m, "px": px})
                if m == 0 and [int(v) for v in px] != list(range(s)):
                    ck.fail("twosample/magic0-not-identity", "magic 0 relabels: %s" % px, {"n1": n1, "n2": n2, "px": px})
                if g1 in seen:
                    ck.fail("twosample/relabelling-repeated", "n1=%d n2=%d: magics %d and %d give the same group-1 set %s" % (n1, n2, seen[g1], m, sorted(g1)),
                            {"n1": n1, "n2": n2, "magic_a": seen[g1], "magic_b": m, "group1": sorted(g1)})
                seen.setdefault(g1, m)
                terms.append("ts_eqb (fff_twosample_permutation %s %s false %s) (TsPerm %s (Some %s) (Some %s))"
                             % (cnat(n1), cnat(n2), cN(m), cnat(i), cNl(a), cNl(b)))
                metas.append(("ts", n1, n2, m, (i, a, b)))
                terms.append("natlist_eqb (fff_twosample_apply_permutation 0%%nat %s %s %s %s) %s"
                             % (cnl(x1), cnl(x2), cNl(a), cNl(b), cnl([int(v) for v in px])))
                metas.append(("tsapply", x1, x2, a, b))
                # mixed-effects form: every subject has its OWN first-level variance (100 + label); the variance
                # vector must undergo the same relabelling as the data, i.e. variances travel with their subjects
                w1 = [100 + v for v in x1]
                w2 = [100 + v for v in x2]
                px2, pv2 = c_ts_apply_mfx(L, x1, x2, w1, w2, i, a, b)
                ck.count(("ts-mfx-apply", n1, n2, m), bucket="twosample:apply-with-variances")
                if px2 != px or [v - 100 for v in pv2] != px:
                    ck.fail("twosample/apply-variances-do-not-follow-subjects",
                            "apply_permutation(n1=%d, n2=%d, i=%d, idx1=%s, idx2=%s) with per-subject variances 100+label: data %s, variances %s"
                            % (n1, n2, i, a, b, px2, pv2),
                            {"n1": n1, "n2": n2, "magic": m, "i": i, "idx1": a, "idx2": b, "x1": x1, "x2": x2, "v1": w1, "v2": w2, "px": px2, "pv": pv2})
                terms.append("natlist_eqb (fff_twosample_apply_permutation 0%%nat %s %s %s %s) %s"
                             % (cnl(w1), cnl(w2), cNl(a), cNl(b), cnl([int(v) for v in pv2])))
                metas.append(("tsapply", w1, w2, a, b))
            if len(seen) != total:
                ck.fail("twosample/relabelling-missing", "n1=%d n2=%d: %d of %d relabellings reached" % (n1, n2, len(seen), total), {"n1": n1, "n2": n2})
    # larger groups, random magics, count mode
    rng = ck.rng("ts")
    for _ in range(ck.n(60, 300)):
        n1 = int(rng.integers(5, 21))
        n2 = int(rng.integers(5, 21))
        total = math.comb(n1 + n2, n1)
        m = int(rng.integers(0, total))
        i, mg, a, b = c_ts_perm(L, n1, n2, m)
        ck.count(("ts", n1, n2, m), bucket="twosample:random-n5..20")
        terms.append("ts_eqb (fff_twosample_permutation %s %s false %s) (TsPerm %s (Some %s) (Some %s))"
                     % (cnat(n1), cnat(n2), cN(m), cnat(i), cNl(a), cNl(b)))
        metas.append(("ts", n1, n2, m, (i, a, b)))
        _, tot, _, _ = c_ts_perm(L, n1, n2, 0.0, count=True)
        if tot != total:
            ck.fail("twosample/count-not-binomial", "count_permutations(%d, %d) = %r != %d" % (n1, n2, tot, total), {"n1": n1, "n2": n2, "out": tot})
    ck.sample({"call": "fff_twosample_permutation(n1=2, n2=3, magic=9)", "out": c_ts_perm(L, 2, 3, 9)[2:], "i": c_ts_perm(L, 2, 3, 9)[0]})

    def show(t):
        if t[0] == "tscount":
            return "ts_count %s %s" % (cnat(t[1]), cnat(t[2]))
        if t[0] == "ts":
            return "fff_twosample_permutation %s %s false %s" % (cnat(t[1]), cnat(t[2]), cN(t[3]))
        return "fff_twosample_apply_permutation 0%%nat %s %s %s %s" % (cnl(t[1]), cnl(t[2]), cNl(t[3]), cNl(t[4]))
    run_terms(ck, "twosample", terms, metas, show)
    ck.section("twosample", n1_plus_n2_max=smax, model_cases=len(terms))


# ---------------------------------------------------------------------------- statistics
OS = {"mean": 0, "student": 2, "sign": 5, "wilcoxon": 6}
TS = {"student": 2, "wilcoxon": 6}


def c_os(L, flag, xs, base):
    st = L.fff_onesample_stat_new(len(xs), flag, float(base))
    v = fvec(xs)
    t = L.fff_onesample_stat_eval(st, ctypes.byref(v))
    L.fff_onesample_stat_delete(st)
    return float(t)


def c_ts(L, flag, x1, x2):
    st = L.fff_twosample_stat_new(len(x1), len(x2), flag)
    v = fvec(list(x1) + list(x2))
    t = L.fff_twosample_stat_eval(st, ctypes.byref(v))
    L.fff_twosample_stat_delete(st)
    return float(t)


def sgn(v):
    return (v > 0) - (v < 0)


def ref_os(name, xs, base):
    xs = [frac(v) for v in xs]
    b = frac(base)
    n = len(xs)
    if name == "mean":
        return sum(xs) / n - b
    if name == "sign":
        return Fraction(sum(sgn(v - b) for v in xs), n)
    if name == "wilcoxon":
        r = sorted((v - b for v in xs), key=abs)
        return Fraction(sum((i + 1) * sgn(v) for i, v in enumerate(r)), 1) / (n * n)
    raise KeyError(name)


def sec_stats(ck, L):
    rng = ck.rng("stats")
    terms, metas = [], []
    N = ck.n(120, 600)
    for it in range(N):
        n = int(rng.integers(2, 41))
        pow2 = it % 2 == 0
        if pow2:
            n = int(2 ** rng.integers(1, 6))
        base = float(rng.integers(-3, 4)) / 2 if it % 3 else 0.0
        # distinct absolute residuals (the C qsort leaves the order of equal |r| unspecified), zeros allowed once
        mags = rng.permutation(np.arange(1, 4 * n))[:n]
        res = [float(m) / 4 * (1 if rng.random() < 0.6 else -1) for m in mags]
        if it % 5 == 0:
            res[0] = 0.0
        xs = [base + r for r in res]
        for name in ("mean", "sign", "wilcoxon"):
            t = c_os(L, OS[name], xs, base)
            ck.count(("os", name, tuple(xs), base), bucket="onesample:%s" % name)
            ref = ref_os(name, xs, base)
            if float(ref) != t:
                ck.fail("onesample/%s-not-definition" % name, "%s(x, base=%r) = %r, definition gives %s (n=%d)" % (name, base, t, ref, n),
                        {"stat": name, "x": xs, "base": base, "out": t, "expected": str(ref)})
            tf = c_os(L, OS[name], [-v for v in xs], -base)
            if tf != -t and not (tf == 0 and t == 0):
                ck.fail("onesample/%s-not-antisymmetric" % name, "%s(-x, -base) = %r but %s(x, base) = %r" % (name, tf, name, t),
                        {"stat": name, "x": xs, "base": base})
            if pow2 and n <= 16:
                model = {"mean": "os_mean", "sign": "os_sign_stat", "wilcoxon": "os_wilcoxon"}[name]
                terms.append("Qeq_bool (%s %s %s) %s" % (model, cql(xs), cq(base), cq(t)))
                metas.append(("os", model, xs, base, t))
        # student: through sqrt -> tolerance
        t = c_os(L, OS["student"], xs, base)
        ck.count(("os", "student", tuple(xs), base), bucket="onesample:student")
        fx = [frac(v) for v in xs]
        m = sum(fx) / n
        ssd = sum((v - m) ** 2 for v in fx)
        if ssd > 0:
            ref = math.sqrt(n - 1) * float(m - frac(base)) / math.sqrt(float(ssd / n))
            if abs(ref - t) > 1e-12 * max(1.0, abs(ref)):
                ck.fail("onesample/student-not-definition", "student(x, base=%r) = %r, definition sqrt(n-1)(m-base)/sqrt(ssd/n) = %r" % (base, t, ref),
                        {"x": xs, "base": base, "out": t, "expected": ref})
        tf = c_os(L, OS["student"], [-v for v in xs], -base)
        if abs(tf + t) > 1e-12 * max(1.0, abs(t)):
            ck.fail("onesample/student-not-antisymmetric", "student(-x,-base) = %r, student(x,base) = %r" % (tf, t), {"x": xs, "base": base})
        # two-sample
        n1 = int(rng.integers(2, 13))
        n2 = int(2 ** rng.integers(1, 4)) if pow2 else int(rng.integers(2, 13))
        vals = rng.permutation(np.arange(-20, 21))[:n1 + n2]
        x1 = [float(v) / 2 for v in vals[:n1]]
        x2 = [float(v) / 2 for v in vals[n1:]]
        if it % 4 == 0:
            x2[0] = x1[0]
        w = c_ts(L, TS["wilcoxon"], x1, x2)
        ck.count(("ts", "wilcoxon", tuple(x1), tuple(x2)), bucket="twosample:wilcoxon")
        acc = 0.0
        for a in x1:
            acc += sum(sgn(a - b) for b in x2) / float(n2)
        if acc != w:
            ck.fail("twosample/wilcoxon-not-definition", "wilcoxon(x1,x2) = %r, definition = %r" % (w, acc), {"x1": x1, "x2": x2, "out": w})
        if pow2:
            terms.append("Qeq_bool (ts_wilcoxon %s %s) %s" % (cql(x1), cql(x2), cq(w)))
            metas.append(("tsw", "ts_wilcoxon", x1, x2, w))
        if n1 == n2:
            ws = c_ts(L, TS["wilcoxon"], x2, x1)
            if abs(ws + w) > 1e-12 * max(1.0, abs(w)):
                ck.fail("twosample/wilcoxon-label-swap", "wilcoxon(x2,x1) = %r, wilcoxon(x1,x2) = %r" % (ws, w), {"x1": x1, "x2": x2})
        t2 = c_ts(L, TS["student"], x1, x2)
        ck.count(("ts", "student", tuple(x1), tuple(x2)), bucket="twosample:student")
        f1 = [frac(v) for v in x1]
        f2 = [frac(v) for v in x2]
        m1, m2 = sum(f1) / n1, sum(f2) / n2
        ss = sum((v - m1) ** 2 for v in f1) + sum((v - m2) ** 2 for v in f2)
        ref = float(m1 - m2) / math.sqrt(float(ss / max(n1 + n2 - 2, 1)))
        if abs(ref - t2) > 1e-12 * max(1.0, abs(ref)):
            ck.fail("twosample/student-not-definition", "student(x1,x2) = %r, definition = %r" % (t2, ref), {"x1": x1, "x2": x2, "out": t2})
        t2s = c_ts(L, TS["student"], x2, x1)
        if abs(t2s + t2) > 1e-12 * max(1.0, abs(t2)):
            ck.fail("twosample/student-label-swap", "student(x2,x1) = %r, student(x1,x2) = %r" % (t2s, t2), {"x1": x1, "x2": x2})

    def show(t):
        if t[0] == "os":
            return "Qred (%s %s %s)" % (t[1], cql(t[2]), cq(t[3]))
        return "Qred (ts_wilcoxon %s %s)" % (cql(t[2]), cql(t[3]))
    run_terms(ck, "stats", terms, metas, show)
    ck.section("stats", cases=N, model_cases=len(terms),
               note="exact model comparison on samples whose size is a power of two (single exact division); "
                    "Wilcoxon on samples with pairwise distinct |x-base| (qsort tie order unspecified)")


# ---------------------------------------------------------------------------- p-values on the real Python
def sec_pvalues(ck):
    try:
        from nipy.labs.group import permutation_test as PT
    except Exception as e:  # noqa
        ck.note("permutation_test not importable: %s" % e)
        ck.fail("pvalues/import", "nipy.labs.group.permutation_test cannot be imported: %s" % e, {"kind": "correspondence-broken"}, found_input=False)
        return
    terms, metas = [], []
    rng = ck.rng("pv")

    class Dummy(PT.permutation_test):
        pass
    zero_case = None
    for it in range(ck.n(60, 300)):
        nd = int(rng.integers(1, 12))
        draws = np.sort(rng.integers(-6, 7, size=nd).astype(float) / 2)
        T = rng.integers(-8, 9, size=4).astype(float) / 2
        obj = Dummy()
        obj.random_Tvalues = draws
        obj.ndraws = nd
        obj.Tvalues = T
        p = np.asarray(obj.pvalue(), dtype=float)
        for t, pv in zip(T.tolist(), p.tolist()):
            ck.count(("pv", tuple(draws.tolist()), t), bucket="pvalue")
            if not (0.0 <= pv <= 1.0):
                ck.fail("pvalue/outside-unit-interval", "pvalue(T=%r | draws=%s) = %r" % (t, draws.tolist(), pv), {"draws": draws.tolist(), "T": t, "p": pv})
            if pv == 0.0 and zero_case is None:
                zero_case = (draws.tolist(), t)
            ref = 1 - Fraction(int(np.sum(draws < t)), nd)
            if abs(float(ref) - pv) > 1e-15:
                ck.fail("pvalue/not-formula", "pvalue(T=%r | draws=%s) = %r, 1 - #{draws<T}/ndraws = %s" % (t, draws.tolist(), pv, ref),
                        {"draws": draws.tolist(), "T": t, "p": pv})
            if nd in (1, 2, 4, 8):
                terms.append("Qeq_bool (p_searchsorted %s %s) %s" % (cql(draws.tolist()), cq(t), cq(pv)))
                metas.append(("pv", draws.tolist(), t, pv))
    if zero_case is not None:
        ck.fail("pvalue/identity-not-among-draws",
                "permutation_test.pvalue(T=%r) with random_Tvalues=%s is exactly 0: the observed statistic (identity relabelling) is not among the draws"
                % (zero_case[1], zero_case[0]), {"draws": zero_case[0], "T": zero_case[1], "p": 0.0})
    # calibrate on the real class (installed onesample glue = stale fallback; Python logic from /repo)
    try:
        found = None
        for seed in range(12):
            np.random.seed(seed)
            data = np.array([[1.0, 2.0, 1.5], [2.0, 1.0, 2.5], [3.0, 2.5, 1.0], [4.0, 3.0, 2.0]])
            XYZ = np.array([[0, 1, 2], [0, 0, 0], [0, 0, 0]])
            pt = PT.permutation_test_onesample(data, XYZ, ndraws=10, stat_id="student")
            res = pt.calibrate(nperms=None, clusters=None, regions=None)[0]
            pv = np.asarray(res["p_values"], dtype=float)
            ck.count(("calibrate", seed), bucket="calibrate")
            if np.any(pv < 0) or np.any(pv > 1):
                ck.fail("calibrate/outside-unit-interval", "calibrate p_values %s (np.random.seed(%d))" % (pv.tolist(), seed), {"seed": seed, "p": pv.tolist()})
            if found is None and np.any(pv == 0.0):
                found = (seed, pv.tolist())
        if found is not None:
            ck.fail("calibrate/identity-not-among-draws",
                    "permutation_test_onesample(4 subjects x 3 voxels, all positive).calibrate(nperms=None) with np.random.seed(%d) "
                    "returns p_values %s: exactly 0 although all 2^4 magics are 'enumerated' (signs are drawn with np.random.randint, "
                    "the magic numbers are not used)" % found, {"seed": found[0], "p_values": found[1]})
    except Exception as e:  # noqa
        ck.note("calibrate run failed: %s: %s" % (type(e).__name__, e))

    run_terms(ck, "pvalues", terms, metas, lambda t: "Qred (p_searchsorted %s %s)" % (cql(t[1]), cq(t[2])))
    ck.section("pvalues", model_cases=len(terms), glue="nipy.labs.group.onesample/twosample: installed-fallback (stale); Python from /repo")


# ---------------------------------------------------------------------------- nipy.algorithms.statistics (oracles only)
def sec_python_stats(ck):
    try:
        from nipy.algorithms.statistics import onesample as OSM
    except Exception as e:  # noqa
        ck.note("algorithms.statistics.onesample not importable: %s" % e)
        return
    rng = ck.rng("pystats")
    terms, metas = [], []
    for it in range(ck.n(80, 400)):
        n = int(rng.integers(3, 12))
        p = int(rng.integers(1, 4))
        Y = rng.integers(-8, 9, size=(n, p)).astype(float)
        sd = 2.0 ** rng.integers(-1, 2, size=(n, p)).astype(float)      # 1/sd^2 exact
        sdclass = ("positive", "some-zero", "some-negative", "scalar", "1-D")[it % 5]
        if sdclass == "some-zero":                                       # zero weight subjects (pos_recipr(0) = 0)
            for j in range(p):
                idx = rng.choice(n, size=int(rng.integers(1, n - 1)), replace=False)
                sd[idx, j] = 0.0
        elif sdclass == "some-negative":                                 # sd enters squared
            sd = sd * rng.choice([-1.0, 1.0], size=sd.shape)
        Yarg, sdarg = Y.copy(), sd.copy()
        if sdclass == "scalar":
            sd[:] = float(2.0 ** rng.integers(-1, 2))
            sdarg = np.array(sd[0, 0])
        elif sdclass == "1-D":
            Yarg, sdarg = Y[:, 0].copy(), sd[:, 0].copy()
            p = 1
        out = OSM.estimate_mean(Yarg, sdarg)
        ck.count(("estimate_mean", it), bucket="estimate_mean:sd-%s" % sdclass)
        for j in range(p):
            W = [(1 / frac(s) ** 2 if frac(s) ** 2 > 0 else Fraction(0)) for s in sd[:, j]]
            y = [frac(v) for v in Y[:, j]]
            eff = sum(a * w for a, w in zip(y, W)) / sum(W)
            scale2 = sum(w * (a - eff) ** 2 for a, w in zip(y, W)) / (n - 1)
            var_total = scale2 / sum(W)
            got = float(np.asarray(out["effect"]).reshape(-1)[j])
            gscale = float(np.asarray(out["scale"]).reshape(-1)[j])
            gsd = float(np.asarray(out["sd"]).reshape(-1)[j])
            gt = float(np.asarray(out["t"]).reshape(-1)[j])
            rep = {"Y": Y[:, j].tolist(), "sd": sd[:, j].tolist(), "sd_class": sdclass,
                   "out": {"effect": got, "scale": gscale, "sd": gsd, "t": gt},
                   "expected": {"effect": float(eff), "scale": math.sqrt(float(scale2)), "sd": math.sqrt(float(var_total))}}
            if abs(got - float(eff)) > 1e-12 * max(1.0, abs(float(eff))):
                ck.fail("estimate_mean/effect-not-weighted-mean", "estimate_mean effect %r, weighted mean %s (sd %s)" % (got, eff, sdclass), rep)
            if abs(gscale - math.sqrt(float(scale2))) > 1e-12 * max(1.0, gscale):
                ck.fail("estimate_mean/scale-not-definition/sd-%s" % ("with-zero-weight" if sdclass == "some-zero" else "positive"),
                        "estimate_mean scale %r, sqrt(sum W (Y-effect)^2 / (nsubject-1)) = %r (sd %s)" % (gscale, math.sqrt(float(scale2)), sdclass), rep)
            if abs(gsd - math.sqrt(float(var_total))) > 1e-12 * max(1.0, gsd):
                ck.fail("estimate_mean/sd-not-definition/sd-%s" % ("with-zero-weight" if sdclass == "some-zero" else "positive"),
                        "estimate_mean sd %r, sqrt(scale^2/sum W) = %r (sd %s)" % (gsd, math.sqrt(float(var_total)), sdclass), rep)
            if var_total > 0 and abs(gt - float(eff) / math.sqrt(float(var_total))) > 1e-10 * max(1.0, abs(gt)):
                ck.fail("estimate_mean/t-not-definition", "estimate_mean t %r, effect/sd = %r (sd %s)" % (gt, float(eff) / math.sqrt(float(var_total)), sdclass), rep)
            if n <= 7 and j == 0:
                terms.append("(qclose (em_effect %s %s) %s && qclose (em_scale2 %s %s) %s && qclose (em_var_total %s %s) %s)%%bool"
                             % (cql(Y[:, j].tolist()), cql(sd[:, j].tolist()), cq(got), cql(Y[:, j].tolist()), cql(sd[:, j].tolist()), cq(gscale * gscale),
                                cql(Y[:, j].tolist()), cql(sd[:, j].tolist()), cq(gsd * gsd)))
                metas.append(("estimate_mean", Y[:, j].tolist(), sd[:, j].tolist()))
        # antisymmetry: negating the data negates effect and t
        out2 = OSM.estimate_mean(-Yarg, sdarg)
        if not np.allclose(np.asarray(out2["effect"]), -np.asarray(out["effect"]), rtol=0, atol=1e-12):
            ck.fail("estimate_mean/not-antisymmetric", "estimate_mean(-Y) effect != -estimate_mean(Y) effect", {"Y": Y.tolist(), "sd": sd.tolist()})
    run_terms(ck, "estimate_mean", terms, metas,
              lambda t: "(Qred (em_effect %s %s), Qred (em_scale2 %s %s), Qred (em_var_total %s %s))" % ((cql(t[1]), cql(t[2])) * 3), hdr=HDR_MFX)
    ck.section("python_stats", model_cases=len(terms), note="estimate_mean re-computed with exact rationals and by the Coq model; sd classes: positive, with zeros "
               "(zero-weight subjects), negative entries, scalar, 1-D")


# ---------------------------------------------------------------------------- strided vectors / axis application / MFX statistics
class StatMfx(ctypes.Structure):      # fff_onesample_stat_mfx (lib/fff/fff_onesample_stat.h)
    _fields_ = [("flag", ctypes.c_int), ("base", ctypes.c_double), ("empirical", ctypes.c_int),
                ("niter", ctypes.c_uint), ("constraint", ctypes.c_uint),
                ("params", ctypes.c_void_p), ("compute_stat", ctypes.c_void_p)]


class TsStatMfx(ctypes.Structure):    # fff_twosample_stat_mfx (lib/fff/fff_twosample_stat.h)
    _fields_ = [("n1", ctypes.c_uint), ("n2", ctypes.c_uint), ("flag", ctypes.c_int), ("niter", ctypes.c_uint),
                ("params", ctypes.c_void_p), ("compute_stat", ctypes.c_void_p)]


OS_RFX = {"mean": 0, "median": 1, "student": 2, "laplace": 3, "tukey": 4, "sign": 5, "wilcoxon": 6, "elr": 7, "grubb": 8}
OS_MFX = {"mean_mfx": 10, "median_mfx": 11, "student_mfx": 12, "sign_mfx": 15, "wilcoxon_mfx": 16, "elr_mfx": 17, "mean_gauss_mfx": 19}


def load_mfx(L):
    PV = ctypes.POINTER(FV)
    L.fff_onesample_stat_mfx_new.argtypes = [ctypes.c_uint, ctypes.c_int, ctypes.c_double]
    L.fff_onesample_stat_mfx_new.restype = ctypes.POINTER(StatMfx)
    L.fff_onesample_stat_mfx_delete.argtypes = [ctypes.POINTER(StatMfx)]
    L.fff_onesample_stat_mfx_delete.restype = None
    L.fff_onesample_stat_mfx_eval.argtypes = [ctypes.POINTER(StatMfx), PV, PV]
    L.fff_onesample_stat_mfx_eval.restype = ctypes.c_double
    L.fff_onesample_stat_mfx_pdf_fit.argtypes = [PV, PV, ctypes.POINTER(StatMfx), PV, PV]
    L.fff_onesample_stat_mfx_pdf_fit.restype = None
    L.fff_onesample_stat_gmfx_pdf_fit.argtypes = [ctypes.POINTER(ctypes.c_double), ctypes.POINTER(ctypes.c_double), ctypes.POINTER(StatMfx), PV, PV]
    L.fff_onesample_stat_gmfx_pdf_fit.restype = None
    L.fff_twosample_stat_mfx_new.argtypes = [ctypes.c_uint, ctypes.c_uint, ctypes.c_int]
    L.fff_twosample_stat_mfx_new.restype = ctypes.POINTER(TsStatMfx)
    L.fff_twosample_stat_mfx_delete.argtypes = [ctypes.POINTER(TsStatMfx)]
    L.fff_twosample_stat_mfx_delete.restype = None
    L.fff_twosample_stat_mfx_eval.argtypes = [ctypes.POINTER(TsStatMfx), PV, PV]
    L.fff_twosample_stat_mfx_eval.restype = ctypes.c_double


def vview(a):
    """fff_vector view of a 1-D float64 numpy array (any positive stride), like fffpy's iterator views."""
    assert a.dtype == np.float64 and a.ndim == 1 and a.strides[0] > 0 and a.strides[0] % 8 == 0
    v = FV(a.size, a.strides[0] // 8, a.ctypes.data_as(ctypes.POINTER(ctypes.c_double)), 0)
    v._buf = a
    return v


def os_eval(L, flag, x, base=0.0):
    st = L.fff_onesample_stat_new(x.size, flag, float(base))
    t = L.fff_onesample_stat_eval(st, ctypes.byref(vview(x)))
    L.fff_onesample_stat_delete(st)
    return float(t)


def osm_eval(L, flag, x, v, base=0.0, niter=5):
    st = L.fff_onesample_stat_mfx_new(x.size, flag, float(base))
    st.contents.niter = niter
    t = L.fff_onesample_stat_mfx_eval(st, ctypes.byref(vview(x)), ctypes.byref(vview(v)))
    L.fff_onesample_stat_mfx_delete(st)
    return float(t)


def osm_pdf_fit(L, flag, x, v, niter):
    st = L.fff_onesample_stat_mfx_new(x.size, flag, 0.0)
    st.contents.niter = niter
    st.contents.constraint = 0
    w = np.zeros(x.size)
    z = np.zeros(x.size)
    L.fff_onesample_stat_mfx_pdf_fit(ctypes.byref(vview(w)), ctypes.byref(vview(z)), st, ctypes.byref(vview(x)), ctypes.byref(vview(v)))
    L.fff_onesample_stat_mfx_delete(st)
    return w, z


def same(a, b):
    return a == b or (a != a and b != b)


def strided_arrays(rng, n, gen):
    """Arrays holding the subject axis (length n) in every position and memory layout:
    C / Fortran order, 2-D and 3-D, and non-contiguous slices of a larger block.  Yields (array, axis, layout-name)."""
    out = []
    for nd in (2, 3):
        for axis in range(nd):
            for layout in ("C", "F", "sliced"):
                shape = [int(rng.integers(2, 4)) for _ in range(nd)]
                shape[axis] = n
                if layout == "sliced":
                    k = int(rng.integers(0, nd))
                    big = list(shape)
                    big[k] = 2 * shape[k] + 1
                    A = gen(tuple(big))
                    A = np.asarray(A, order="C" if rng.random() < 0.5 else "F")
                    sl = [slice(None)] * nd
                    sl[k] = slice(1, None, 2)
                    A = A[tuple(sl)]
                else:
                    A = np.array(gen(tuple(shape)), order=layout)
                out.append((A, axis, "%dD-%s-axis%d" % (nd, layout, axis)))
    return out


def fibres(A, axis):
    other = [range(s) for i, s in enumerate(A.shape) if i != axis]
    for idx in itertools.product(*other):
        full = list(idx)
        full.insert(axis, slice(None))
        yield tuple(full)


def sec_layout(ck, L):
    """Every statistic is applied independently along the requested axis: the value for one fibre must be the value
    of the same numbers held contiguously, whatever the strides of the data / variance / output vectors are.
    The calling sequences are those of onesample.pyx (stat, stat_mfx) and twosample.pyx (stat, stat_mfx):
    strided iterator views, a contiguous sign-flipped / permuted work vector."""
    rng = ck.rng("layout")
    ncase = 0

    def gen_y(shape):
        return rng.integers(-12, 13, size=shape).astype(float) / 4 + rng.integers(0, 2, size=shape) * 0.125

    def gen_v(shape):
        return rng.integers(1, 17, size=shape).astype(float) / 8

    for n in ([4, 7] if not ck.thorough() else [3, 4, 7, 10]):
        ys = strided_arrays(rng, n, gen_y)
        for (Y, axis, lay) in ys:
            V = np.empty(Y.shape)                                  # variance array with ITS OWN layout (independent of Y's)
            Vsrc = [a for (a, ax, _) in strided_arrays(rng, n, gen_v) if ax == axis and a.ndim == Y.ndim]
            Vfull = None
            for cand in Vsrc:
                if cand.shape == Y.shape:
                    Vfull = cand
                    break
            if Vfull is None:                                      # same shape, other order than Y
                Vfull = np.array(gen_v(Y.shape), order="F" if Y.flags["C_CONTIGUOUS"] else "C")
            V = Vfull
            for fi, idx in enumerate(fibres(Y, axis)):
                if fi >= 3:
                    break
                y = Y[idx]
                v = V[idx]
                yc = np.ascontiguousarray(y)
                vc = np.ascontiguousarray(v)
                magic = int(rng.integers(0, 2 ** n))
                sg = np.array([-1.0 if (magic >> i) & 1 else 1.0 for i in range(n)])
                # onesample.stat: yp = permute_signs(y strided) contiguous; eval(yp)
                yp = np.zeros(n)
                L.fff_onesample_permute_signs(ctypes.byref(vview(yp)), ctypes.byref(vview(y)), float(magic))
                ncase += 1
                ck.count(("layout", lay, n, fi, magic), bucket="layout:permute_signs")
                if not np.array_equal(yp, sg * yc):
                    ck.fail("layout/permute_signs/strided-input",
                            "fff_onesample_permute_signs on a strided view (%s, stride %d) gives %s, expected %s" % (lay, y.strides[0] // 8, yp.tolist(), (sg * yc).tolist()),
                            {"layout": lay, "stride": y.strides[0] // 8, "x": yc.tolist(), "magic": magic, "out": yp.tolist()})
                # strided OUTPUT vector as well
                outbig = np.zeros(3 * n)
                L.fff_onesample_permute_signs(ctypes.byref(vview(outbig[1::3][:n])), ctypes.byref(vview(y)), float(magic))
                if not np.array_equal(outbig[1::3][:n], sg * yc) or outbig[0::3].any() or outbig[2::3].any():
                    ck.fail("layout/permute_signs/strided-output", "fff_onesample_permute_signs into a stride-3 output writes %s" % outbig.tolist(),
                            {"layout": lay, "x": yc.tolist(), "magic": magic, "out": outbig.tolist()})
                for name, flag in OS_RFX.items():
                    base = 0.0 if fi % 2 == 0 else 0.5
                    ref = os_eval(L, flag, sg * yc, base)
                    got_seq = os_eval(L, flag, yp, base)
                    got_dir = os_eval(L, flag, y, base) if magic == 0 else os_eval(L, flag, Y[idx], base)
                    ref_dir = os_eval(L, flag, yc, base)
                    ck.count(("layout", "rfx", name, lay, n, fi), bucket="layout:onesample-rfx")
                    if not same(got_seq, ref) or not same(got_dir, ref_dir):
                        ck.fail("layout/onesample/%s/strided-data" % name,
                                "one-sample '%s' on a strided fibre (%s, stride %d) = %r, on the same numbers held contiguously = %r"
                                % (name, lay, y.strides[0] // 8, got_dir, ref_dir),
                                {"stat": name, "layout": lay, "stride": y.strides[0] // 8, "x": yc.tolist(), "base": base, "strided": got_dir, "contiguous": ref_dir})
                for name, flag in OS_MFX.items():
                    niter = 1 + (fi + ncase) % 4
                    base = 0.0
                    ref = osm_eval(L, flag, np.ascontiguousarray(yp), vc, base, niter)
                    combos = {"x-contiguous/var-strided": (yp, v),        # the .pyx calling sequence
                              "x-strided/var-contiguous": (Y[idx] if magic == 0 else None, vc),
                              "x-strided/var-strided": (Y[idx] if magic == 0 else None, v)}
                    refs0 = osm_eval(L, flag, yc, vc, base, niter)
                    for cname, (xa, va) in combos.items():
                        if xa is None:
                            xa, expect = y, refs0              # unflipped strided data
                        else:
                            expect = ref if xa is yp else refs0
                        got = osm_eval(L, flag, xa, va, base, niter)
                        ck.count(("layout", "mfx", name, cname, lay, n, fi), bucket="layout:onesample-mfx")
                        if not same(got, expect):
                            ck.fail("layout/onesample_mfx/%s" % cname,
                                    "one-sample '%s' (niter=%d) with %s (%s; strides x=%d var=%d) = %r, on the same numbers held contiguously = %r"
                                    % (name, niter, cname, lay, xa.strides[0] // 8, va.strides[0] // 8, got, expect),
                                    {"stat": name, "niter": niter, "layout": lay, "x": np.ascontiguousarray(xa).tolist(), "var": vc.tolist(),
                                     "x_stride": xa.strides[0] // 8, "var_stride": va.strides[0] // 8,
                                     "var_memory_block": np.ascontiguousarray(V).ravel(order="K").tolist() if V.size < 200 else None,
                                     "strided": got, "contiguous": expect})
            # two-sample calling sequence: groups = the first n1 / last n2 entries of the fibre
            n1 = n // 2
            n2 = n - n1
            for fi, idx in enumerate(fibres(Y, axis)):
                if fi >= 2:
                    break
                y = Y[idx]
                v = V[idx]
                y1, y2, v1, v2 = y[:n1], y[n1:], v[:n1], v[n1:]
                tot = math.comb(n, n1)
                m = int(rng.integers(0, tot))
                i, _, a, b = c_ts_perm(L, n1, n2, m)
                ia = (ctypes.c_uint * (n1 + 16))(*a)
                ib = (ctypes.c_uint * (n2 + 16))(*b)
                res = {}
                for tag, (q1, q2, w1, w2) in {"strided": (y1, y2, v1, v2),
                                              "contiguous": tuple(np.ascontiguousarray(t) for t in (y1, y2, v1, v2))}.items():
                    px = np.zeros(n)
                    pv = np.zeros(n)
                    L.fff_twosample_apply_permutation(ctypes.byref(vview(px)), ctypes.byref(vview(pv)), ctypes.byref(vview(q1)), ctypes.byref(vview(w1)),
                                                      ctypes.byref(vview(q2)), ctypes.byref(vview(w2)), i, ia, ib)
                    st = L.fff_twosample_stat_mfx_new(n1, n2, 12)
                    st.contents.niter = 3
                    tm = float(L.fff_twosample_stat_mfx_eval(st, ctypes.byref(vview(px)), ctypes.byref(vview(pv))))
                    L.fff_twosample_stat_mfx_delete(st)
                    res[tag] = (px.tolist(), pv.tolist(), c_ts(L, TS["student"], px[:n1], px[n1:]), c_ts(L, TS["wilcoxon"], px[:n1], px[n1:]), tm)
                ck.count(("layout", "ts", lay, n, fi, m), bucket="layout:twosample")
                if not all(same(p_, q_) if isinstance(p_, float) else p_ == q_ for p_, q_ in zip(res["strided"], res["contiguous"])):
                    ck.fail("layout/twosample/strided-groups",
                            "two-sample sequence (apply_permutation + student / wilcoxon / student_mfx) on strided group views (%s) differs from contiguous copies: %s vs %s"
                            % (lay, res["strided"][2:], res["contiguous"][2:]),
                            {"layout": lay, "n1": n1, "n2": n2, "magic": m, "x1": y1.tolist(), "x2": y2.tolist(), "v1": v1.tolist(), "v2": v2.tolist(),
                             "strided": res["strided"], "contiguous": res["contiguous"]})
    ck.section("layout", fibres=ncase, note="C/F/sliced 2-D and 3-D arrays, every axis; data and variance arrays with independent layouts; "
               "onesample.pyx / twosample.pyx calling sequences through ctypes (the .pyx glue itself cannot be rebuilt)")


def gmfx_em(x, var, niter, constraint, m_fixed):
    """Gaussian MFX EM of the definition (exact rationals): m, v after niter steps."""
    n = len(x)
    if not constraint:
        m = sum(x) / n
    else:
        m = m_fixed
    v = sum((a - m) ** 2 for a in x) / n
    for _ in range(niter):
        mi = [(v * a + s * m) / (s + v) for a, s in zip(x, var)]
        vi = [s * v / (s + v) for s in var]
        if not constraint:
            m = sum(mi) / n
        v = sum(b + (a - m) ** 2 for a, b in zip(mi, vi)) / n      # M step: posterior second moment about the (new / fixed) mean
    return m, v


def gmfx_nll(x, var, m, v):
    return 0.5 * sum(math.log(float(s + v)) + float(a - m) ** 2 / float(s + v) for a, s in zip(x, var))


def wmedian_sorted(z, w):
    """fff_vector_wmedian_from_sorted_data re-stated (the library's interpolated weighted median)."""
    sw = sum(w)
    W = 0.0
    xx = -math.inf
    i = 0
    while W <= 0.5:
        xp, Wp = xx, W
        xx = z[i]
        ww = w[i] / sw
        W += ww
        i += 1
    return xx if i == 1 else 0.5 * (xp + xx) + (0.5 - Wp) * (xx - xp) / ww


def sec_mfx_stats(ck, L):
    rng = ck.rng("mfxstats")
    terms, metas = [], []
    N = ck.n(60, 300)
    for it in range(N):
        n = int(rng.integers(3, 13))
        niter = int(rng.integers(0, 6))
        base = 0.0 if it % 3 else float(rng.integers(-3, 4)) / 2
        x = rng.integers(-10, 11, size=n).astype(float) / 4 + (0.5 if it % 2 else -0.25)
        x[0] += 1.75
        var = rng.integers(0 if it % 4 == 0 else 1, 13, size=n).astype(float) / 8
        fx = [frac(a) for a in x]
        fv = [frac(a) for a in var]
        exact = niter <= 2
        X_, V_ = (fx, fv) if exact else ([float(a) for a in x], [float(a) for a in var])
        B_ = frac(base) if exact else base
        # Gaussian MFX: mean_gauss_mfx = EM mean - base; student_mfx = sign(mu-base) sqrt(2 (nll(base, v0) - nll(mu, v)))
        mu, v = gmfx_em(X_, V_, niter, False, None)
        got = osm_eval(L, 19, x, var, base, niter)
        ck.count(("gmfx", "mean", it), bucket="mfx:mean_gauss_mfx")
        if abs(got - float(mu - B_)) > 1e-10 * max(1.0, abs(got)):
            ck.fail("onesample_mfx/mean_gauss_mfx-not-definition", "mean_gauss_mfx(niter=%d, base=%r) = %r, EM definition = %r" % (niter, base, got, float(mu - B_)),
                    {"x": x.tolist(), "var": var.tolist(), "base": base, "niter": niter, "out": got})
        if n <= 6 and niter <= 2:
            terms.append("qclose (gmfx_mean %s %s %s - %s)%%Q %s" % (cnat(niter), cql(x.tolist()), cql(var.tolist()), cq(base), cq(got)))
            metas.append(("gmfx", niter, x.tolist(), var.tolist(), base, got))
        # the constrained fit itself (fff_onesample_stat_gmfx_pdf_fit with constraint = 1, *mu = baseline on entry)
        stp = L.fff_onesample_stat_mfx_new(n, 12, float(base))
        stp.contents.niter = niter
        stp.contents.constraint = 1
        cmu, cv = ctypes.c_double(float(base)), ctypes.c_double(0.0)
        L.fff_onesample_stat_gmfx_pdf_fit(ctypes.byref(cmu), ctypes.byref(cv), stp, ctypes.byref(vview(x)), ctypes.byref(vview(var)))
        L.fff_onesample_stat_mfx_delete(stp)
        m0r, v0r = gmfx_em(X_, V_, niter, True, B_)
        ck.count(("gmfx", "constrained", it), bucket="mfx:gmfx-constrained-fit")
        if cmu.value != base or abs(cv.value - float(v0r)) > 1e-10 * max(1.0, abs(cv.value)):
            ck.fail("onesample_mfx/student_mfx-baseline-not-honoured" if base != 0 else "onesample_mfx/gmfx-constrained-fit-not-definition",
                    "constrained Gaussian MFX fit (niter=%d, mean pinned at base=%r) returns mean %r, variance %r; definition: mean %r, variance %r"
                    % (niter, base, cmu.value, cv.value, base, float(v0r)),
                    {"x": x.tolist(), "var": var.tolist(), "base": base, "niter": niter, "out": [cmu.value, cv.value], "expected": [base, float(v0r)]})
        if n <= 6 and niter <= 2:
            terms.append("(qclose (student_mfx_null_mean %s %s %s %s) %s && qclose (student_mfx_null_var %s %s %s %s) %s)%%bool"
                         % (cnat(niter), cq(base), cql(x.tolist()), cql(var.tolist()), cq(cmu.value),
                            cnat(niter), cq(base), cql(x.tolist()), cql(var.tolist()), cq(cv.value)))
            metas.append(("gmfx0", niter, x.tolist(), var.tolist(), base, cv.value))
        got = osm_eval(L, 12, x, var, base, niter)
        ck.count(("gmfx", "student", it), bucket="mfx:student_mfx")
        ref = None
        if mu - B_ == 0:
            ref = 0.0
        else:
            m0, v0 = gmfx_em(X_, V_, niter, True, B_)
            if all(sv + v > 0 and sv + v0 > 0 for sv in V_):     # log defined (zero first-level variance + zero group variance excluded)
                lr = max(0.0, -2.0 * (gmfx_nll(X_, V_, mu, v) - gmfx_nll(X_, V_, m0, v0)))
                ref = math.copysign(math.sqrt(lr), float(mu - B_))
        if ref is not None and abs(got - ref) > 1e-9 * max(1.0, abs(ref)):
            ck.fail("onesample_mfx/student_mfx-baseline-not-honoured" if base != 0 else "onesample_mfx/student_mfx-not-likelihood-ratio",
                    "student_mfx(niter=%d, base=%r) = %r; sign(mu-base) sqrt(2 (nll(H0: mean=base) - nll)) = %r" % (niter, base, got, ref),
                    {"x": x.tolist(), "var": var.tolist(), "base": base, "niter": niter, "out": got, "expected": ref})
        # antisymmetry of every MFX statistic under (x, base) -> (-x, -base)
        for name, flag in OS_MFX.items():
            t = osm_eval(L, flag, x, var, base, niter)
            tf = osm_eval(L, flag, -x, var, -base, niter)
            ck.count(("mfx-flip", name, it), bucket="mfx:antisymmetry")
            if name == "median_mfx":
                continue                                    # the library's interpolated weighted median is one-sided (first index with W > 1/2): not antisymmetric by definition
            if not (abs(t + tf) <= 1e-9 * max(1.0, abs(t))):
                ck.fail("onesample_mfx/%s-not-antisymmetric" % name, "%s(-x, var, -base) = %r but %s(x, var, base) = %r (niter=%d, base=%r)" % (name, tf, name, t, niter, base),
                        {"stat": name, "x": x.tolist(), "var": var.tolist(), "base": base, "niter": niter, "flipped": tf, "plain": t})
        # baseline: every statistic is a function of (x - base, var): shifting data and baseline together changes nothing
        c = float(rng.integers(1, 5)) / 2
        for name, flag in list(OS_MFX.items()) + list(OS_RFX.items()):
            mf = name in OS_MFX
            t = osm_eval(L, flag, x, var, base, niter) if mf else os_eval(L, flag, x, base)
            ts = osm_eval(L, flag, x + c, var, base + c, niter) if mf else os_eval(L, flag, x + c, base + c)
            ck.count(("shift", name, it), bucket="mfx:baseline-shift" if mf else "onesample:baseline-shift")
            if not (abs(t - ts) <= 1e-9 * max(1.0, abs(t)) or (t != t and ts != ts) or t == ts):
                ck.fail("%s/%s-baseline-not-honoured" % ("onesample_mfx" if mf else "onesample", name),
                        "%s(x + %r, base + %r) = %r but %s(x, base=%r) = %r%s" % (name, c, c, ts, name, base, t, (" (niter=%d)" % niter) if mf else ""),
                        {"stat": name, "x": x.tolist(), "var": var.tolist() if mf else None, "base": base, "shift": c, "niter": niter, "shifted": ts, "plain": t})
        # empirical MFX: statistics of the fitted mixture (w, z) returned by fff_onesample_stat_mfx_pdf_fit
        w, z = osm_pdf_fit(L, 10, x, var, niter)
        ck.count(("emfx", it), bucket="mfx:empirical")
        if abs(w.sum() - 1) > 1e-9 or (w < -1e-15).any():
            ck.fail("onesample_mfx/pdf_fit-weights-not-a-distribution", "pdf_fit weights %s" % w.tolist(), {"x": x.tolist(), "var": var.tolist(), "niter": niter, "w": w.tolist()})
        defs = {"mean_mfx": float(np.dot(w, z) / w.sum() - base),
                "sign_mfx": float(w[z > base].sum() - w[z < base].sum())}
        order = np.argsort(np.abs(z - base), kind="stable")
        if len(set(np.abs(z - base).tolist())) == n:         # rank order well defined
            R = np.cumsum(w[order])
            defs["wilcoxon_mfx"] = float(np.sum(np.sign(z[order] - base) * w[order] * R))
        zo = np.argsort(z, kind="stable")
        if len(set(z.tolist())) == n:
            defs["median_mfx"] = wmedian_sorted(z[zo].tolist(), w[zo].tolist()) - base
        for name, ref in defs.items():
            got = osm_eval(L, OS_MFX[name], x, var, base, niter)
            if abs(got - ref) > 1e-10 * max(1.0, abs(ref)):
                sig = "onesample_mfx/%s-not-definition" % name
                if name == "median_mfx" and base != 0 and abs(got - (ref + base)) <= 1e-10 * max(1.0, abs(ref)):
                    sig = "onesample_mfx/median_mfx-baseline-not-honoured"
                ck.fail(sig, "%s(niter=%d, base=%r) = %r; from the fitted mixture (w, z) of pdf_fit the definition gives %r" % (name, niter, base, got, ref),
                        {"stat": name, "x": x.tolist(), "var": var.tolist(), "base": base, "niter": niter, "w": w.tolist(), "z": z.tolist(), "out": got, "expected": ref})
    run_terms(ck, "gmfx", terms, metas,
              lambda t: ("gmfx_mean %s %s %s" % (cnat(t[1]), cql(t[2]), cql(t[3]))) if t[0] == "gmfx"
              else ("gmfx_em %s true %s %s %s" % (cnat(t[1]), cq(t[4]), cql(t[2]), cql(t[3]))), hdr=HDR_MFX, shard=10)
    ck.section("mfx_stats", cases=N, model_cases=len(terms))


# ---------------------------------------------------------------------------- RFX definitions on wide input classes
def lib_median(xs):
    s = sorted(xs)
    n = len(s)
    return s[n // 2] if n % 2 else (s[n // 2 - 1] + s[n // 2]) / 2


def signed_root(sign, n, ratio):
    """sign * sqrt(2 n log(ratio)) for an exact ratio >= 1"""
    if ratio == 1:
        return 0.0
    lg = math.log1p(float(ratio - 1)) if ratio < 2 else math.log(float(ratio))
    return sign * math.sqrt(2 * n * lg)


def ref_rfx(name, xs, base):
    """Definitions (library normalisations) on the exact values of the doubles; returns float, +-inf or None (undefined)."""
    x = [frac(v) for v in xs]
    b = frac(base)
    n = len(x)
    if name == "median":
        return float(lib_median(x) - b)
    if name in ("laplace", "tukey"):
        med = lib_median(x)
        sg = sgn(med - b)
        if sg == 0:
            return 0.0
        if name == "laplace":
            s_ = sum(abs(v - med) for v in x) / n
            s0 = sum(abs(v - b) for v in x) / n
        else:
            s_ = lib_median([abs(v - med) for v in x])
            s0 = lib_median([abs(v - b) for v in x])
        s0 = max(s0, s_)
        if s_ == 0:
            return sg * math.inf
        return signed_root(sg, n, s0 / s_)
    if name == "grubb":
        m = sum(x) / n
        ssd = sum((v - m) ** 2 for v in x)
        if ssd == 0:
            return None
        return max(abs(float(v - m)) for v in x) / math.sqrt(float(ssd / n))
    if name == "student":
        m = sum(x) / n
        ssd = sum((v - m) ** 2 for v in x)
        if m == b:
            return 0.0
        if ssd == 0:
            return sgn(m - b) * math.inf
        return math.sqrt(n - 1) * float(m - b) / math.sqrt(float(ssd / n))
    return float(ref_os(name, xs, base))


def sec_rfx_definitions(ck, L):
    """Every RFX statistic against its definition on wide input classes: dyadic, decimal (non-dyadic) and tied data,
    baselines at 0 / random / equal to the median / strictly inside the median interval of an even sample /
    equal to a data point / one ulp off the median."""
    rng = ck.rng("rfxdef")
    terms, metas = [], []
    N = ck.n(240, 1200)
    for it in range(N):
        n = int(rng.integers(2, 13)) if it % 3 else int(rng.integers(2, 41))
        if it % 4 == 1:
            n += n % 2                                        # even sizes: the median interval exists
        kind = ("dyadic", "decimal", "ties")[it % 3]
        if kind == "dyadic":
            xs = (rng.integers(-40, 41, size=n) / 8.0).tolist()
        elif kind == "decimal":
            xs = np.round(rng.normal(0.3, 1.0, size=n), 2).tolist()
        else:
            xs = (rng.integers(-3, 4, size=n) / 2.0).tolist()
        srt = sorted(xs)
        med = float(lib_median([frac(v) for v in xs]))
        bk = it % 7
        if bk == 3 and not (n % 2 == 0 and srt[n // 2 - 1] < srt[n // 2]):
            bk = 6
        if bk == 0:
            base = 0.0
        elif bk == 1:
            base = float(rng.integers(-8, 9)) / 4
        elif bk == 2:
            base = med
        elif bk == 3:
            lo, hi = srt[n // 2 - 1], srt[n // 2]
            base = lo + (hi - lo) * float(rng.integers(1, 16)) / 16 * 0.999
            if kind == "decimal" and lo < round(base, 2) < hi:
                base = round(base, 2)
        elif bk == 4:
            base = xs[int(rng.integers(0, n))]
        elif bk == 5:
            base = float(np.nextafter(med, med + (1 if rng.random() < 0.5 else -1)))
        else:
            base = float(np.round(rng.normal(0, 1), 2))
        xa = np.array(xs, dtype=float)
        fb = frac(base)
        for name, flag in OS_RFX.items():
            got = os_eval(L, flag, xa, base)
            ck.count(("rfxdef", name, it), bucket="rfxdef:%s" % kind)
            if name == "elr":
                ref = None
                ok = got == got                                # Newton solver: only "never NaN" is asserted here
            else:
                if name == "wilcoxon":
                    ab = [abs(frac(v) - fb) for v in xs if frac(v) != fb]
                    fl = [abs(v - base) for v in xs if frac(v) != fb]       # the residuals as the C forms them (rounded x - base)
                    if len(set(ab)) != len(ab) or len(set(fl)) != len(fl) or \
                            sorted(range(len(ab)), key=lambda i: ab[i]) != sorted(range(len(fl)), key=lambda i: fl[i]):
                        continue                              # tied |x - base| (exactly or after rounding): qsort order unspecified
                ref = ref_rfx(name, xs, base)
                if ref is None:
                    continue
                if math.isinf(ref):
                    ok = got == ref
                elif name in ("laplace", "tukey"):
                    ok = got == got and abs(got - ref) <= 1e-6 + 1e-9 * abs(ref)
                else:
                    ok = got == got and abs(got - ref) <= 1e-12 + 1e-10 * abs(ref)
            if not ok:
                feature = "base-inside-median-interval" if bk == 3 else ("base-at-median" if bk in (2, 5) else "general")
                sig = "onesample/%s-not-definition" % name
                if name in ("laplace", "tukey", "median"):
                    sig += "/" + feature
                ck.fail(sig, "one-sample '%s'(x, base=%r) = %r; definition gives %r (n=%d, %s data)" % (name, base, got, ref, n, kind),
                        {"stat": name, "x": xs, "base": base, "out": got, "expected": ref, "data_class": kind, "baseline_class": feature})
            if name == "median" and kind != "decimal" and n <= 12 and (base * 1024) % 1 == 0 and abs(base) < 64:
                terms.append("Qeq_bool (lib_median %s - %s)%%Q %s" % (cql(xs), cq(base), cq(got)))
                metas.append(("median", xs, base, got))
    run_terms(ck, "rfxdef", terms, metas, lambda t: "Qred (lib_median %s)" % cql(t[1]), hdr=HDR_MFX)
    ck.section("rfx_definitions", cases=N, model_cases=len(terms))


# ---------------------------------------------------------------------------- fff_glm_twolevel EM
class FM(ctypes.Structure):
    _fields_ = [("size1", ctypes.c_size_t), ("size2", ctypes.c_size_t), ("tda", ctypes.c_size_t),
                ("data", ctypes.POINTER(ctypes.c_double)), ("owner", ctypes.c_int)]


class GlmEM(ctypes.Structure):
    _fields_ = [("n", ctypes.c_size_t), ("p", ctypes.c_size_t), ("b", ctypes.POINTER(FV)), ("s2", ctypes.c_double),
                ("z", ctypes.POINTER(FV)), ("vz", ctypes.POINTER(FV)), ("Qz", ctypes.POINTER(FV)), ("niter", ctypes.c_uint)]


def mview(a):
    a = np.ascontiguousarray(a, dtype=float)
    m = FM(a.shape[0], a.shape[1], a.shape[1], a.ctypes.data_as(ctypes.POINTER(ctypes.c_double)), 0)
    m._buf = a
    return m


def load_glm(L):
    PV, PM, PE = ctypes.POINTER(FV), ctypes.POINTER(FM), ctypes.POINTER(GlmEM)
    L.fff_glm_twolevel_EM_new.argtypes = [ctypes.c_size_t, ctypes.c_size_t]
    L.fff_glm_twolevel_EM_new.restype = PE
    L.fff_glm_twolevel_EM_delete.argtypes = [PE]
    L.fff_glm_twolevel_EM_delete.restype = None
    L.fff_glm_twolevel_EM_init.argtypes = [PE]
    L.fff_glm_twolevel_EM_init.restype = None
    L.fff_glm_twolevel_EM_run.argtypes = [PE, PV, PV, PM, PM, ctypes.c_uint]
    L.fff_glm_twolevel_EM_run.restype = None
    L.fff_glm_twolevel_log_likelihood.argtypes = [PV, PV, PM, PV, ctypes.c_double, PV]
    L.fff_glm_twolevel_log_likelihood.restype = ctypes.c_double


def finv(A):
    k = len(A)
    M = [list(A[i]) + [Fraction(int(i == j)) for j in range(k)] for i in range(k)]
    for c in range(k):
        piv = next(i for i in range(c, k) if M[i][c] != 0)
        M[c], M[piv] = M[piv], M[c]
        M[c] = [v / M[c][c] for v in M[c]]
        for i in range(k):
            if i != c and M[i][c] != 0:
                M[i] = [a - M[i][c] * b for a, b in zip(M[i], M[c])]
    return [r[k:] for r in M]


def fmm(A, B):
    return [[sum(a * b for a, b in zip(row, col)) for col in zip(*B)] for row in A]


def projected_pinv(X, c=None):
    """PpiX = P (X'X)^-1 X' with P = I - A c'(c A c')^-1 c, A = (X'X)^-1 (header of fff_glm_twolevel.c); c: one contrast row or None."""
    Xt = [list(r) for r in zip(*X)]
    A = finv(fmm(Xt, X))
    p = len(A)
    P = [[Fraction(int(i == j)) for j in range(p)] for i in range(p)]
    if c is not None:
        Ac = [sum(A[i][j] * c[j] for j in range(p)) for i in range(p)]
        cAc = sum(c[i] * Ac[i] for i in range(p))
        P = [[P[i][j] - Ac[i] * c[j] / cAc for j in range(p)] for i in range(p)]
    return fmm(fmm(P, A), Xt)


TINY = 1e-50


def ref_glm2(X, P, y, vy, niter, state=None, exact=False):
    """Defining recursion of fff_glm_twolevel_EM_run (b = 0, s2 = +inf at init); state = (b, s2) to continue a run."""
    n = len(y)
    tiny = Fraction(1, 10 ** 50) if exact else TINY
    b, s2 = state if state is not None else ([0 * y[0]] * len(P), None)
    for _ in range(niter):
        f = [sum(a * c for a, c in zip(row, b)) for row in X]
        w2 = 0 if s2 is None else 1 / max(s2, tiny)
        vz = [1 / (1 / max(v, tiny) + w2) for v in vy]
        z = [vzi * (yi / max(v, tiny) + w2 * fi) for vzi, yi, v, fi in zip(vz, y, vy, f)]
        b = [sum(a * c for a, c in zip(row, z)) for row in P]
        r = [sum(a * c for a, c in zip(row, b)) - zi for row, zi in zip(X, z)]
        s2 = (sum(ri * ri for ri in r) + sum(vz)) / n
    return b, s2


def ref_glm2_ll(X, y, vy, b, s2):
    ll = 0.0
    for row, yi, v in zip(X, y, vy):
        w = max(float(v) + float(s2), TINY)
        ri = float(yi) - sum(float(a) * float(c) for a, c in zip(row, b))
        ll += math.log(w) + ri * ri / w
    return -0.5 * ll


def c_glm2(L, X, y, vy, runs):
    """EM_init, then EM_run for each (PpiX, niter) in `runs` on ONE em object; returns [(b, s2, loglik)] after each run."""
    n, p = X.shape
    em = L.fff_glm_twolevel_EM_new(n, p)
    L.fff_glm_twolevel_EM_init(em)
    out = []
    Xm = mview(X)
    tmp = np.zeros(n)
    for (Pk, k) in runs:
        Pm = mview(Pk)
        L.fff_glm_twolevel_EM_run(em, ctypes.byref(vview(y)), ctypes.byref(vview(vy)), ctypes.byref(Xm), ctypes.byref(Pm), k)
        bv = em.contents.b.contents
        b = [float(bv.data[i * bv.stride]) for i in range(p)]
        s2 = float(em.contents.s2)
        ll = float(L.fff_glm_twolevel_log_likelihood(ctypes.byref(vview(y)), ctypes.byref(vview(vy)), ctypes.byref(Xm), em.contents.b, s2, ctypes.byref(vview(tmp))))
        out.append((b, s2, ll))
    L.fff_glm_twolevel_EM_delete(em)
    return out


def sec_glm_twolevel(ck, L):
    load_glm(L)
    rng = ck.rng("glm2")
    terms, metas = [], []
    designs = ("intercept", "intercept+group", "covariate-no-intercept", "two-covariates-no-intercept",
               "intercept+covariate/contrast-on-intercept", "intercept+group/contrast-on-group")
    ncase = 0
    for n in ([4, 5, 8] if not ck.thorough() else [4, 5, 6, 8, 12, 20]):
        for dname in designs:
            cov = (np.arange(n, dtype=float) - (n - 1) / 2.0) / 2 + (0.75 if "no-intercept" in dname else 0.0)
            grp = (np.arange(n) < n // 2).astype(float)
            if dname == "intercept":
                X, c = np.ones((n, 1)), None
            elif dname.startswith("intercept+group"):
                X = np.column_stack((np.ones(n), grp))
                c = [Fraction(0), Fraction(1)] if "contrast" in dname else None
            elif dname == "covariate-no-intercept":
                X, c = cov[:, None], None
            elif dname == "two-covariates-no-intercept":
                X, c = np.column_stack((cov, grp + 0.5)), None
            else:
                X = np.column_stack((np.ones(n), cov))
                c = [Fraction(1), Fraction(0)]
            no_const = ("no-intercept" in dname) or ("contrast-on-intercept" in dname)
            Xf = [[frac(v) for v in r] for r in X.tolist()]
            Pf = projected_pinv(Xf, c)
            Pn = np.array([[float(v) for v in r] for r in Pf])
            for niter in ([1, 2, 3, 5] if not ck.thorough() else [1, 2, 3, 4, 6, 9]):
                y = rng.integers(-12, 13, size=n).astype(float) / 4
                y[0] += 1.25
                vy = rng.integers(1, 13, size=n).astype(float) / 8
                strided = (ncase % 3 == 2)
                ya, va = y, vy
                if strided:                                   # strided observation / variance vectors
                    blk = np.zeros((n, 3))
                    blk[:, 1] = y
                    ya = blk[:, 1]
                    blv = np.ones((n, 2))
                    blv[:, 0] = vy
                    va = blv[:, 0]
                ncase += 1
                ck.count(("glm2", dname, n, niter, ncase), bucket="glm_twolevel:%s" % dname)
                (b, s2, ll), = c_glm2(L, X, ya, va, [(Pn, niter)])
                if niter <= 2:
                    rb, rs2 = ref_glm2(Xf, Pf, [frac(v) for v in y], [frac(v) for v in vy], niter, exact=True)
                else:
                    rb, rs2 = ref_glm2(X.tolist(), Pn.tolist(), y.tolist(), vy.tolist(), niter)
                rbf = [float(v) for v in rb]
                rll = ref_glm2_ll(X.tolist(), y.tolist(), vy.tolist(), rbf, float(rs2))
                if not (close(b, rbf) and close(s2, float(rs2)) and close(ll, rll, 1e-9)):
                    ck.fail("glm_twolevel/em-not-definition/%s" % ("design-without-constant" if no_const else "design-with-constant"),
                            "fff_glm_twolevel_EM_run(%s, n=%d, niter=%d)%s: b=%s s2=%r loglik=%r; defining recursion: b=%s s2=%r loglik=%r"
                            % (dname, n, niter, " on strided y/vy" if strided else "", b, s2, ll, rbf, float(rs2), rll),
                            {"design": dname, "X": X.tolist(), "PpiX": Pn.tolist(), "y": y.tolist(), "vy": vy.tolist(), "niter": niter,
                             "out": {"b": b, "s2": s2, "loglik": ll}, "expected": {"b": rbf, "s2": float(rs2), "loglik": rll}})
                if n <= 5 and niter <= 2:
                    terms.append("(let r := glm2_run %s %s %s %s %s in qclose (glm2_s2 r) %s && qlclose (g_b r) %s)%%bool"
                                 % (cqmat(Pf), cqmat(Xf), cnat(niter), cql(y.tolist()), cql(vy.tolist()), cq(s2), cql(b)))
                    metas.append(("glm2", Pf, Xf, niter, y.tolist(), vy.tolist()))
                # two runs on ONE em object (constrained then unconstrained, as the two-sample student_mfx does)
                if c is not None:
                    Pu = np.array([[float(v) for v in r] for r in projected_pinv(Xf, None)])
                    runs = c_glm2(L, X, ya, va, [(Pn, niter), (Pu, niter)])
                    st1 = ref_glm2(X.tolist(), Pn.tolist(), y.tolist(), vy.tolist(), niter)
                    st2 = ref_glm2(X.tolist(), Pu.tolist(), y.tolist(), vy.tolist(), niter, state=st1)
                    ck.count(("glm2-seq", dname, n, niter, ncase), bucket="glm_twolevel:two-runs-one-object")
                    if not (close(runs[1][0], st2[0]) and close(runs[1][1], st2[1])):
                        ck.fail("glm_twolevel/em-continued-run-not-definition",
                                "EM_run(constrained PpiX, %d) then EM_run(unconstrained, %d) on one EM object (%s): b=%s s2=%r; recursion continued from the first run: b=%s s2=%r"
                                % (niter, niter, dname, runs[1][0], runs[1][1], st2[0], st2[1]),
                                {"design": dname, "X": X.tolist(), "sequence": [{"PpiX": Pn.tolist(), "niter": niter}, {"PpiX": Pu.tolist(), "niter": niter}],
                                 "y": y.tolist(), "vy": vy.tolist(), "out": list(runs[1][:2]), "expected": [st2[0], st2[1]]})
    # two-sample student_mfx = sign(b1) sqrt(2 (ll - ll0)) from the constrained / continued unconstrained EM
    for it in range(ck.n(30, 150)):
        n1 = int(rng.integers(2, 8))
        n2 = int(rng.integers(2, 8))
        n = n1 + n2
        niter = int(rng.integers(1, 6))
        x = rng.integers(-12, 13, size=n).astype(float) / 4
        x[0] += 0.75
        vx = rng.integers(1, 13, size=n).astype(float) / 8
        # twosample.pyx sequence with a (mostly non-identity) magic number: permutation -> apply to data AND variances -> eval;
        # reference: the statistic of the explicitly relabelled data (subjects keep their own, unequal variances)
        tot = math.comb(n, n1)
        magic = 0 if it % 5 == 0 else int(rng.integers(1, tot))
        ie, _, ia, ib = c_ts_perm(L, n1, n2, magic)
        x0, v0 = x.copy(), vx.copy()
        pxl, pvl = c_ts_apply_mfx(L, x0[:n1].tolist(), x0[n1:].tolist(), v0[:n1].tolist(), v0[n1:].tolist(), ie, ia, ib)
        xr, vr = x0.copy(), v0.copy()
        for ja, jb in zip(ia, ib):                             # the relabelling by definition: subjects ja (group 1) and jb (group 2) change groups
            xr[ja], xr[n1 + jb] = x0[n1 + jb], x0[ja]
            vr[ja], vr[n1 + jb] = v0[n1 + jb], v0[ja]
        if pxl != xr.tolist() or pvl != vr.tolist():
            ck.fail("twosample/apply-variances-do-not-follow-subjects",
                    "apply_permutation(magic=%d -> i=%d, idx1=%s, idx2=%s) gives data %s variances %s; relabelled data %s variances %s"
                    % (magic, ie, ia, ib, pxl, pvl, xr.tolist(), vr.tolist()),
                    {"n1": n1, "n2": n2, "magic": magic, "i": ie, "idx1": ia, "idx2": ib, "x": x0.tolist(), "vx": v0.tolist(), "px": pxl, "pv": pvl})
        x, vx = np.array(pxl), np.array(pvl)
        st = L.fff_twosample_stat_mfx_new(n1, n2, 12)
        st.contents.niter = niter
        got = float(L.fff_twosample_stat_mfx_eval(st, ctypes.byref(vview(x)), ctypes.byref(vview(vx))))
        L.fff_twosample_stat_mfx_delete(st)
        x, vx = xr, vr                                         # the reference below works on the explicitly relabelled sample
        g = [1.0] * n1 + [0.0] * n2
        X = [[1.0, gi] for gi in g]
        PX = [[0.0] * n1 + [1.0 / n2] * n2, [1.0 / n1] * n1 + [-1.0 / n2] * n2]
        PPX = [[1.0 / n] * n, [0.0] * n]
        s0 = ref_glm2(X, PPX, x.tolist(), vx.tolist(), niter)
        ll0 = ref_glm2_ll(X, x.tolist(), vx.tolist(), s0[0], s0[1])
        s1 = ref_glm2(X, PX, x.tolist(), vx.tolist(), niter, state=s0)
        ll1 = ref_glm2_ll(X, x.tolist(), vx.tolist(), s1[0], s1[1])
        ref = sgn(s1[0][1]) * math.sqrt(max(2.0 * (ll1 - ll0), 0.0))
        ck.count(("ts-mfx", it), bucket="twosample:student_mfx")
        if not (abs(got - ref) <= 1e-8 * max(1.0, abs(ref))):
            ck.fail("twosample/student_mfx-not-likelihood-ratio", "two-sample student_mfx(n1=%d, n2=%d, niter=%d) after magic %d = %r; statistic of the explicitly relabelled data sign(b1) sqrt(2 (ll - ll0)) = %r" % (n1, n2, niter, magic, got, ref),
                    {"n1": n1, "n2": n2, "niter": niter, "magic": magic, "x_before_relabelling": x0.tolist(), "vx_before_relabelling": v0.tolist(),
                     "x": x.tolist(), "vx": vx.tolist(), "out": got, "expected": ref})

    def show(t):
        return "(let r := glm2_run %s %s %s %s %s in (glm2_s2 r, g_b r))" % (cqmat(t[1]), cqmat(t[2]), cnat(t[3]), cql(t[4]), cql(t[5]))
    run_terms(ck, "glm_twolevel", terms, metas, show, hdr=HDR_MFX, shard=6)
    ck.section("glm_twolevel", em_cases=ncase, model_cases=len(terms),
               note="designs with and without the constant in their column space, projected pseudo-inverses (contrast constraints), strided y/vy, continued runs on one EM object")


# ---------------------------------------------------------------------------- mixed effects (Python)
HDR_MFX = ("From Coq Require Import List Bool ZArith NArith QArith Qabs.\n"
           "From NV.Lib Require Import Harness.\n"
           "From NV.C17 Require Import Model ModelMfx.\n"
           "Close Scope Q_scope.\n"
           "Definition qclose (a b : Q) : bool := Qle_bool (Qabs (a - b)%Q) (Qmake 1 10000000000).\n"
           "Definition qlclose := list_eqb qclose.\n")


def cqmat(M):
    return "[" + "; ".join(cql(r) for r in M) + "]"


def exact_pinv(X):
    """Moore-Penrose inverse of a Fraction matrix whose non-zero columns are independent
    ((X'X)^-1 X' on the non-zero columns, zero rows for zero columns)."""
    n, r = len(X), len(X[0])
    keep = [j for j in range(r) if any(X[i][j] != 0 for i in range(n))]
    k = len(keep)
    A = [[sum(X[i][a] * X[i][b] for i in range(n)) for b in keep] for a in keep]
    B = [[X[i][a] for i in range(n)] for a in keep]
    # solve A Z = B by Gauss-Jordan
    M = [A[i][:] + B[i][:] for i in range(k)]
    for c in range(k):
        piv = next(i for i in range(c, k) if M[i][c] != 0)
        M[c], M[piv] = M[piv], M[c]
        M[c] = [v / M[c][c] for v in M[c]]
        for i in range(k):
            if i != c and M[i][c] != 0:
                M[i] = [a - M[i][c] * b for a, b in zip(M[i], M[c])]
    P = [[Fraction(0)] * n for _ in range(r)]
    for a, j in enumerate(keep):
        P[j] = M[a][k:]
    return P


def ref_em(X, P, Y, V1, n_iter):
    """Defining EM recursion for one column, exact rationals (independent of nipy)."""
    n = len(Y)
    mv = lambda M, v: [sum(a * b for a, b in zip(row, v)) for row in M]
    beta = mv(P, Y)
    fit = mv(X, beta)
    V2 = sum((y - f) ** 2 for y, f in zip(Y, fit)) / n
    for _ in range(n_iter):
        Z = [(V2 * y + v1 * f) / (V2 + v1) for y, v1, f in zip(Y, V1, fit)]
        cvar = [v1 * V2 / (V2 + v1) for v1 in V1]
        beta = mv(P, Z)
        fit = mv(X, beta)
        V2 = sum((z - f) ** 2 for z, f in zip(Z, fit)) / n + sum(cvar) / n
    return beta, fit, V2


def ref_loglike(Y, V1, fit, V2):
    n = len(Y)
    tv = [float(V2) + float(v) for v in V1]
    return -0.5 * (sum((float(y) - float(f)) ** 2 / t for y, f, t in zip(Y, fit, tv)) + sum(math.log(t) for t in tv) + math.log(2 * math.pi) * n)


def close(a, b, tol=1e-10):
    a = np.asarray(a, dtype=float)
    b = np.asarray(b, dtype=float)
    return a.shape == b.shape and bool(np.all(np.abs(a - b) <= tol * np.maximum(1.0, np.abs(b))))


def sec_mixed_effects(ck):
    try:
        from nipy.algorithms.statistics import mixed_effects_stat as ME
    except Exception as e:  # noqa
        ck.fail("mixed_effects/import", "mixed_effects_stat cannot be imported: %s" % e, {"kind": "correspondence-broken"}, found_input=False)
        return
    rng = ck.rng("mfx")
    terms, metas = [], []

    def design(kind, n):
        if kind == "one":
            return np.ones((n, 1))
        if kind == "two":
            g = np.zeros(n)
            g[: max(1, n // 2)] = 1
            return np.column_stack((np.ones(n), g))
        if kind == "zero+one":                          # X0 of mfx_stat for column 0 of the two-sample design
            return design("two", n) * np.array([0.0, 1.0])
        cov = np.arange(n, dtype=float) - (n - 1) / 2.0  # intercept + centred covariate
        return np.column_stack((np.ones(n), cov))

    def data(n, p):
        Y = rng.integers(-12, 13, size=(n, p)).astype(float) / 4
        Y[0] += 0.25 * (1 + np.arange(p))               # never constant: V2 > 0
        Y[-1] -= 1.75
        V1 = rng.integers(0, 9, size=(n, p)).astype(float) / 8
        return Y, V1

    def state(m):
        # normalised to (n_reg, n_tests) / (n_tests,) / (n, n_tests) whatever input form was used
        b = np.array(m.beta_, dtype=float)
        y_ = np.array(m.Y_, dtype=float)
        return {"beta_": b.reshape(b.shape[0], -1), "V2": np.array(m.V2, dtype=float).reshape(-1), "Y_": y_.reshape(y_.shape[0], -1)}

    form = {"oned": False}

    def arg(A):
        """n_tests == 1: both documented input forms, (n_samples,) and (n_samples, 1), alternating by case"""
        return A[:, 0] if (A.shape[1] == 1 and form["oned"]) else A

    # repaired by cd07de9 (reported again if it returns): a 2-D input with a single test column was rejected
    # (check_arrays added an axis when size == shape[0])
    Yc, Vc = data(4, 1)
    try:
        mc = ME.MixedEffectsModel(np.ones((4, 1)), n_iter=1).fit(Yc, Vc)
        m1d = ME.MixedEffectsModel(np.ones((4, 1)), n_iter=1).fit(Yc[:, 0], Vc[:, 0])
        if not close(np.asarray(mc.V2).reshape(-1), np.asarray(m1d.V2).reshape(-1)):
            raise ValueError("(n,1) input and (n,) input give different V2")
    except Exception as e:  # noqa
        ck.fail("mixed_effects/n_tests=1-as-column-rejected",
                "MixedEffectsModel(ones(4,1)).fit(Y, V1) with Y, V1 of shape (4, 1) raises %s: %s (shape (4,) works)" % (type(e).__name__, e),
                {"X": [[1.0]] * 4, "Y": Yc.tolist(), "V1": Vc.tolist()})

    def same_state(a, b):
        return all(a[k].shape == b[k].shape and np.allclose(a[k], b[k], rtol=1e-12, atol=1e-13) for k in a)

    def tolist(d):
        return {k: np.asarray(v).tolist() for k, v in d.items()}

    sizes = [(3, 1), (4, 2), (5, 1), (6, 3), (8, 2), (12, 4)]
    if ck.thorough():
        sizes += [(7, 5), (10, 3), (16, 6), (25, 4)]
    ncase = 0
    for (n, p) in sizes:                                  # small to large: first failure = smallest replay
        for kind in ("one", "two", "cov", "zero+one"):
            if kind != "one" and n < 4:
                continue
            X = design(kind, n)
            Xf = [[frac(v) for v in row] for row in X.tolist()]
            Pf = exact_pinv(Xf)
            for n_iter in ([0, 1, 2, 5] if not ck.thorough() else [0, 1, 2, 3, 5, 8]):
                Y, V1 = data(n, p)
                ncase += 1
                form["oned"] = (ncase % 2 == 0)
                if p == 1 and not form["oned"]:
                    try:                                       # defect repaired by cd07de9: keep the run going if it returns
                        ME.MixedEffectsModel(X, n_iter=0).fit(Y, V1)
                    except Exception as e:  # noqa
                        ck.fail("mixed_effects/n_tests=1-as-column-rejected",
                                "MixedEffectsModel(X %s).fit(Y, V1) with Y, V1 of shape (%d, 1) raises %s: %s" % (kind, n, type(e).__name__, e),
                                {"X": X.tolist(), "Y": Y.tolist(), "V1": V1.tolist()})
                        form["oned"] = True
                ck.count(("mfx", kind, n, p, n_iter, ncase), bucket="mixed_effects:fit-%s" % kind)
                m = ME.MixedEffectsModel(X, n_iter=n_iter)
                # oracle contract sampled: numpy's pinv is the Moore-Penrose inverse
                if not close(m.pinv_X, [[float(v) for v in r] for r in Pf], 1e-12):
                    ck.fail("mixed_effects/pinv-contract", "np.linalg.pinv(X) differs from the exact pseudo-inverse", {"X": X.tolist()}, found_input=True)
                m.fit(arg(Y), arg(V1))
                got = state(m)
                ll = np.asarray(m.log_like(arg(Y), arg(V1)), dtype=float).reshape(-1)
                exact = n_iter <= 2 and n <= 8               # exact rationals square in size at every EM step
                Xr = Xf if exact else [[float(v) for v in r] for r in Xf]
                Pr = Pf if exact else [[float(v) for v in r] for r in Pf]
                for j in range(p):
                    yj = [frac(v) for v in Y[:, j]]
                    vj = [frac(v) for v in V1[:, j]]
                    if exact:
                        beta, fit, V2 = ref_em(Xr, Pr, yj, vj, n_iter)
                    else:                                     # same recursion in plain Python floats, sample by sample
                        beta, fit, V2 = ref_em(Xr, Pr, [float(v) for v in yj], [float(v) for v in vj], n_iter)
                    okb = close(got["beta_"][:, j], [float(b) for b in beta])
                    okv = close(got["V2"][j], float(V2))
                    okl = close(ll[j], ref_loglike(yj, vj, fit, V2))
                    if not (okb and okv and okl):
                        ck.fail("mixed_effects/fit-not-em-definition",
                                "MixedEffectsModel(X %s, n_iter=%d).fit: column %d gives beta_=%s V2=%r loglik=%r; defining EM recursion gives beta=%s V2=%r"
                                % (kind, n_iter, j, got["beta_"][:, j].tolist(), float(got["V2"][j]), float(ll[j]), [float(b) for b in beta], float(V2)),
                                {"X": X.tolist(), "n_iter": n_iter, "Y": Y[:, j].tolist(), "V1": V1[:, j].tolist(),
                                 "got": {"beta_": got["beta_"][:, j].tolist(), "V2": float(got["V2"][j])},
                                 "expected": {"beta": [str(b) for b in beta], "V2": str(V2)}})
                    if n <= 6 and n_iter <= 2 and j == 0 and kind != "cov":
                        terms.append("(let r := fit_method %s %s %s fresh_obj %s %s in qclose (fit_V2 r) %s && qlclose (fit_beta r) %s)%%bool"
                                     % (cqmat(Pf), cqmat(Xf), cnat(n_iter), cql(yj), cql(vj), cq(float(got["V2"][j])), cql(got["beta_"][:, j].tolist())))
                        metas.append(("mfx", Pf, Xf, n_iter, yj, vj))
                # history independence: the SAME object after earlier fits vs a fresh object
                fresh = got
                for prev in ("same-shape", "same-sample", "other-n_tests", "two-earlier-fits"):
                    obj = ME.MixedEffectsModel(X, n_iter=n_iter)
                    seq = []
                    if prev == "same-shape":
                        seq = [data(n, p)]
                        seq[0] = (seq[0][0] * 3 + 2, seq[0][1])
                    elif prev == "same-sample":
                        seq = [(Y, V1)]
                    elif prev == "other-n_tests":
                        seq = [data(n, p + 1)]
                    else:
                        seq = [data(n, p), data(n, p)]
                    for (Ya, Va) in seq:
                        obj.fit(arg(Ya), arg(Va))
                    obj.fit(arg(Y), arg(V1))
                    ck.count(("mfx-hist", kind, n, p, n_iter, prev, ncase), bucket="mixed_effects:history-%s" % prev)
                    if not same_state(state(obj), fresh):
                        ck.fail("mixed_effects/fit-depends-on-history",
                                "MixedEffectsModel(X %s %dx%d, n_iter=%d): fit(A) then fit(B) on one object (%s) gives V2=%s, a fresh object fitted to B gives V2=%s"
                                % (kind, X.shape[0], X.shape[1], n_iter, prev, np.asarray(obj.V2).tolist(), fresh["V2"].tolist()),
                                {"X": X.tolist(), "n_iter": n_iter, "kind": prev,
                                 "note": "one MixedEffectsModel(X, n_iter) object, calls in order; one-column arrays passed as %s" % ("(n,)" if form["oned"] else "(n, 1)"),
                                 "sequence": [{"call": "fit", "Y": a.tolist(), "V1": b.tolist()} for (a, b) in seq] + [{"call": "fit", "Y": Y.tolist(), "V1": V1.tolist()}],
                                 "reused_object": tolist(state(obj)), "fresh_object": tolist(fresh)})
                # wrappers agree with the class / the definition
                try:
                    if kind in ("one", "two", "cov"):
                        col = X.shape[1] - 1 if kind != "one" else 0
                        X0 = X * (1 - np.eye(X.shape[1])[col])
                        m0 = ME.MixedEffectsModel(X0, n_iter=n_iter).fit(Y, V1)
                        m1 = ME.MixedEffectsModel(X, n_iter=n_iter).fit(Y, V1)
                        f_ref = np.maximum(0, 2 * (m1.log_like(Y, V1) - m0.log_like(Y, V1)))
                        t_ref = np.sqrt(f_ref) * np.sign(m1.beta_[col])
                        out = ME.mfx_stat(Y, V1, X, col, n_iter=n_iter, return_t=True, return_f=True)
                        ck.count(("mfx-stat", kind, n, p, n_iter, ncase), bucket="mixed_effects:mfx_stat")
                        if not (len(out) == 2 and close(out[0], t_ref) and close(out[1], f_ref)):
                            ck.fail("mixed_effects/mfx_stat-not-likelihood-ratio", "mfx_stat(t, f) differs from sign(beta) sqrt(2 (ll1 - ll0)) computed from two class fits",
                                    {"X": X.tolist(), "column": col, "n_iter": n_iter, "Y": Y.tolist(), "V1": V1.tolist()})
                        out4 = ME.mfx_stat(Y, V1, X, col, n_iter=n_iter, return_t=False, return_f=False, return_effect=True, return_var=True)
                        if len(out4) == 2 and close(out4[0], m1.V2) and close(out4[1], m1.beta_[col]) and not close(out4[0], m1.beta_[col]):
                            ck.fail("mixed_effects/mfx_stat-returns-var-before-effect",
                                    "mfx_stat(return_effect=True, return_var=True) returns (var, effect); the docstring promises (tstat, fstat, effect, var)",
                                    {"X": X.tolist(), "column": col, "Y": Y.tolist(), "V1": V1.tolist(), "out": [np.asarray(o).tolist() for o in out4]})
                        elif not (len(out4) == 2 and close(out4[0], m1.beta_[col]) and close(out4[1], m1.V2)):
                            ck.fail("mixed_effects/mfx_stat-effect-var", "mfx_stat effect/var outputs are not beta_[column] / V2 of the full model",
                                    {"X": X.tolist(), "column": col, "Y": Y.tolist(), "V1": V1.tolist()})
                        outa = ME.mfx_stat(Y, V1, X, col, n_iter=n_iter, return_t=True, return_f=True, return_effect=True, return_var=True)
                        if len(outa) == 4 and close(outa[0], t_ref) and close(outa[1], f_ref) and close(outa[2], m1.V2) and close(outa[3], m1.beta_[col]) \
                                and not close(outa[2], m1.beta_[col]):
                            ck.fail("mixed_effects/mfx_stat-returns-var-before-effect",
                                    "mfx_stat(all four outputs) returns (t, f, var, effect); documented order is (tstat, fstat, effect, var)",
                                    {"X": X.tolist(), "column": col, "Y": Y.tolist(), "V1": V1.tolist()})
                        elif not (len(outa) == 4 and close(outa[0], t_ref) and close(outa[1], f_ref) and close(outa[2], m1.beta_[col]) and close(outa[3], m1.V2)):
                            ck.fail("mixed_effects/mfx_stat-output-order", "mfx_stat(all outputs) is not (tstat, fstat, effect, var)",
                                    {"X": X.tolist(), "column": col, "Y": Y.tolist(), "V1": V1.tolist()})
                        if kind == "one":
                            t1 = ME.one_sample_ttest(Y, V1, n_iter=n_iter)
                            f1 = ME.one_sample_ftest(Y, V1, n_iter=n_iter)
                            if not (close(t1, t_ref) and close(f1, f_ref)):
                                ck.fail("mixed_effects/one_sample-wrapper", "one_sample_ttest/ftest differ from mfx_stat with X = ones, column 0",
                                        {"n_iter": n_iter, "Y": Y.tolist(), "V1": V1.tolist()})
                            tn = ME.one_sample_ttest(-Y, V1, n_iter=n_iter)
                            if not close(tn, -np.asarray(t1), 1e-9):
                                ck.fail("mixed_effects/one_sample-not-antisymmetric", "one_sample_ttest(-Y, V1) != -one_sample_ttest(Y, V1)",
                                        {"n_iter": n_iter, "Y": Y.tolist(), "V1": V1.tolist()})
                        if kind == "two":
                            g = X[:, 1]
                            t2 = ME.two_sample_ttest(Y, V1, g, n_iter=n_iter)
                            f2 = ME.two_sample_ftest(Y, V1, g, n_iter=n_iter)
                            if not (close(t2, t_ref) and close(f2, f_ref)):
                                ck.fail("mixed_effects/two_sample-wrapper", "two_sample_ttest/ftest differ from mfx_stat with X = [1, group], column 1",
                                        {"n_iter": n_iter, "group": g.tolist(), "Y": Y.tolist(), "V1": V1.tolist()})
                            ts = ME.two_sample_ttest(Y, V1, 1 - g, n_iter=n_iter)
                            if not close(ts, -np.asarray(t2), 1e-8):
                                ck.fail("mixed_effects/two_sample-label-swap", "two_sample_ttest with swapped labels != -two_sample_ttest",
                                        {"n_iter": n_iter, "group": g.tolist(), "Y": Y.tolist(), "V1": V1.tolist()})
                except Exception as e:  # noqa
                    ck.fail("mixed_effects/n_tests=1-as-column-rejected" if p == 1 else "mixed_effects/wrapper-raises",
                            "mfx_stat / one_sample_* / two_sample_* wrapper raised %s: %s (X %s, Y of shape (%d, %d))" % (type(e).__name__, e, kind, n, p),
                            {"X": X.tolist(), "n_iter": n_iter, "Y": Y.tolist(), "V1": V1.tolist()})

    def show(t):
        return "(let r := fit_method %s %s %s fresh_obj %s %s in (fit_V2 r, fit_beta r))" % (cqmat(t[1]), cqmat(t[2]), cnat(t[3]), cql(t[4]), cql(t[5]))
    run_terms(ck, "mixed_effects", terms, metas, show, hdr=HDR_MFX, shard=6)
    ck.section("mixed_effects", fit_cases=ncase, model_cases=len(terms),
               note="model gets the exact pseudo-inverse (np.linalg.pinv sampled against it, 1e-12); comparison tolerance 1e-10")


def sec_varatio(ck):
    try:
        from nipy.algorithms.statistics import onesample as OSM
    except Exception as e:  # noqa
        return
    rng = ck.rng("varatio")
    terms, metas = [], []

    def posr(x):
        return 1 / x if x > 0 else Fraction(0)
    for it in range(ck.n(30, 150)):
        n = int(rng.integers(3, 9))
        p = int(rng.integers(1, 3))
        niter = int(rng.integers(0, 4))
        Y = rng.integers(-8, 9, size=(n, p)).astype(float) / 2
        Y[0] += 0.5
        sd = 2.0 ** rng.integers(-1, 2, size=(n, p)).astype(float)
        df = None if it % 2 else rng.integers(1, 6, size=n).astype(float)
        if it % 3 == 2:
            sd = sd * rng.choice([-1.0, 1.0], size=sd.shape)      # pos_recipr(sd**2): the sign of sd is immaterial
        out = OSM.estimate_varatio(Y.copy(), sd.copy(), df=None if df is None else df.copy(), niter=niter)
        ck.count(("varatio", it), bucket="estimate_varatio")
        # the variance estimates are even in the data and invariant under a common shift (theorems varatio_random_even,
        # varatio_random_shift_invariant), evaluated on the implementation
        cshift = float(rng.integers(-12, 13)) / 4
        for tag, Y2 in (("not-even", -Y), ("not-shift-invariant", Y + cshift)):
            out2 = OSM.estimate_varatio(Y2.copy(), sd.copy(), df=None if df is None else df.copy(), niter=niter)
            ck.count(("varatio", it, tag), bucket="estimate_varatio:" + tag[4:])
            for key in ("random", "ratio", "fixed"):
                if not close(np.asarray(out2[key], dtype=float).reshape(-1), np.asarray(out[key], dtype=float).reshape(-1), 1e-9):
                    ck.fail("estimate_varatio/%s" % tag, "estimate_varatio(niter=%d)[%r] changes when the data are %s: %r vs %r"
                            % (niter, key, "negated" if tag == "not-even" else "shifted by %r" % cshift, np.asarray(out2[key]).tolist(),
                               np.asarray(out[key]).tolist()),
                            {"Y": Y.tolist(), "sd": sd.tolist(), "df": None if df is None else df.tolist(), "niter": niter, "shift": cshift})
        for j in range(p):
            y = [frac(v) for v in Y[:, j]]
            S = [1 / posr(frac(s) ** 2) for s in sd[:, j]]
            mean = sum(y) / n
            sigma2 = sum((a - mean) ** 2 for a in y) / (n - 1)
            minS = min(S) * Fraction(99, 100)
            # 0.99 is not a dyadic: the implementation's float(0.99) is used for the exact recomputation
            minS = min(S) * frac(0.99)
            Sm = [s - minS for s in S]
            for _ in range(niter):
                W = [posr(sm + sigma2) for sm in Sm]
                Winv = posr(sum(W))
                mu = Winv * sum(w * a for w, a in zip(W, y))
                R = [w * (a - mu) for w, a in zip(W, y)]
                ptrS = 1 + sum(sm * w for sm, w in zip(Sm, W)) - sum(sm * w * w for sm, w in zip(Sm, W)) * Winv
                sigma2 = (sigma2 * ptrS + sigma2 ** 2 * sum(r * r for r in R)) / n
            sigma2 = sigma2 - minS
            d = [Fraction(1)] * n if df is None else [frac(v) for v in df]
            fixed = sum(a * s for a, s in zip(d, S)) / sum(d)
            g_fixed = float(np.asarray(out["fixed"]).reshape(-1)[j])
            g_rand = float(np.asarray(out["random"]).reshape(-1)[j])
            g_ratio = float(np.asarray(out["ratio"]).reshape(-1)[j])
            if not (close(g_fixed, float(fixed)) and close(g_rand, float(sigma2)) and close(g_ratio, float(sigma2 / fixed))):
                ck.fail("estimate_varatio/not-definition",
                        "estimate_varatio(niter=%d) gives fixed=%r random=%r ratio=%r; the defining recursion gives %r %r %r"
                        % (niter, g_fixed, g_rand, g_ratio, float(fixed), float(sigma2), float(sigma2 / fixed)),
                        {"Y": Y[:, j].tolist(), "sd": sd[:, j].tolist(), "df": None if df is None else df.tolist(), "niter": niter})
            if n <= 6 and j == 0 and niter <= 1:      # exact rationals grow doubly exponentially with niter: 2 iterations cost ~10 s per case
                # Coq model (coq/C17/ModelVar.v) on the same input; Sreduction = the exact value of the double 0.99
                args = (cq(0.99), cnat(niter), cql(Y[:, j].tolist()), cql(sd[:, j].tolist()))
                cdf = cql([1.0] * n if df is None else df.tolist())
                terms.append("(qclose (vr_random %s %s %s %s) %s && qclose (vr_fixed %s %s) %s && qclose (vr_ratio %s %s %s %s %s) %s)%%bool"
                             % (args + (cq(g_rand), cdf, args[3], cq(g_fixed), args[0], args[1], cdf, args[2], args[3], cq(g_ratio))))
                metas.append(("estimate_varatio", niter, Y[:, j].tolist(), sd[:, j].tolist(), None if df is None else df.tolist()))
    run_terms(ck, "estimate_varatio", terms, metas,
              lambda t: "(Qred (vr_random %s %s %s %s), Qred (vr_fixed %s %s))"
              % (cq(0.99), cnat(t[1]), cql(t[2]), cql(t[3]), cql([1.0] * len(t[2]) if t[4] is None else t[4]), cql(t[3])),
              hdr=HDR_MFX + "From NV.C17 Require Import ModelVar.\n", shard=10)
    ck.section("estimate_varatio", model_cases=len(terms),
               note="re-computed with exact rationals (float(0.99) as in the source), tolerance 1e-10; the Coq model vr_random / vr_fixed / vr_ratio "
                    "evaluated on the same inputs (n <= 6, niter <= 1, sd of either sign, no zeros); evenness and shift invariance evaluated on the implementation")



def run(ck):
    ck.cov["rule"] = ("enumeration codes: every magic in the full index range for small sizes (n<=6/7 permutations, all (n,k) n<=10, "
                      "all 2^n sign patterns n<=10, all C(n1+n2,n1) relabellings n1+n2<=8/10), magics beyond the range, random magics up to 2^64-1 "
                      "for larger sizes; statistics: random samples n=2..40 with dyadic values, distinct |residuals|, zeros, baselines; "
                      "distinct by (function, sizes, magic / data); non-trivial when the size is > 1")
    ck.coq_build()
    ck.overlay(cstat=True)
    ck.trust.append("C17: doubles in fff_twosample_permutation / permute_signs are modelled by exact N / Q arithmetic (exact while "
                    "intermediates < 2^53); permute_signs: m/2, floor and the subtraction are exact for every finite non-subnormal double, so Q + Qfloor "
                    "is an exact model; inf/nan/subnormal magics not modelled; sqrt is an abstract parameter of os_student/ts_student and compared with tolerance 1e-12")
    ck.trust.append("C17: `_combinations` is static and is observed through a 2-line wrapper that #includes /repo's fff_gen_stats.c; "
                    "nipy.labs.group.{onesample,twosample} glue is the installed (stale) build - only permutation_test.py's Python is current")
    L = load_c(ck)
    W = build_comb_wrapper(ck)
    sec_permutation(ck, L)
    sec_combinations(ck, L, W)
    sec_signs(ck, L)
    sec_twosample(ck, L)
    sec_stats(ck, L)
    load_mfx(L)
    sec_layout(ck, L)
    sec_mfx_stats(ck, L)
    sec_rfx_definitions(ck, L)
    sec_glm_twolevel(ck, L)
    sec_pvalues(ck)
    sec_python_stats(ck)
    sec_varatio(ck)
    sec_mixed_effects(ck)
