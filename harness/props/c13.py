"""C13 - mixture-model densities and posteriors are exact and equivariant.

Sections (each: correspondence model-vs-implementation through vm_compute, and
property oracles evaluated directly on the implementation):

  mrf         _segmentation._ve_step / _interaction_energy (rebuilt from /repo's mrf.c):
              neighbourhood sums compared EXACTLY (dyadic ppm, integer U) through
              _interaction_energy; every single-voxel update compared with the Coq model
              given the same exp oracle values (1e-12 absolute on probabilities; exact when
              beta = 0 and the row sum is a power of two); the full sweep must equal the
              chain of single-voxel updates bit for bit; simplex / untouched-outside-mask
              oracles; both normalisation branches (psum <= TINY rows: zero and 1e-305 refs).
  posteriors  GMM.likelihood / mixture_likelihood / pop / map_label, GGM & GGGM posterior and
              Estep, VonMisesMixture.responsibilities, Segmentation.normalized_external_field
              and map_from_ppm.
  segfit      Segmentation.vm_step vs SegModel.vm_class (weighted mean / centred scatter / Z floor read from the source),
              equivariance oracles; normalized_external_field (whole matrix) vs SegModel.nef_matrix.
  gauss       GMM.unweighted_likelihood vs unweighted_likelihood_ vs scipy multivariate_normal;
              exact quadratic forms; diag M-step; equivariances; BIC; bgmm density helpers.
"""
import math
from fractions import Fraction as F

import numpy as np

from ..kit import cz, cq, cql, cnat, clist, frac, REPO

HDR = ("From Coq Require Import List Bool ZArith QArith.\n"
       "From NV.Lib Require Import Harness.\n"
       "From NV.Generated Require Import MrfTables GmmFrags.\n"
       "From NV.C13 Require Import Model.\n")

TOL = F(1, 10 ** 12)


def fl(xs):
    return [frac(float(v)) for v in np.asarray(xs, dtype=float).ravel()]


def cvox(v):
    return "(%s, %s, %s)" % (cz(v[0]), cz(v[1]), cz(v[2]))


def cgrid(dims, K):
    return "(mkGrid %s %s %s %s)" % (cz(dims[0]), cz(dims[1]), cz(dims[2]), cz(K))


def ctbl(pairs):
    return clist(["(%s, %s)" % (cq(k), cq(v)) for k, v in pairs])


def finite(a):
    return bool(np.all(np.isfinite(a)))


# ------------------------------------------------------------------ mrf.c
def ngb_tables():
    from ..translate import mrftables as mt
    src = mt.strip_comments((REPO / mt.SRC).read_text())
    return {6: mt.table(src, "ngb6"), 26: mt.table(src, "ngb26")}


def py_integrate(dims, K, U, ppm, ngb, v):
    """exact (Fraction) re-statement of _ngb_integrate, used to produce the exp oracle arguments;
    itself compared with the Coq model on every case."""
    dx, dy, dz = dims
    u2 = dz * K
    u1 = dy * u2
    posmax = dx * u1 - K
    res = [F(0)] * K
    for a, b, c in ngb:
        pos = (v[0] + a) * u1 + (v[1] + b) * u2 + (v[2] + c) * K
        if pos < 0 or pos > posmax:
            continue
        for k in range(K):
            for kk in range(K):
                res[k] += U[k * K + kk] * ppm[pos + kk]
    return res


def mrf_case(rng, big):
    dims = tuple(int(rng.integers(1, 4 if not big else 5)) for _ in range(3))
    if rng.random() < 0.25:
        dims = (3, 3, 3)
    K = int(rng.integers(1, 4))
    n = dims[0] * dims[1] * dims[2]
    mask = rng.random(dims) < rng.choice([0.5, 0.8, 1.0])
    if not mask.any():
        mask[tuple(int(rng.integers(0, d)) for d in dims)] = True
    XYZ = np.array(np.nonzero(mask)).T.astype(np.intp).copy()
    if rng.random() < 0.3:
        XYZ = XYZ[rng.permutation(len(XYZ))].copy()
    kind = rng.choice(["potts", "int", "asym"])
    if kind == "potts":
        U = np.ones((K, K)) - np.eye(K)
    elif kind == "int":
        A = rng.integers(0, 4, (K, K)).astype(float)
        U = A + A.T
    else:
        U = rng.integers(-2, 4, (K, K)).astype(float)
    ppm = rng.integers(0, 17, dims + (K,)).astype(float) / 16.0
    if rng.random() < 0.5:
        ppm[~mask] = 0.0
    style = rng.choice(["dyadic1", "dyadic", "zero-rows", "tiny-rows"])
    npts = len(XYZ)
    if style == "dyadic1":      # rows k/16 summing to one: exact division when beta == 0
        ref = np.zeros((npts, K))
        for i in range(npts):
            cuts = np.sort(rng.integers(0, 17, K - 1))
            ref[i] = np.diff(np.concatenate([[0], cuts, [16]])) / 16.0
    else:
        ref = rng.integers(0, 9, (npts, K)).astype(float) / 8.0
        if style == "zero-rows":
            ref[rng.random(npts) < 0.5] = 0.0
        elif style == "tiny-rows":
            sel = rng.random(npts) < 0.5
            ref[sel] = ref[sel] * 1e-305
    beta = float(rng.choice([0.0, 0.25, 1.0]))
    ngb_size = int(rng.choice([6, 26]))
    return dims, K, mask, XYZ, U.copy(), ppm.copy(), ref.copy(), beta, ngb_size, style


def mrf(ck):
    from nipy.algorithms.segmentation import _segmentation as S
    tabs = ngb_tables()
    # independent statement of the two neighbourhood systems
    cube = [(a, b, c) for a in (-1, 0, 1) for b in (-1, 0, 1) for c in (-1, 0, 1)]
    want = {6: sorted(o for o in cube if abs(o[0]) + abs(o[1]) + abs(o[2]) == 1), 26: sorted(o for o in cube if o != (0, 0, 0))}
    for sz in (6, 26):
        ck.count(("ngb-table", sz), bucket="mrf:table")
        if sorted(tabs[sz]) != want[sz]:
            ck.fail("ngb-table/not-the-%d-neighbourhood" % sz,
                    "mrf.c ngb%d is not the %d-neighbourhood: extra %s, missing %s, duplicates %s" % (
                        sz, sz, sorted(set(tabs[sz]) - set(want[sz])), sorted(set(want[sz]) - set(tabs[sz])),
                        sorted(set(o for o in tabs[sz] if tabs[sz].count(o) > 1))),
                    {"table": tabs[sz]})
    rng = ck.rng("mrf")
    N = ck.n(90, 700)
    terms, meta = [], []
    n_tiny = n_main = 0
    for ci in range(N):
        dims, K, mask, XYZ, U, ppm0, ref, beta, ngb_size, style = mrf_case(rng, ck.thorough() and ci % 5 == 0)
        ngb = tabs[ngb_size]
        g = cgrid(dims, K)
        Uq = fl(U)
        key = (dims, K, ngb_size, beta, style, XYZ.tobytes(), ppm0.tobytes(), ref.tobytes(), U.tobytes())
        ck.count(key, nontrivial=len(XYZ) > 0, bucket="mrf:ngb%d:beta%g:%s" % (ngb_size, beta, style))
        rep = {"dims": dims, "K": K, "ngb_size": ngb_size, "beta": beta, "U": U.tolist(), "XYZ": XYZ.tolist(),
               "ppm": ppm0.tolist(), "ref": ref.tolist()}
        # ---- implementation: full sweep
        out = S._ve_step(ppm0.copy(), ref, XYZ, U, ngb_size, beta)
        # property oracles on the implementation
        rows = out[tuple(XYZ.T)]
        if not finite(rows) or rows.min() < 0:
            ck.fail("ve_step/negative-or-nan", "ve_step produced a negative or non-finite membership", rep)
        elif np.max(np.abs(rows.sum(1) - 1.0)) > 1e-12:
            bad = int(np.argmax(np.abs(rows.sum(1) - 1.0)))
            small = bool((ref[bad] * 1.0).sum() <= 1e-300)
            ck.fail("ve_step/row-sum/%s" % ("psum<=TINY" if small else "psum>TINY"),
                    "ve_step: memberships of voxel %s sum to %r" % (XYZ[bad].tolist(), float(rows[bad].sum())),
                    dict(rep, voxel=XYZ[bad].tolist(), row=rows[bad].tolist()))
        if not np.array_equal(out[~mask], ppm0[~mask]):
            ck.fail("ve_step/writes-outside-mask", "ve_step modified a voxel that is not in XYZ", rep)
        # ---- exact neighbourhood sums through _interaction_energy on the dyadic start state
        e_impl = float(S._interaction_energy(ppm0.copy(), XYZ, U, ngb_size))
        pts = clist([cvox(v) for v in XYZ.tolist()])
        ppmq = fl(ppm0)
        terms.append("Qeq_bool (interaction_energy %s %s src_ngb%d %s %s) %s" % (
            g, cql(Uq), ngb_size, cql(ppmq), pts, cq(e_impl)))
        meta.append(("energy", rep, e_impl))
        e_ref = sum(sum(ppmq[(((v[0] * dims[1]) + v[1]) * dims[2] + v[2]) * K + k] * b
                        for k, b in enumerate(py_integrate(dims, K, Uq, ppmq, ngb, v))) for v in XYZ.tolist())
        if e_ref != frac(e_impl):
            ck.fail("interaction_energy/neighbourhood-sum", "interaction energy differs from the exact neighbourhood sum: "
                    "impl %r, exact %r" % (e_impl, float(e_ref)), rep)
        # ---- chain of single-voxel updates
        state = ppm0.copy()
        budget = 6 if not ck.thorough() else 12
        for i, v in enumerate(XYZ.tolist()):
            before = state.copy()
            state = S._ve_step(state, ref[i:i + 1].copy(), XYZ[i:i + 1].copy(), U, ngb_size, beta)
            if i >= budget:
                continue
            bq = fl(before)
            p = py_integrate(dims, K, Uq, bq, ngb, v)
            args = [F(-2) * frac(beta) * b for b in p]
            tbl = []
            for a in args:
                try:
                    e = math.exp(float(a))
                except OverflowError:
                    e = float("inf")
                tbl.append((a, e))
            if not all(math.isfinite(e) for _, e in tbl):
                continue
            tmp = [frac(e) * frac(r) for (_, e), r in zip(tbl, ref[i])]
            psum = sum(tmp)
            tiny_branch = psum <= frac(1e-300)
            n_tiny += tiny_branch
            n_main += not tiny_branch
            exact = (beta == 0.0 and style == "dyadic1")
            tol = F(0) if exact else TOL
            terms.append("qlist_close %s (ve_voxel (qlookup %s) %s src_TINY %s %s src_ngb%d %s %s %s) %s" % (
                cq(tol), ctbl(tbl), cq(beta), g, cql(Uq), ngb_size, cql(bq), cvox(v), cql(fl(ref[i])),
                cql(fl(state))))
            meta.append(("voxel", dict(rep, step=i, voxel=v, state_before=before.tolist(), exp_table=[(float(a), e) for a, e in tbl],
                                       tiny_branch=bool(tiny_branch), exact=exact), state.tolist()))
        if not np.array_equal(state, out):
            ck.fail("ve_step/sweep-is-not-sequential", "the full sweep differs from the chain of single-voxel updates", rep)
        if ci < 2:
            ck.sample({"mrf": {"dims": dims, "K": K, "ngb": ngb_size, "beta": beta, "points": len(XYZ),
                               "first_row_out": rows[0].tolist() if len(rows) else None}})
    # fixed boundary cases for the TINY branch on the implementation
    for K in (1, 2, 3, 5):
        for refv in (0.0, 1e-305, 3e-301):
            ppm = np.full((2, 2, 2, K), 1.0 / K)
            XYZ = np.array(np.nonzero(np.ones((2, 2, 2)))).T.astype(np.intp).copy()
            ref = np.full((8, K), refv)
            U = np.ones((K, K)) - np.eye(K)
            out = S._ve_step(ppm.copy(), ref, XYZ, U, 6, 0.25)
            ck.count(("tiny", K, refv), bucket="mrf:tiny-fixed")
            if not finite(out) or np.max(np.abs(out.sum(-1) - 1)) > 1e-12 or out.min() < 0:
                ck.fail("ve_step/row-sum/psum<=TINY", "ve_step with ref == %g, K=%d: rows sum to %r" % (refv, K, out.sum(-1).ravel()[:3].tolist()),
                        {"K": K, "ref": refv, "dims": (2, 2, 2), "ngb_size": 6, "beta": 0.25})
    if ck.build is not None and ck.build.ok:
        res = ck.coq_bools(HDR, terms, shard=40, name="mrf")
        ck.cov["traces_validated_against_impl"] += len(res)
        for ok, (kind, rep, val) in zip(res, meta):
            if not ok:
                if kind == "energy":
                    ck.fail("mrf-model-vs-impl/interaction-energy",
                            "Coq model of _ngb_integrate / interaction_energy disagrees with the implementation (impl %r)" % val, rep)
                else:
                    ck.fail("mrf-model-vs-impl/ve-voxel/%s" % ("psum<=TINY" if rep["tiny_branch"] else "psum>TINY"),
                            "Coq model of the single-voxel VE update disagrees with the implementation at voxel %s" % (rep["voxel"],),
                            dict(rep, impl_state_after=val))
    ck.section("mrf", cases=N, model_terms=len(terms), tiny_branch_steps=int(n_tiny), main_branch_steps=int(n_main))


# ------------------------------------------------------------------ posteriors
def pow2_weights(rng, k):
    """weights that are powers of two and sum to one (products with doubles are exact)"""
    w = [F(1)]
    while len(w) < k:
        i = int(rng.integers(0, len(w)))
        if w[i] < F(1, 64):
            continue
        w[i] /= 2
        w.insert(i, w[i])
    return np.array([float(x) for x in w])


def posteriors(ck):
    from nipy.algorithms.clustering.gmm import GMM
    from nipy.algorithms.clustering import ggmixture as gg
    from nipy.algorithms.segmentation.segmentation import Segmentation, map_from_ppm
    import warnings
    with warnings.catch_warnings():
        warnings.simplefilter("ignore")
        from nipy.algorithms.clustering.von_mises_fisher_mixture import VonMisesMixture
    rng = ck.rng("post")
    terms, meta = [], []
    tiny = 1e-15

    # ---- GMM.pop on dyadic likelihood matrices (exact), incl. rows below the floor
    N = ck.n(120, 1200)
    for ci in range(N):
        k = int(rng.integers(1, 7))
        n = int(rng.integers(1, 7))
        like = np.zeros((n, k))
        under = False
        for i in range(n):
            r = rng.random()
            if r < 0.15:
                like[i] = 0.0
                under = True
            elif r < 0.25:
                like[i] = rng.integers(0, 3, k) * 2.0 ** -60
                under = under or like[i].sum() < tiny
            else:
                cuts = np.sort(rng.integers(0, 17, k - 1))
                like[i] = np.diff(np.concatenate([[0], cuts, [16]])) / 16.0 * 2.0 ** int(rng.integers(-3, 3))
        g = GMM(k=k, dim=1, prec_type="diag")
        pop = g.pop(like.copy())
        ck.count(("pop", like.tobytes()), bucket="pop:underflow-row" if under else "pop:regular")
        rep = {"k": k, "like": like.tolist(), "pop": pop.tolist()}
        terms.append("%s (gmm_pop %s %s %s) %s" % ("qlist_rel %s" % cq(F(1, 10 ** 13)) if under else "qlist_eqb", cq(tiny), cnat(k), clist([cql(fl(r)) for r in like]), cql(fl(pop))))
        meta.append(("gmm-pop", rep))
        # oracle: memberships of every sample sum to one  <=>  populations sum to n
        if abs(pop.sum() - n) > 1e-9:
            ck.fail("gmm-responsibilities/underflow-row" if under else "gmm-responsibilities/row-sum",
                    "GMM.pop: memberships do not sum to one for every sample: sum(pop)=%r for n=%d" % (float(pop.sum()), n), rep)
        if pop.min() < 0:
            ck.fail("gmm-responsibilities/negative", "GMM.pop negative", rep)

    # ---- GMM.likelihood / mixture_likelihood / map_label on real models, incl. far outliers
    N = ck.n(60, 500)
    for ci in range(N):
        dim = int(rng.integers(1, 5))
        k = int(rng.integers(1, 7))
        ptype = str(rng.choice(["full", "diag"]))
        means = rng.integers(-3, 4, (k, dim)).astype(float)
        if ptype == "full":
            prec = np.zeros((k, dim, dim))
            for c in range(k):
                L = np.tril(rng.integers(-1, 2, (dim, dim))).astype(float)
                L[np.diag_indices(dim)] = rng.integers(1, 3, dim)
                prec[c] = L @ L.T
        else:
            prec = rng.integers(1, 5, (k, dim)).astype(float)
        w = pow2_weights(rng, k)
        if k > 1 and rng.random() < 0.3:       # duplicated component with equal weight: exact ties
            pairs = [(a, b) for a in range(k) for b in range(a + 1, k) if w[a] == w[b]]
            if pairs:
                a, b = pairs[int(rng.integers(0, len(pairs)))]
                means[b] = means[a]
                prec[b] = prec[a]
        zero_w = k > 1 and rng.random() < 0.3
        if zero_w:                             # a weight exactly 0: an empty component
            w = np.insert(pow2_weights(rng, k - 1), int(rng.integers(0, k)), 0.0)
        g = GMM(k=k, dim=dim, prec_type=ptype, means=means, precisions=prec, weights=w)
        n = int(rng.integers(1, 6))
        x = rng.integers(-4, 5, (n, dim)).astype(float)
        outl = rng.random() < 0.3
        if outl:
            x[0] = 1000.0 * (1 + rng.integers(0, 3))
        u = g.unweighted_likelihood(x)
        like = g.likelihood(x)
        mix = g.mixture_likelihood(x)
        z = g.map_label(x)
        pop = g.pop(like.copy())
        ck.count(("like", ptype, means.tobytes(), prec.tobytes(), w.tobytes(), x.tobytes()),
                 bucket="gmm:%s:%s%s" % (ptype, "outlier" if outl else "inlier", ":zero-weight" if zero_w else ""))
        rep = {"prec_type": ptype, "k": k, "dim": dim, "means": means.tolist(), "precisions": prec.tolist(),
               "weights": w.tolist(), "x": x.tolist()}
        for i in range(n):
            terms.append("qlist_rel %s (gmm_likelihood %s %s) %s && qrel %s (gmm_mixture %s %s) %s && Nat.eqb (map_label %s) %s" % (
                cq(F(1, 10 ** 15)), cql(fl(w)), cql(fl(u[i])), cql(fl(like[i])),
                cq(TOL), cql(fl(w)), cql(fl(u[i])), cq(float(mix[i])), cql(fl(like[i])), cnat(int(z[i]))))
            meta.append(("gmm-likelihood-row", dict(rep, row=i)))
        # oracles
        if not finite(like) or like.min() < 0:
            ck.fail("gmm-likelihood/negative-or-nan", "GMM.likelihood negative or NaN", rep)
        if np.any(like[np.arange(n), z] < like.max(1)):
            ck.fail("map_label/not-argmax", "map_label is not the arg-max of the likelihood", rep)
        for i in range(n):
            if np.any(like[i, :z[i]] >= like[i, z[i]]):
                ck.fail("map_label/tie-rule", "map_label does not return the first maximum", dict(rep, row=i))
        if zero_w:
            if np.any(like[:, w == 0] != 0) or np.any((w[z] == 0) & (mix > 0)) or np.any(pop[w == 0] != 0):
                ck.fail("gmm-zero-weight-component/gets-likelihood-or-membership",
                        "a component of weight exactly 0 has non-zero likelihood / population or is a MAP label: like %s, labels %s, pop %s" % (
                            like[:, w == 0].tolist(), z.tolist(), pop.tolist()), rep)
        if abs(pop.sum() - n) > 1e-9:
            ck.fail("gmm-responsibilities/underflow-row" if np.any(mix < tiny) else "gmm-responsibilities/row-sum",
                    "GMM memberships (pop of likelihood(x)) do not sum to one per sample: sum(pop) = %r, n = %d, "
                    "mixture likelihoods %s" % (float(pop.sum()), n, mix.tolist()), rep)

    # ---- GGM / GGGM
    N = ck.n(60, 600)
    for ci in range(N):
        far = rng.random() < 0.25
        x = np.round(rng.normal(0, 2, 5), 2)
        if far:
            x[0] = float(rng.choice([-1, 1])) * float(rng.choice([60.0, 1e3, 1e5]))
        G = gg.GGM(shape=float(rng.integers(1, 5)), scale=float(rng.integers(1, 4)), mean=float(rng.integers(-1, 2)),
                   var=float(rng.integers(1, 4)), mixt=float(rng.integers(0, 9)) / 8.0)     # incl. exactly 0 and 1
        gam = gg._gam_dens(G.shape, G.scale, x)
        gau = gg._gaus_dens(G.mean, G.var, x)
        with np.errstate(all="ignore"):
            py, ppg = G.posterior(x)
            zE, _ = G.Estep(x)
        ck.count(("ggm", x.tobytes(), G.shape, G.scale, G.mean, G.var, G.mixt), bucket="ggm:far" if far else "ggm:near")
        rep = {"model": "GGM", "shape": G.shape, "scale": G.scale, "mean": G.mean, "var": G.var, "mixt": G.mixt, "x": x.tolist()}
        for i in range(len(x)):
            tot = (1 - G.mixt) * gau[i] + G.mixt * gam[i]
            if tot > 0:
                terms.append("qlist_rel %s (ggm_posterior %s %s %s) %s" % (
                    cq(TOL), cq(G.mixt), cq(float(gam[i])), cq(float(gau[i])), cql(fl([py[i], ppg[i]]))))
                meta.append(("ggm-posterior", dict(rep, i=i)))
            terms.append("qlist_rel %s (ggm_estep %s %s %s %s) %s" % (
                cq(TOL), cq(1e-15), cq(G.mixt), cq(float(gam[i])), cq(float(gau[i])), cql(fl(zE[i]))))
            meta.append(("ggm-estep", dict(rep, i=i)))
            s = py[i] + ppg[i]
            if not (np.isfinite(s) and abs(s - 1) < 1e-12 and py[i] >= 0 and ppg[i] >= 0):
                ck.fail("ggm-posterior/%s" % ("zero-total-density" if tot == 0 else "row-sum"),
                        "GGM.posterior(x=%r) = (%r, %r): not a point of the simplex" % (float(x[i]), float(py[i]), float(ppg[i])),
                        dict(rep, i=i))
            sE = zE[i].sum()
            if not (abs(sE - 1) < 1e-12) and (G.mixt * gam[i] + (1 - G.mixt) * gau[i]) >= 1e-15:
                ck.fail("ggm-estep/row-sum", "GGM.Estep row does not sum to one: %r" % float(sE), dict(rep, i=i))
        # GGGM
        G3 = gg.GGGM(shape_n=float(rng.integers(1, 4)), scale_n=float(rng.integers(1, 3)), mean=0.0, var=float(rng.integers(1, 3)),
                     shape_p=float(rng.integers(1, 4)), scale_p=float(rng.integers(1, 3)),
                     mixt=np.array([[2, 4, 2], [0, 4, 4], [4, 4, 0], [0, 8, 0], [1, 6, 1], [4, 0, 4]][int(rng.integers(0, 6))]) / 8.0)
        ng, y, pg = G3.component_likelihood(x)
        with np.errstate(all="ignore"):
            post = np.array(G3.posterior(x)).T
            z3, _ = G3.Estep(x)
        rep3 = {"model": "GGGM", "x": x.tolist(), "mixt": G3.mixt.tolist(), "shape_n": G3.shape_n, "scale_n": G3.scale_n,
                "var": G3.var, "shape_p": G3.shape_p, "scale_p": G3.scale_p}
        for i in range(len(x)):
            tot = ng[i] * G3.mixt[0] + y[i] * G3.mixt[1] + pg[i] * G3.mixt[2]
            ps = ", ".join(cq(float(v)) for v in G3.mixt)
            ds = " ".join(cq(float(v)) for v in (ng[i], y[i], pg[i]))
            if tot > 0:
                terms.append("qlist_rel %s (gggm_posterior %s %s) %s" % (cq(TOL), ps.replace(",", ""), ds, cql(fl(post[i]))))
                meta.append(("gggm-posterior", dict(rep3, i=i)))
            terms.append("qlist_rel %s (gggm_estep %s %s %s) %s" % (cq(TOL), cq(1e-15), ps.replace(",", ""), ds, cql(fl(z3[i]))))
            meta.append(("gggm-estep", dict(rep3, i=i)))
            s = post[i].sum()
            if not (np.isfinite(s) and abs(s - 1) < 1e-12 and post[i].min() >= 0):
                ck.fail("gggm-posterior/%s" % ("zero-total-density" if tot == 0 else "row-sum"),
                        "GGGM.posterior(x=%r) = %s: not a point of the simplex" % (float(x[i]), post[i].tolist()), dict(rep3, i=i))

    # ---- von Mises-Fisher responsibilities
    N = ck.n(40, 400)
    for ci in range(N):
        k = int(rng.integers(1, 6))
        prec = float(rng.choice([0.1, 0.5, 1.0, 2.0, 4.0, 8.0, 15.0, 16.0, 50.0, 100.0, 256.0, 2000.0]))
        m = rng.normal(size=(k, 3))
        m = (m.T / np.sqrt((m ** 2).sum(1))).T
        nullc = bool(rng.random() < 0.3)
        kk = k + 1 if nullc else k
        w = pow2_weights(rng, kk)
        zero_w = kk > 1 and rng.random() < 0.4
        if zero_w:                                  # a weight exactly 0 (boundary of the simplex): an empty component / null class
            zi = int(rng.integers(0, kk))
            w = np.insert(pow2_weights(rng, kk - 1), zi, 0.0)
        v = VonMisesMixture(k, prec, means=m, weights=w, null_class=nullc)
        x = rng.normal(size=(5, 3))
        x = (x.T / np.sqrt((x ** 2).sum(1))).T
        x[0] = m[0]
        x[1] = m[int(rng.integers(0, k))]
        if zero_w and (not nullc or zi > 0):
            x[2] = m[zi - 1 if nullc else zi]       # a sample AT the mean of the zero-weight component
        x[3] = -m.sum(0) / np.sqrt((m.sum(0) ** 2).sum()) if np.abs(m.sum(0)).max() > 0 else x[3]    # far from the means
        with np.errstate(all="ignore"):
            lwl = v.log_weighted_density(x)
            resp = v.responsibilities(x)
            wd = v.weighted_density(x)
            md = v.mixture_density(x)
            wl_mean = np.exp(lwl.T - lwl.mean(1)).T      # the pre-fix shift, only used to name the failure
            dens = v.density_per_component(x)
        # definition: von Mises-Fisher density on the sphere  kappa exp(kappa mu.x) / (4 pi sinh kappa); uniform 1/(4 pi) for the null class
        lsinh = math.log(math.sinh(prec)) if prec < 700 else prec - math.log(2)
        want_d = np.exp(math.log(prec) - math.log(4 * math.pi) - lsinh + prec * (x @ m.T))
        if nullc:
            want_d = np.hstack([np.full((len(x), 1), 1 / (4 * math.pi)), want_d])
        cls_k = "kappa<=16" if prec <= 16 else "kappa>16"
        if dens.shape != want_d.shape or not np.allclose(dens, want_d, rtol=1e-9, atol=1e-300):
            i, c = np.unravel_index(int(np.argmax(np.abs(dens - want_d) / (want_d + 1e-300))), want_d.shape) if dens.shape == want_d.shape else (0, 0)
            ck.fail("vmf-density/%s/not-the-von-mises-fisher-density" % cls_k,
                    "VonMisesMixture(precision=%g).density_per_component[%d,%d] = %r but kappa exp(kappa mu.x) / (4 pi sinh kappa) = %r" % (
                        prec, i, c, float(dens[i, c]) if dens.shape == want_d.shape else float("nan"), float(want_d[i, c])),
                    {"k": k, "precision": prec, "means": m.tolist(), "null_class": nullc, "x": x.tolist()})
        if prec <= 64:          # total mass over the sphere: Gauss-Legendre in the polar cosine x uniform in azimuth
            uu, wu = np.polynomial.legendre.leggauss(96)
            ph = (np.arange(192) + 0.5) * (2 * math.pi / 192)
            U, PH = np.meshgrid(uu, ph, indexing="ij")
            pts = np.stack([np.sqrt(1 - U ** 2) * np.cos(PH), np.sqrt(1 - U ** 2) * np.sin(PH), U], -1).reshape(-1, 3)
            mass = (v.density_per_component(pts).reshape(96, 192, -1) * wu[:, None, None]).sum((0, 1)) * (2 * math.pi / 192)
            if np.max(np.abs(mass - 1)) > 1e-7:
                ck.fail("vmf-density/%s/does-not-integrate-to-one" % cls_k,
                        "VonMisesMixture(precision=%g): component densities integrate to %s over the sphere" % (prec, mass.tolist()),
                        {"k": k, "precision": prec, "means": m.tolist(), "null_class": nullc})
        ck.count(("vmf", m.tobytes(), x.tobytes(), prec, nullc, w.tobytes()),
                 bucket="vmf:%s%s" % ("prec>=2000" if prec >= 2000 else "moderate", ":zero-weight" if zero_w else ""))
        rep = {"k": k, "precision": prec, "means": m.tolist(), "weights": w.tolist(), "null_class": nullc, "x": x.tolist()}
        for i in range(len(x)):
            pos = [j for j in range(kk) if w[j] > 0]
            row = fl(lwl[i][pos])
            mx = max(row)
            tbl = [(a - mx, math.exp(float(a - mx))) for a in row]       # exp oracle at the exact max-shifted arguments
            terms.append("qlist_close %s (vmf_resp (qlookup %s) %s) %s" % (cq(F(1, 10 ** 11)), ctbl(tbl), cql(row),
                                                                        cql(fl(np.nan_to_num(resp[i][pos], nan=-1.0)))))
            meta.append(("vmf-resp", dict(rep, i=i)))
            ok = finite(resp[i]) and abs(resp[i].sum() - 1) < 1e-12 and resp[i].min() >= 0
            if not ok:
                ck.fail("vmf-responsibilities/%s" % ("exp-overflow-mean-shift" if not finite(wl_mean[i]) else "row-sum"),
                        "VonMisesMixture(precision=%g).responsibilities row = %s" % (prec, resp[i].tolist()), dict(rep, i=i))
                continue
            tag = "zero-weight-component" if zero_w else "positive-weights"
            if np.any(resp[i][w == 0] != 0):
                ck.fail("vmf-responsibilities/%s/probability-zero-component-gets-membership" % tag,
                        "a component of weight exactly 0 has responsibility %s (precision %g)" % (resp[i][w == 0].tolist(), prec), dict(rep, i=i))
            if finite(wd[i]) and md[i] > 1e-280:
                want = wd[i] / md[i]
                if np.max(np.abs(resp[i] - want)) > 1e-9:
                    ck.fail("vmf-responsibilities/%s/not-weighted-density-over-mixture-density" % tag,
                            "responsibilities %s differ from weighted_density / mixture_density = %s" % (resp[i].tolist(), want.tolist()), dict(rep, i=i))
                if resp[i][int(np.argmax(resp[i]))] < want.max() - 1e-9:
                    ck.fail("vmf-responsibilities/%s/argmax" % tag, "most probable component differs from the arg-max of weight * density", dict(rep, i=i))

    # ---- Segmentation.normalized_external_field, map_from_ppm
    # outliers: one in-mask voxel at 12 .. 1e4 class standard deviations from every class mean while the other voxels fit
    # well (the soft-max must be stabilised PER VOXEL); masks; beta = 0 (Python path) and beta > 0 (mrf.c path)
    N = ck.n(30, 240)
    for ci in range(N):
        K = int(rng.integers(1, 4))
        nch = int(rng.integers(1, 3))
        shape = (2, 2, 2) if nch == 1 else (2, 2, 2, nch)
        data = rng.integers(-3, 4, shape).astype(float)
        far = ci % 5 in (1, 3)
        dist = 0.0
        if far:
            dist = float([12, 30, 45, 64, 100, 1000, 1e4][(ci // 5) % 7])
            data[(0, 0, 0)] = dist * 2.0                     # sigma <= 3 < 4: at least `dist` standard deviations away
        mu = rng.integers(-2, 3, (K, nch)).astype(float)
        sigma = np.array([np.eye(nch) * float(rng.integers(1, 4)) for _ in range(K)])
        mask = None
        if ci % 3 == 2:
            mask = rng.random((2, 2, 2)) < 0.7
            mask[0, 0, 0] = True
        beta = [0.25, 0.0, 1.0][ci % 3 if ci % 4 else 0]
        seg = Segmentation(data, mask=mask, mu=mu, sigma=sigma, beta=beta, ngb_size=6 if ci % 2 else 26)
        with np.errstate(all="ignore"):
            lef = seg.log_external_field()
            nef = seg.normalized_external_field()
        fclass = "near" if not far else ("outlier<=30sd" if dist <= 30 else "outlier>=45sd")
        ck.count(("nef", data.tobytes(), mu.tobytes(), sigma.tobytes(), beta, None if mask is None else mask.tobytes()),
                 bucket="nef:%s:beta%s0" % (fclass, "=" if beta == 0 else ">"))
        rep = {"data": data.tolist(), "mu": mu.tolist(), "sigma": sigma.tolist(), "beta": beta, "ngb_size": seg.ngb_size,
               "mask": None if mask is None else mask.astype(int).tolist()}
        for i in range(nef.shape[0]):
            mx = float(np.max(lef[i]))
            e = np.exp(lef[i] - mx)
            good = bool(finite(nef[i]) and abs(nef[i].sum() - 1) < 1e-12 and nef[i].min() >= 0)
            if not good:
                ck.fail("nef/row-sum/%s" % fclass, "normalized_external_field row %d = %s (log external field %s): not a point of the simplex" % (
                    i, nef[i].tolist(), lef[i].tolist()), dict(rep, i=i))
            # per-voxel definition: exp(lef - max of THIS row) / its sum, whatever the other voxels are
            want = e / e.sum()
            if good and np.max(np.abs(nef[i] - want)) > 1e-12:
                ck.fail("nef/not-the-per-voxel-softmax/%s" % fclass, "normalized_external_field row %d = %s but softmax(log external field) = %s" % (
                    i, nef[i].tolist(), want.tolist()), dict(rep, i=i))
            terms.append("Qeq_bool (lmax %s) %s && qlist_rel %s (normalize %s) %s" % (
                cql(fl(lef[i])), cq(mx), cq(TOL), cql(fl(e)), cql(fl(np.nan_to_num(nef[i], nan=-1.0, posinf=-1.0, neginf=-1.0)))))
            meta.append(("nef-row", dict(rep, i=i)))
        # a voxel's row must not depend on the OTHER voxels: the same object restricted to one voxel at a time
        if seg.data.shape[0] > 1:
            for i in sorted({0, nef.shape[0] - 1}):
                one = np.zeros((2, 2, 2), bool)
                one[tuple(seg.XYZ[i])] = True
                s1 = Segmentation(data, mask=one, mu=mu, sigma=sigma, beta=beta, ngb_size=seg.ngb_size)
                with np.errstate(all="ignore"):
                    n1 = s1.normalized_external_field()[0]
                if not (finite(n1) and finite(nef[i]) and np.max(np.abs(n1 - nef[i])) <= 1e-12):
                    ck.fail("nef/row-depends-on-other-voxels/%s" % fclass,
                            "normalized_external_field of voxel %s is %s in the image but %s when it is the only in-mask voxel" % (
                                seg.XYZ[i].tolist(), nef[i].tolist(), n1.tolist()), dict(rep, i=i))
        with np.errstate(all="ignore"):
            seg.ve_step()
        q = seg.ppm[seg.mask]
        if not (finite(q) and np.max(np.abs(q.sum(1) - 1)) < 1e-12 and q.min() >= 0):
            ck.fail("segmentation-ve_step/row-sum/%s/beta%s0" % (fclass, "=" if beta == 0 else ">"),
                    "Segmentation.ve_step: ppm rows of in-mask voxels not on the simplex: %s" % q.tolist(), rep)
        lab = seg.map()
        for idx in np.ndindex(lab.shape):
            row = seg.ppm[idx]
            if not seg.mask[idx]:
                if lab[idx] != 0:
                    ck.fail("map_from_ppm/label-outside-mask", "Segmentation.map() labels a voxel outside the mask", dict(rep, voxel=list(idx)))
                continue
            if not finite(row):
                continue                                     # reported by the simplex oracle above
            terms.append("Nat.eqb (map_from_ppm_row %s) %s" % (cql(fl(row)), cnat(int(lab[idx]))))
            meta.append(("map-from-ppm", dict(rep, voxel=list(idx))))
            if row[lab[idx] - 1] < row.max() or np.any(row[:lab[idx] - 1] >= row[lab[idx] - 1]):
                ck.fail("map_from_ppm/not-first-argmax", "Segmentation.map() is not the first arg-max of ppm", dict(rep, voxel=list(idx)))

    if ck.build is not None and ck.build.ok:
        res = ck.coq_bools(HDR, terms, shard=300, name="post")
        ck.cov["traces_validated_against_impl"] += len(res)
        for ok, (kind, rep) in zip(res, meta):
            if not ok:
                ck.fail("posterior-model-vs-impl/%s" % kind, "Coq model (%s) disagrees with the implementation" % kind, rep)
    ck.section("posteriors", model_terms=len(terms))


# ------------------------------------------------------------------ gaussian algebra, M-step, BIC, bgmm helpers
def cqc(x):
    return "(Q2Qc %s)" % cq(x)


def cqcl(xs):
    return clist([cqc(x) for x in xs])


def cqmat(M):
    return clist([cql(fl(r)) for r in np.asarray(M, dtype=float)])


def rand_gmm(rng, ptype, k, dim):
    from nipy.algorithms.clustering.gmm import GMM
    means = rng.integers(-3, 4, (k, dim)).astype(float)
    if ptype == "full":
        prec = np.zeros((k, dim, dim))
        for c in range(k):
            L = np.tril(rng.integers(-2, 3, (dim, dim))).astype(float)
            L[np.diag_indices(dim)] = rng.integers(1, 4, dim)
            prec[c] = L @ L.T
    else:
        prec = rng.integers(1, 6, (k, dim)).astype(float)
    w = pow2_weights(rng, k)
    return GMM(k=k, dim=dim, prec_type=ptype, means=means, precisions=prec, weights=w)


def gauss(ck):
    from nipy.algorithms.clustering.gmm import GMM
    from nipy.algorithms.clustering import bgmm
    from scipy.linalg import eigvalsh
    import scipy.stats as st
    rng = ck.rng("gauss")
    terms, meta = [], []
    L2PI = float(np.log(2 * np.pi))

    # ---- likelihoods: two implementations, exact quadratic forms, scipy
    N = ck.n(48, 800)
    for ci in range(N):
        dim = 1 + ci % 4
        k = 1 + (ci // 4) % 6
        ptype = "full" if rng.random() < 0.6 else "diag"
        g = rand_gmm(rng, ptype, k, dim)
        n = int(rng.integers(1, 5))
        x = rng.integers(-5, 6, (n, dim)).astype(float)
        outl = rng.random() < 0.25
        if outl:
            x[-1] = float(rng.choice([40.0, 1000.0])) * np.sign(rng.normal(size=dim))
        l1 = g.unweighted_likelihood(x)
        l2 = g.unweighted_likelihood_(x)
        ck.count(("ul", ptype, g.means.tobytes(), g.precisions.tobytes(), x.tobytes()),
                 bucket="like:%s:dim%d:%s" % (ptype, dim, "outlier" if outl else "inlier"))
        rep = {"prec_type": ptype, "k": k, "dim": dim, "means": g.means.tolist(), "precisions": g.precisions.tolist(), "x": x.tolist()}
        if not np.allclose(l1, l2, rtol=1e-12, atol=0):
            ck.fail("likelihood/two-implementations-differ", "unweighted_likelihood and unweighted_likelihood_ differ: %s vs %s" % (l1.tolist(), l2.tolist()), rep)
        for c in range(k):
            P = g.precisions[c] if ptype == "full" else np.diag(g.precisions[c])
            cov = np.linalg.inv(P)
            logdet = float(np.log(eigvalsh(P)).sum()) if ptype == "full" else float(np.sum(np.log(g.precisions[c])))
            mvn = st.multivariate_normal(mean=g.means[c], cov=cov, allow_singular=False)
            for i in range(n):
                dxv = [F(int(a)) - F(int(b)) for a, b in zip(g.means[c], x[i])]
                Pq = [[F(int(v)) for v in row] for row in P]
                q = sum(dxv[a] * Pq[a][b] * dxv[b] for a in range(dim) for b in range(dim))
                if ptype == "full":
                    terms.append("Qc_eq_bool (quad_rowwise_Qc %s %s %s %s) %s && Qc_eq_bool (quad_colwise_Qc %s %s %s) %s" % (
                        cnat(dim), cqcl(fl(g.means[c])), cqcl(fl(x[i])), clist([cqcl(fl(r)) for r in P]), cqc(q),
                        cqcl(fl(g.means[c])), cqcl(fl(x[i])), clist([cqcl(fl(r)) for r in P]), cqc(q)))
                else:
                    terms.append("Qc_eq_bool (quad_diag_rowwise_Qc %s %s %s) %s && Qc_eq_bool (quad_diag_colwise_Qc %s %s %s) %s" % (
                        cqcl(fl(g.means[c])), cqcl(fl(x[i])), cqcl(fl(g.precisions[c])), cqc(q),
                        cqcl(fl(g.means[c])), cqcl(fl(x[i])), cqcl(fl(g.precisions[c])), cqc(q)))
                meta.append(("quadratic-form", dict(rep, comp=c, row=i)))
                # the code's expression with the model's exact q and the oracle values L2PI, LOGDET
                expect = math.exp(((-L2PI * dim + logdet) - float(q)) / 2)
                for nm, lv in (("unweighted_likelihood", l1[i, c]), ("unweighted_likelihood_", l2[i, c])):
                    if abs(lv - expect) > 1e-12 * expect:
                        ck.fail("likelihood/%s/model-expression" % nm,
                                "%s[%d,%d] = %r but exp((-log(2pi)*dim + logdet - q)/2) with the exact q = %s gives %r" % (nm, i, c, float(lv), q, expect),
                                dict(rep, comp=c, row=i))
                # independent density
                ref = float(mvn.pdf(x[i]))
                if abs(l1[i, c] - ref) > 1e-9 * ref + 1e-300:
                    ck.fail("likelihood/not-the-gaussian-density", "unweighted_likelihood[%d,%d] = %r, N(mean, inv(P)) density = %r" % (i, c, float(l1[i, c]), ref),
                            dict(rep, comp=c, row=i))
        if ci < 1:
            ck.sample({"gmm": rep, "unweighted_likelihood": l1.tolist()})

    # ---- diag M-step: model vs implementation; equivariances on the implementation (diag and full)
    N = ck.n(36, 400)
    for ci in range(N):
        dim = 1 + ci % 4
        k = 1 + (ci // 4) % 6
        ptype = "diag" if ci % 3 else "full"
        n = int(rng.integers(max(k, dim) + 2, max(k, dim) + 9))
        x = rng.integers(-6, 7, (n, dim)).astype(float)
        x[:dim + 1] += np.vstack([np.zeros(dim), np.eye(dim)]) * 0.5     # every axis has positive variance
        outl = rng.random() < 0.3
        if outl:
            x[-1] = 500.0
        style = rng.choice(["hard", "dyadic", "model", "hard-empty"]) if k > 1 else rng.choice(["hard", "dyadic", "model"])
        if style == "hard-empty":              # one component receives no sample at all (population exactly 0)
            empty = int(rng.integers(0, k))
            others = [c for c in range(k) if c != empty]
            lab = np.array(others)[np.concatenate([np.arange(k - 1), rng.integers(0, k - 1, n - (k - 1))])]
            like = np.zeros((n, k))
            like[np.arange(n), lab[:n]] = 1.0
        elif style == "hard":
            lab = np.concatenate([np.arange(k), rng.integers(0, k, n - k)]) if n >= k else rng.integers(0, k, n)
            like = np.zeros((n, k))
            like[np.arange(n), lab[:n]] = 1.0
        elif style == "dyadic":
            like = rng.integers(0, 9, (n, k)).astype(float) / 8.0
            like[like.sum(1) == 0, 0] = 1.0
        else:
            like = rand_gmm(rng, ptype, k, dim).likelihood(x) + 2.0 ** -40

        def fit(xx, ll, perm=None):
            g = GMM(k=k, dim=dim, prec_type=ptype)
            g.guess_regularizing(xx)
            if perm is not None:
                g.prior_means = g.prior_means[perm].copy()
                g.prior_scale = g.prior_scale[perm].copy()
                g.prior_weights = (np.arange(1, k + 1) / (k * (k + 1) / 2.0))[perm].copy()
            else:
                g.prior_weights = np.arange(1, k + 1) / (k * (k + 1) / 2.0)
            pri = (g.prior_means.copy(), g.prior_scale.copy(), g.prior_weights.copy(), float(g.prior_dof), float(g.prior_shrinkage))
            g._Mstep(xx, ll.copy())
            return g, pri
        g0, pri = fit(x, like)
        ck.count(("mstep", ptype, x.tobytes(), like.tobytes()), bucket="mstep:%s:%s%s" % (ptype, style, ":outlier" if outl else ""))
        rep = {"prec_type": ptype, "k": k, "dim": dim, "x": x.tolist(), "like": like.tolist()}
        # executed through mstep_diag_x (fractions reduced after every accumulation step); float-valued
        # likelihoods with exponents spread over 2^-190..1 still give 1000-bit fractions: quick tier keeps the small ones
        if ptype == "diag" and (style != "model" or n * k * dim <= (80 if ck.thorough() else 40)):
            pm, ps, pw, dof0, small = pri
            terms.append("let '(w, m, p) := mstep_diag_x %s %s %s %s %s %s %s %s %s %s in "
                         "qlist_close %s w %s && list_eqb (qlist_close %s) m %s && list_eqb (qlist_rel %s) p %s" % (
                             cq(1e-15), cq(small), cq(dof0), cql(fl(pw)), cqmat(pm), cqmat(ps), cnat(k), cnat(dim), cqmat(like), cqmat(x),
                             cq(F(1, 10 ** 10)), cql(fl(g0.weights)), cq(F(1, 10 ** 9)), cqmat(g0.means), cq(F(1, 10 ** 9)), cqmat(g0.precisions)))
            meta.append(("mstep-diag", rep))
        if not (finite(g0.means) and finite(g0.precisions) and abs(g0.weights.sum() - 1) < 1e-12 and g0.weights.min() >= 0):
            ck.fail("mstep/invalid-parameters", "M-step produced non-finite parameters or weights off the simplex", rep)
        # relabelling
        perm = rng.permutation(k)
        g1, _ = fit(x, like[:, perm], perm)
        if not (np.allclose(g1.means, g0.means[perm], rtol=1e-9, atol=1e-9) and np.allclose(g1.precisions, g0.precisions[perm], rtol=1e-9)
                and np.allclose(g1.weights, g0.weights[perm], rtol=1e-9)):
            ck.fail("mstep/label-equivariance", "relabelling the components does not permute the fitted parameters", dict(rep, perm=perm.tolist()))
        # translation
        t = rng.integers(-8, 9, dim).astype(float)
        g2, _ = fit(x + t, like)
        if not (np.allclose(g2.means, g0.means + t, rtol=1e-9, atol=1e-9) and np.allclose(g2.precisions, g0.precisions, rtol=1e-8, atol=1e-12)
                and np.allclose(g2.weights, g0.weights, rtol=1e-12)):
            ck.fail("mstep/translation-equivariance/%s" % ptype, "translating the data does not translate the fitted means / keep precisions", dict(rep, t=t.tolist()))
        # scaling: uniform (same factor on every axis) and per-axis
        cu = np.full(dim, float(rng.choice([0.5, 2.0, -3.0, 8.0])))
        c = 2.0 ** rng.integers(-2, 4, dim) * rng.choice([1.0, -1.0, 3.0], dim)
        g3u, _ = fit(x * cu, like)
        g3, _ = fit(x * c, like)
        for cc, gg, tag in ((cu, g3u, "uniform"), (c, g3, "per-axis")):
            pexp = g0.precisions / (cc ** 2) if ptype == "diag" else g0.precisions / np.outer(cc, cc)
            if not (np.allclose(gg.means, g0.means * cc, rtol=1e-9, atol=1e-9) and np.allclose(gg.precisions, pexp, rtol=1e-7, atol=1e-12)):
                ck.fail("mstep/scaling-equivariance/%s/%s%s" % (ptype, tag, "/dim>=2" if dim >= 2 else ""),
                        "rescaling the axes (%s) does not rescale the fitted means / precisions accordingly" % tag,
                        dict(rep, c=cc.tolist(), precisions=gg.precisions.tolist(), expected_precisions=pexp.tolist()))
        # memberships unchanged under the transformations (rows of the normalised likelihood)
        def memb(g, xx):
            l = g.likelihood(xx)
            sl = l.sum(1)
            ok = sl > 1e-200
            return (l[ok].T / sl[ok]).T, ok
        m0, ok0 = memb(g0, x)
        m2, ok2 = memb(g2, x + t)
        if not (np.array_equal(ok0, ok2) and np.allclose(m0, m2, atol=1e-7)):
            ck.fail("mstep/memberships-change-under-translation", "memberships change when data are translated", dict(rep, t=t.tolist()))
        for cc, gg, tag in ((cu, g3u, "uniform"), (c, g3, "per-axis")):
            m3, ok3 = memb(gg, x * cc)
            if not (np.array_equal(ok0, ok3) and np.allclose(m0, m3, atol=1e-7)):
                ck.fail("mstep/memberships-change-under-scaling/%s/%s%s" % (ptype, tag, "/dim>=2" if dim >= 2 else ""),
                        "memberships change when axes are rescaled (%s)" % tag, dict(rep, c=cc.tolist()))

    # ---- BIC parameter count
    for ptype in ("diag", "full"):
        for dim in range(1, 5):
            for k in range(1, 7):
                g = GMM(k=k, dim=dim, prec_type=ptype)
                n = 8
                like = np.full((n, k), 1.0 / k)
                b = float(g.bic(like))
                eta2 = int(round(-2 * b / math.log(n)))
                ck.count(("bic", ptype, dim, k), bucket="bic:%s" % ptype)
                if ptype == "full":
                    terms.append("Qeq_bool (src_bic_eta_full %s %s) %s" % (cq(k), cq(dim), cq(F(eta2, 2))))
                    free2 = 2 * (k - 1) + 2 * k * dim + k * dim * (dim + 1)
                else:
                    terms.append("Qeq_bool (src_bic_eta_diag %s %s) %s" % (cq(k), cq(dim), cq(F(eta2, 2))))
                    free2 = 2 * ((k - 1) + 2 * k * dim)
                meta.append(("bic-count", {"prec_type": ptype, "k": k, "dim": dim, "eta_times_2": eta2}))
                if eta2 != free2:
                    ck.fail("bic/%s-param-count/dim>=2" % ptype if dim >= 2 else "bic/%s-param-count" % ptype,
                            "GMM(k=%d, dim=%d, prec_type=%r).bic penalises %g parameters; the model has %g free parameters" % (k, dim, ptype, eta2 / 2, free2 / 2),
                            {"prec_type": ptype, "k": k, "dim": dim, "eta_code": eta2 / 2, "free_parameters": free2 / 2})

    # ---- bgmm density helpers against scipy.stats (TESTS, not proofs)
    N = ck.n(40, 300)
    for ci in range(N):
        dim = 1 + ci % 4
        L = np.tril(rng.integers(-2, 3, (dim, dim))).astype(float)
        L[np.diag_indices(dim)] = rng.integers(1, 4, dim)
        P = L @ L.T
        mu = rng.integers(-3, 4, dim).astype(float)
        x = rng.integers(-4, 5, dim).astype(float)
        ck.count(("bgmm", P.tobytes(), mu.tobytes(), x.tobytes()), bucket="bgmm-helpers(test)")
        rep = {"P": P.tolist(), "mu": mu.tolist(), "x": x.tolist()}
        a = bgmm.normal_eval(mu, P, x)
        b = float(st.multivariate_normal(mean=mu, cov=np.linalg.inv(P)).pdf(x))
        if abs(a - b) > 1e-9 * b:
            ck.fail("bgmm/normal_eval-vs-scipy", "normal_eval = %r, scipy N(mu, inv(P)).pdf = %r" % (a, b), rep)
        nu = float(dim + int(rng.integers(0, 5)))
        M = np.tril(rng.integers(-1, 2, (dim, dim))).astype(float)
        M[np.diag_indices(dim)] = rng.integers(1, 3, dim)
        W = M @ M.T
        a = bgmm.wishart_eval(nu, P, W)
        b = float(st.wishart(df=nu, scale=P).pdf(W))
        if abs(a - b) > 1e-9 * b:
            ck.fail("bgmm/wishart_eval-vs-scipy", "wishart_eval = %r, scipy wishart.pdf = %r" % (a, b), dict(rep, n=nu, W=W.tolist()))
        kk = int(rng.integers(2, 6))
        alpha = rng.integers(1, 6, kk).astype(float) / 2.0
        cuts = np.sort(rng.choice(np.arange(1, 16), kk - 1, replace=False))
        wv = np.diff(np.concatenate([[0], cuts, [16]])) / 16.0
        a = bgmm.dirichlet_eval(wv, alpha)
        b = float(st.dirichlet(alpha).pdf(wv))
        if abs(a - b) > 1e-9 * b:
            ck.fail("bgmm/dirichlet_eval-vs-scipy", "dirichlet_eval = %r, scipy dirichlet.pdf = %r" % (a, b), {"w": wv.tolist(), "alpha": alpha.tolist()})

    if ck.build is not None and ck.build.ok:
        hdr = HDR + "From Coq Require Import Qcanon.\nClose Scope Qc_scope.\n"
        res = ck.coq_bools(hdr, terms, shard=40, name="gauss")
        ck.cov["traces_validated_against_impl"] += len(res)
        for ok, (kind, rep) in zip(res, meta):
            if not ok:
                ck.fail("gauss-model-vs-impl/%s" % kind, "Coq model (%s) disagrees with the implementation" % kind, rep)
    ck.section("gauss", model_terms=len(terms))


# ------------------------------------------------------------------ bgmm densities / divergences
def finv(M):
    """exact inverse of a small rational matrix (Gauss-Jordan over Fractions)"""
    n = len(M)
    A = [[F(v) for v in row] + [F(int(i == j)) for j in range(n)] for i, row in enumerate(M)]
    for c in range(n):
        piv = next(r for r in range(c, n) if A[r][c] != 0)
        A[c], A[piv] = A[piv], A[c]
        pv = A[c][c]
        A[c] = [v / pv for v in A[c]]
        for r in range(n):
            if r != c and A[r][c] != 0:
                f = A[r][c]
                A[r] = [a - f * b for a, b in zip(A[r], A[c])]
    return [row[n:] for row in A]


def rand_spd_int(rng, dim, lo=1, hi=4):
    L = np.tril(rng.integers(-2, 3, (dim, dim))).astype(float)
    L[np.diag_indices(dim)] = rng.integers(lo, hi, dim)
    return L @ L.T


def ref_kl_gauss(m1, P1, m2, P2):
    """KL(N(m1, inv P1) || N(m2, inv P2)) written with covariances"""
    S1, S2 = np.linalg.inv(P1), np.linalg.inv(P2)
    dm = m2 - m1
    return 0.5 * (np.trace(np.linalg.solve(S2, S1)) + dm @ np.linalg.solve(S2, dm) - m1.size
                  + np.linalg.slogdet(S2)[1] - np.linalg.slogdet(S1)[1])


def ref_kl_wishart(n1, V1, n2, V2):
    """KL(W(n1, V1) || W(n2, V2)), V = scale matrices"""
    from scipy.special import multigammaln, psi
    p = V1.shape[0]
    M = np.linalg.solve(V2, V1)
    mpsi = sum(psi((n1 - i) / 2) for i in range(p))
    return (-(n2 / 2) * np.linalg.slogdet(M)[1] + (n1 / 2) * (np.trace(M) - p)
            + multigammaln(n2 / 2, p) - multigammaln(n1 / 2, p) + (n1 - n2) / 2 * mpsi)


def ref_kl_dirichlet(a, b):
    from scipy.special import gammaln, psi
    return (gammaln(a.sum()) - gammaln(a).sum() - gammaln(b.sum()) + gammaln(b).sum()
            + ((a - b) * (psi(a) - psi(a.sum()))).sum())


def quad(f, t):
    return float(np.trapezoid(f, t))


def bgmm_helpers(ck):
    from nipy.algorithms.clustering import bgmm
    import scipy.stats as st
    from scipy.special import psi
    rng = ck.rng("bgmm")
    terms, meta = [], []
    N = ck.n(40, 400)
    for ci in range(N):
        dim = 1 + ci % 4
        # ---- dkl_gaussian: means AND precisions differ
        while True:
            m1 = rng.integers(-3, 4, dim).astype(float)
            m2 = rng.integers(-3, 4, dim).astype(float)
            P1, P2 = rand_spd_int(rng, dim), rand_spd_int(rng, dim)
            if np.any(m1 != m2) and np.any(P1 != P2):
                break
        got = float(bgmm.dkl_gaussian(m1, P1, m2, P2))
        ref = float(ref_kl_gauss(m1, P1, m2, P2))
        ck.count(("dklg", m1.tobytes(), m2.tobytes(), P1.tobytes(), P2.tobytes()), bucket="dkl_gaussian:dim%d" % dim)
        rep = {"m1": m1.tolist(), "P1": P1.tolist(), "m2": m2.tolist(), "P2": P2.tolist()}
        if abs(got - ref) > 1e-9 * max(1.0, abs(ref)):
            ck.fail("dkl_gaussian/not-the-kl-divergence",
                    "dkl_gaussian = %r but KL(N(m1,inv P1)||N(m2,inv P2)) = %r (means and precisions both differ)" % (got, ref), rep)
        if dim == 1:
            s1 = 1 / math.sqrt(P1[0, 0])
            t = np.linspace(m1[0] - 14 * s1, m1[0] + 14 * s1, 200001)
            l1 = st.norm(m1[0], s1).logpdf(t)
            l2 = st.norm(m2[0], 1 / math.sqrt(P2[0, 0])).logpdf(t)
            qd = quad(np.exp(l1) * (l1 - l2), t)
            if abs(got - qd) > 1e-6 * max(1.0, abs(qd)):
                ck.fail("dkl_gaussian/not-the-kl-divergence", "dkl_gaussian = %r, quadrature of p1 log(p1/p2) = %r" % (got, qd), rep)
        S1 = finv([[int(v) for v in r] for r in P1])
        logr = float(np.log(max(bgmm.detsh(P1), 1e-15) / max(bgmm.detsh(P2), 1e-15)))
        cm = lambda M: clist([cqcl([frac(v) for v in r]) for r in M])
        terms.append("is_inverse_Qc %s %s %s && qrel %s (this (dkl_gaussian_Qc %s %s %s %s %s %s)) %s" % (
            cnat(dim), cm(P1), clist([cqcl(r) for r in S1]), cq(F(1, 10 ** 10)), cqc(logr), cnat(dim),
            cqcl(fl(m1)), clist([cqcl(r) for r in S1]), cqcl(fl(m2)), cm(P2), cq(got)))
        meta.append(("dkl_gaussian", rep))
        if ci < 1:
            ck.sample({"dkl_gaussian": rep, "value": got, "reference": ref})
        # ---- dkl_wishart: dof AND scale differ.  B = inverse scale (as VBGMM.evidence calls it)
        V1, V2 = rand_spd_int(rng, dim) / 4.0, rand_spd_int(rng, dim) / 2.0 + np.eye(dim)
        a1 = dim + float(rng.integers(1, 6)) / 2
        a2 = a1 + float(rng.choice([-0.5, 1.0, 2.5]))
        a2 = a2 if a2 > dim - 0.5 else a1 + 1.5
        got = float(bgmm.dkl_wishart(a1, np.linalg.inv(V1), a2, np.linalg.inv(V2)))
        ref = float(ref_kl_wishart(a1, V1, a2, V2))
        ck.count(("dklw", a1, a2, V1.tobytes(), V2.tobytes()), bucket="dkl_wishart:dim%d" % dim)
        repw = {"a1": a1, "B1": np.linalg.inv(V1).tolist(), "a2": a2, "B2": np.linalg.inv(V2).tolist()}
        # the arithmetic translated from the source, with the implementation's own oracle values
        from scipy.special import gammaln as _gl
        B1m, B2m = np.linalg.inv(V1), np.linalg.inv(V2)
        orc = [a1, a2, float(dim), math.log(max(bgmm.detsh(B1m), 1e-15)), math.log(max(bgmm.detsh(B2m), 1e-15)), math.log(2),
               dim * (dim - 1) * math.log(np.pi) / 4, float(sum(_gl((a1 - i) / 2) for i in range(dim))),
               float(sum(_gl((a2 - i) / 2) for i in range(dim))), float(sum(psi((a1 - i) / 2) for i in range(dim))),
               float(sum(psi((a2 - i) / 2) for i in range(dim))), float(np.trace(np.dot(B2m, np.linalg.inv(B1m))))]
        terms.append("qclose %s (src_dkl_wishart %s) %s" % (cq(F(1, 10 ** 9) * max(1, int(abs(got)) + 1)), " ".join(cq(v) for v in orc), cq(got)))
        meta.append(("dkl_wishart", {"a1": a1, "a2": a2, "B1": B1m.tolist(), "B2": B2m.tolist(), "oracle_values": orc}))
        bad = abs(got - ref) > 1e-8 * max(1.0, abs(ref))
        if dim == 1 and not bad:
            u = np.linspace(1e-7, math.sqrt(60 * a1 * V1[0, 0] + 40), 400001)   # x = u^2: the density may be singular at 0
            l1 = st.gamma(a1 / 2, scale=2 * V1[0, 0]).logpdf(u * u)
            l2 = st.gamma(a2 / 2, scale=2 * V2[0, 0]).logpdf(u * u)
            qd = quad(np.exp(l1) * (l1 - l2) * 2 * u, u)
            bad = abs(got - qd) > 1e-4 * max(1.0, abs(qd))
        if bad:
            ck.fail("dkl_wishart/not-the-kl-divergence",
                    "dkl_wishart(a1=%g, B1, a2=%g, B2) = %r but KL(W(a1, inv B1)||W(a2, inv B2)) = %r%s" % (
                        a1, a2, got, ref, " (negative!)" if got < 0 else ""), repw)
        # ---- dkl_dirichlet
        kk = int(rng.integers(2, 6))
        al = rng.integers(1, 9, kk).astype(float) / 2
        be = np.roll(al, 1) + rng.integers(1, 4, kk) / 2.0
        got = float(bgmm.dkl_dirichlet(al, be))
        ref = float(ref_kl_dirichlet(al, be))
        ck.count(("dkld", al.tobytes(), be.tobytes()), bucket="dkl_dirichlet")
        if abs(got - ref) > 1e-9 * max(1.0, abs(ref)):
            ck.fail("dkl_dirichlet/not-the-kl-divergence", "dkl_dirichlet = %r, closed form = %r" % (got, ref),
                    {"w1": al.tolist(), "w2": be.tolist()})
        if kk == 2 and al.min() >= 1 and be.min() >= 1:
            t = np.linspace(1e-9, 1 - 1e-9, 400001)
            l1, l2 = st.beta(al[0], al[1]).logpdf(t), st.beta(be[0], be[1]).logpdf(t)
            qd = quad(np.exp(l1) * (l1 - l2), t)
            if abs(got - qd) > 1e-4 * max(1.0, abs(qd)):
                ck.fail("dkl_dirichlet/not-the-kl-divergence", "dkl_dirichlet = %r, quadrature = %r" % (got, qd),
                        {"w1": al.tolist(), "w2": be.tolist()})
    # ---- densities integrate to one in the one-dimensional cases (quadrature; TEST)
    for p, mu in ((0.5, -1.0), (3.0, 2.0)):
        t = np.linspace(mu - 12 / math.sqrt(p), mu + 12 / math.sqrt(p), 4001)
        v = np.array([bgmm.normal_eval(np.array([mu]), np.array([[p]]), np.array([x])) for x in t])
        ck.count(("int-normal", p, mu), bucket="integrates-to-one(test)")
        if abs(quad(v, t) - 1) > 1e-6:
            ck.fail("bgmm/normal_eval-mass", "normal_eval(mu=%g, P=%g) integrates to %r" % (mu, p, quad(v, t)), {"P": p, "mu": mu})
    for n, V in ((3.0, 0.5), (6.5, 2.0)):
        u = np.linspace(1e-6, math.sqrt(80 * n * V), 20001)       # x = u^2 (the density behaves like x^(n/2-1) at 0)
        v = np.array([bgmm.wishart_eval(n, np.array([[V]]), np.array([[x * x]])) * 2 * x for x in u])
        t = u
        ck.count(("int-wishart", n, V), bucket="integrates-to-one(test)")
        if abs(quad(v, t) - 1) > 1e-4:
            ck.fail("bgmm/wishart_eval-mass", "wishart_eval(n=%g, V=%g) integrates to %r" % (n, V, quad(v, t)), {"n": n, "V": V})
    for a in ((2.0, 3.0), (1.5, 4.0)):
        t = np.linspace(1e-9, 1 - 1e-9, 20001)
        v = np.array([bgmm.dirichlet_eval(np.array([x, 1 - x]), np.array(a)) for x in t])
        ck.count(("int-dirichlet", a), bucket="integrates-to-one(test)")
        if abs(quad(v, t) - 1) > 1e-4:
            ck.fail("bgmm/dirichlet_eval-mass", "dirichlet_eval(alpha=%s) integrates to %r" % (a, quad(v, t)), {"alpha": a})
    # ---- BGMM.probability_under_prior and VBGMM.evidence: what is built from the helpers
    N = ck.n(16, 120)
    for ci in range(N):
        dim = 1 + ci % 3
        k = 1 + (ci // 3) % 3
        means = rng.integers(-3, 4, (k, dim)).astype(float)
        prec = np.array([rand_spd_int(rng, dim) / 2.0 for _ in range(k)])
        w = rng.integers(1, 6, k).astype(float)
        shrink = rng.integers(1, 5, k).astype(float)
        dof = dim + rng.integers(1, 6, k).astype(float)
        pmeans = means + rng.integers(1, 3, (k, dim))
        pw = rng.integers(1, 5, k).astype(float) / 2 + 0.5
        pscale = np.array([rand_spd_int(rng, dim) / 4.0 + np.eye(dim) for _ in range(k)])
        pdof = dof + rng.choice([-0.5, 1.0, 2.0], k)
        pshrink = shrink + rng.integers(1, 3, k)
        ck.count(("bgmm-obj", means.tobytes(), prec.tobytes(), pscale.tobytes()), bucket="bgmm-objects:dim%d:k%d" % (dim, k))
        rep = {"k": k, "dim": dim, "means": means.tolist(), "precisions": prec.tolist(), "weights": w.tolist(),
               "shrinkage": shrink.tolist(), "dof": dof.tolist(), "prior_means": pmeans.tolist(), "prior_weights": pw.tolist(),
               "prior_scale": pscale.tolist(), "prior_dof": pdof.tolist(), "prior_shrinkage": pshrink.tolist()}
        # BGMM: weights on the simplex for the Dirichlet density
        wn = w / w.sum()
        b = bgmm.BGMM(k, dim, means.copy(), prec.copy(), wn.copy(), shrink.copy(), dof.copy())
        b.set_priors(pmeans.copy(), pw.copy(), pscale.copy(), pdof.copy(), pshrink.copy())
        got = float(b.probability_under_prior())
        ref = float(st.dirichlet(pw).pdf(wn)) if k > 1 else 1.0
        for c in range(k):
            ref *= float(st.multivariate_normal(pmeans[c], np.linalg.inv(prec[c] * pshrink[c])).pdf(means[c]))
            ref *= float(st.wishart(df=pdof[c], scale=pscale[c]).pdf(prec[c]))
        if k > 1 and abs(got - ref) > 1e-8 * abs(ref):
            ck.fail("bgmm/probability_under_prior", "probability_under_prior = %r, Dirichlet x Normal x Wishart densities = %r" % (got, ref), rep)
        # VBGMM free energy
        v = bgmm.VBGMM(k, dim, means.copy(), prec.copy(), w.copy(), shrink.copy(), dof.copy())
        v.set_priors(pmeans.copy(), pw.copy(), pscale.copy(), pdof.copy(), pshrink.copy())
        x = rng.integers(-4, 5, (6, dim)).astype(float)
        like = v._Estep(x)
        like = (like.T / np.maximum(like.sum(1), 1e-15)).T
        got = float(np.ravel(v.evidence(x))[0])
        pop = like.sum(0)
        Fr = 0.0
        for c in range(k):
            lav = psi(w[c]) - psi(w.sum()) - np.sum(like[:, c] * np.log(np.maximum(like[:, c], 1e-15))) / pop[c]
            lav += -0.5 * dim * math.log(2 * math.pi) + 0.5 * np.linalg.slogdet(prec[c])[1] + 0.5 * dim * math.log(2)
            lav += 0.5 * sum(psi((dof[c] - i) / 2) for i in range(dim)) - 0.5 * dim / shrink[c]
            em = like[:, c] @ x / max(pop[c], 1e-15)
            dx = x - em
            Fr += lav * pop[c] - 0.5 * np.trace((dx.T * like[:, c]) @ dx @ (prec[c] * dof[c]))
        kld = ref_kl_dirichlet(w, pw)
        klw_true = sum(ref_kl_wishart(dof[c], prec[c], pdof[c], pscale[c]) for c in range(k))
        klw_impl = sum(float(bgmm.dkl_wishart(dof[c], np.linalg.inv(prec[c]), pdof[c], np.linalg.inv(pscale[c]))) for c in range(k))
        klg = sum(ref_kl_gauss(means[c], prec[c] * dof[c] * shrink[c], pmeans[c], prec[c] * dof[c] * pshrink[c]) for c in range(k))
        ref = float(Fr - (kld + klw_true + klg))
        tol = 1e-8 * max(1.0, abs(ref))
        if abs(got - ref) > tol:
            if abs(got - (ref + klw_true - klw_impl)) <= tol:
                ck.fail("vbgmm-evidence/inherits-dkl_wishart",
                        "VBGMM.evidence = %r, free energy with the true KL terms = %r; the difference is exactly the error of dkl_wishart" % (got, ref), dict(rep, x=x.tolist()))
            else:
                ck.fail("vbgmm-evidence/not-the-free-energy",
                        "VBGMM.evidence = %r, free energy (average log-likelihood - KL(Dirichlet) - KL(Wishart) - KL(Gaussian)) = %r" % (got, ref), dict(rep, x=x.tolist()))
    if ck.build is not None and ck.build.ok:
        hdr = HDR + "From Coq Require Import Qcanon.\nClose Scope Qc_scope.\n"
        res = ck.coq_bools(hdr, terms, shard=40, name="bgmm")
        ck.cov["traces_validated_against_impl"] += len(res)
        for ok, (kind, rep) in zip(res, meta):
            if not ok:
                ck.fail("bgmm-model-vs-impl/%s" % kind, "Coq model (%s) disagrees with the implementation" % kind, rep)
    ck.section("bgmm_helpers", model_terms=len(terms))


# ------------------------------------------------------------------ BrainT1Segmentation: convert / label maps
MIX = {
    "3k": np.eye(3),
    "4k": np.array([[1., 0, 0], [0, 1, 0], [0, 1, 0], [0, 0, 1]]),
    "5k": np.array([[1., 0, 0], [1, 0, 0], [0, 1, 0], [0, 1, 0], [0, 0, 1]]),
    "mix6": np.array([[1., 0, 0], [1, 0, 0], [0, 1, 0], [0, 1, 0], [0, 1, 0], [0, 0, 1]]),
    "pv5": np.array([[1., 0, 0], [.5, .5, 0], [0, 1, 0], [0, .5, .5], [0, 0, 1]]),
}


def label_oracles(ck, tag, ppm, label, mask, rep):
    q = ppm[mask]
    if not (finite(q) and q.min() >= 0 and np.max(np.abs(q.sum(-1) - 1)) < 1e-12):
        ck.fail("brainseg/%s/ppm-not-on-simplex" % tag, "reported tissue posteriors of in-mask voxels are not probability vectors", rep)
    if label[~mask].size and label[~mask].max() != 0:
        ck.fail("brainseg/%s/label-outside-mask" % tag, "non-zero label outside the mask", rep)
    exp = q.argmax(-1) + 1          # numpy argmax = first maximum
    got = label[mask]
    bad = np.nonzero(got != exp)[0]
    if len(bad):
        i = int(bad[0])
        ck.fail("brainseg/%s/label-is-not-argmax-of-ppm" % tag,
                "%d of %d in-mask labels differ from the (first) arg-max of the reported ppm, e.g. ppm = %s but label = %d" % (
                    len(bad), got.size, q[i].tolist(), int(got[i])), dict(rep, voxel_index_in_mask=i, ppm_row=q[i].tolist(), label=int(got[i])))


def brainseg(ck):
    from nipy.algorithms.segmentation import BrainT1Segmentation
    rng = ck.rng("brainseg")
    terms, meta = [], []
    cmix = lambda M: clist([cql(fl(r)) for r in M])
    # ---- A. convert() on synthetic dyadic posteriors: exact, with joint-beat rows and exact ties
    N = ck.n(30, 300)
    n_joint = n_tie = 0
    for ci in range(N):
        name = list(MIX)[ci % len(MIX)]
        M = MIX[name]
        K = M.shape[0]
        shape = (2, 3, 2)
        mask = rng.random(shape) < 0.8
        mask[0, 0, 0] = True
        ppmK = np.zeros(shape + (K,))
        for idx in np.ndindex(shape):
            if not mask[idx]:
                continue
            r = rng.random()
            if r < 0.3 and K > 3:      # two sub-classes of one tissue jointly beat the most probable class
                cols = np.nonzero(M[:, 1] > 0)[0]
                row = np.zeros(K)
                row[cols[0]] = row[cols[1]] = 5
                other = [c for c in range(K) if M[c, 1] == 0]
                row[other[-1]] = 6
            elif r < 0.5:              # exact tie between two tissues
                row = np.zeros(K)
                row[0] = 8
                row[K - 1] = 8
            else:
                cuts = np.sort(rng.integers(0, 17, K - 1))
                row = np.diff(np.concatenate([[0], cuts, [16]])).astype(float)
            ppmK[idx] = row / row.sum() if row.sum() != 16 else row / 16.0
        ppmK[mask] = np.round(ppmK[mask] * 16) / 16.0
        ppmK[mask, 0] += 1.0 - ppmK[mask].sum(-1)
        obj = object.__new__(BrainT1Segmentation)
        obj.ppm, obj.mixmat, obj.mask = ppmK.copy(), M.copy(), mask
        obj.convert()
        ck.count(("convert", name, ppmK.tobytes(), mask.tobytes()), bucket="convert-synthetic:%s" % name)
        rep = {"model": name, "mixmat": M.tolist(), "ppm_classes": ppmK.tolist(), "mask": mask.tolist()}
        label_oracles(ck, "convert", obj.ppm, obj.label, mask, rep)
        if not np.array_equal(obj.ppm, ppmK @ M):
            ck.fail("brainseg/convert/ppm-is-not-the-mixing-product", "converted ppm differs from ppm . mixmat", rep)
        for idx in np.ndindex(shape):
            if not mask[idx]:
                continue
            row, out, lab = ppmK[idx], obj.ppm[idx], int(obj.label[idx])
            n_joint += int(np.argmax(M[int(np.argmax(row))]) != int(np.argmax(out)))
            n_tie += int(np.sum(out == out.max()) > 1)
            terms.append("let c := convert_voxel 3 %s %s in qlist_eqb (fst c) %s && Nat.eqb (snd c) %s" % (
                cql(fl(row)), cmix(M), cql(fl(out)), cnat(lab)))
            meta.append(("convert-voxel", dict(rep, voxel=list(idx))))
    # ---- B. the whole pipeline on T1-like data with partial-volume voxels
    N = ck.n(10, 60)
    n_joint_pipe = 0
    for ci in range(N):
        shape = (int(rng.integers(7, 11)), int(rng.integers(6, 10)), int(rng.integers(5, 9)))
        modes = np.array([800., 1650., 2150.])
        data = modes[rng.integers(0, 3, size=shape)] + 180. * rng.normal(size=shape)
        pv = rng.random(shape) < 0.4
        data[pv] = rng.uniform(600., 2400., size=int(pv.sum()))
        data = np.abs(data) + 1.0
        mask = np.ones(shape, dtype=bool)
        mask[:1] = False
        mask[3, 3, :] = False
        name = ["3k", "4k", "5k", "mix6", "pv5"][ci % 5]
        model = name if name in ("3k", "4k", "5k") else MIX[name]
        beta = float(rng.choice([0.0, 0.2, 0.5]))
        ngb = int(rng.choice([6, 26]))
        kw = dict(mask=mask, model=model, niters=3, beta=beta, ngb_size=ngb)
        S = BrainT1Segmentation(data, **kw)
        S0 = BrainT1Segmentation(data, convert=False, **kw)
        ck.count(("pipe", name, beta, ngb, data.tobytes()), bucket="brain-pipeline:%s" % name)
        rep = {"model": name, "beta": beta, "ngb_size": ngb, "niters": 3, "shape": shape, "seed_stream": "brainseg", "case": ci,
               "data": data.tolist(), "mask_excludes": "x=0 slab and (3,3,:)"}
        label_oracles(ck, "pipeline", S.ppm, S.label, mask, rep)
        if S.ppm.shape != shape + (3,):
            ck.fail("brainseg/pipeline/ppm-shape", "ppm has shape %s" % (S.ppm.shape,), rep)
            continue
        M = S.mixmat
        qK, q, lab = S0.ppm[mask], S.ppm[mask], S.label[mask]
        if not np.allclose(qK @ M, q, rtol=0, atol=1e-15):
            ck.fail("brainseg/pipeline/ppm-is-not-the-mixing-product", "reported ppm differs from (class posteriors) . mixmat", rep)
        # un-converted run: label = argmax over classes
        label_oracles(ck, "pipeline-unconverted", S0.ppm, S0.label, mask, rep)
        joint = np.nonzero(np.argmax(M, 1)[qK.argmax(1)] != q.argmax(1))[0]
        n_joint_pipe += len(joint)
        pick = list(joint[:15]) + list(rng.integers(0, len(q), 10))
        for i in pick:
            i = int(i)
            terms.append("qlist_close %s (mix_row 3 %s %s) %s && Nat.eqb (map_from_ppm_row %s) %s" % (
                cq(F(1, 10 ** 15)), cql(fl(qK[i])), cmix(M), cql(fl(q[i])), cql(fl(q[i])), cnat(int(lab[i]))))
            meta.append(("pipeline-voxel", dict(rep, voxel_index_in_mask=i, class_posterior=qK[i].tolist())))
    if n_joint == 0 or n_joint_pipe == 0:
        ck.fail("brainseg/generator-has-no-joint-beat-voxels", "no voxel where merged classes jointly beat the most probable class was generated "
                "(synthetic %d, pipeline %d)" % (n_joint, n_joint_pipe), {"kind": "coverage"}, found_input=False)
    if ck.build is not None and ck.build.ok:
        res = ck.coq_bools(HDR, terms, shard=150, name="brainseg")
        ck.cov["traces_validated_against_impl"] += len(res)
        for ok, (kind, rep) in zip(res, meta):
            if not ok:
                ck.fail("brainseg-model-vs-impl/%s" % kind, "Coq model of convert (mixing product, then first arg-max) disagrees with the implementation", rep)
    ck.section("brainseg", model_terms=len(terms), synthetic_joint_beat_voxels=int(n_joint), synthetic_tie_voxels=int(n_tie),
               pipeline_joint_beat_voxels=int(n_joint_pipe))


# ------------------------------------------------------------------ object life-cycle: parameters replaced on a live object
def density_oracles(ck, g, x, tag, rep, weighted=True):
    """Every likelihood the object reports must be the Gaussian density of its CURRENT means / precisions
    (both implementations, SciPy's multivariate normal, the model expression with log det of the current
    precision), whatever happened to the object before."""
    import scipy.stats as st
    from scipy.linalg import eigvalsh
    k, dim = g.k, g.dim
    l1 = np.asarray(g.unweighted_likelihood(x))
    l2 = np.asarray(g.unweighted_likelihood_(x))
    L2PI = float(np.log(2 * np.pi))
    ref = np.zeros_like(l1)
    expr = np.zeros_like(l1)
    for c in range(k):
        P = g.precisions[c] if g.prec_type == "full" else np.diag(g.precisions[c])
        ref[:, c] = st.multivariate_normal(mean=g.means[c], cov=np.linalg.inv(P)).pdf(x)
        logdet = float(np.log(eigvalsh(P)).sum())
        dx = x - g.means[c]
        expr[:, c] = np.exp(((-L2PI * dim + logdet) - np.einsum("ni,ij,nj->n", dx, P, dx)) / 2)
    for nm, lv in (("unweighted_likelihood", l1), ("unweighted_likelihood_", l2)):
        if not np.allclose(lv, ref, rtol=1e-8, atol=1e-300) or not np.allclose(lv, expr, rtol=1e-10, atol=1e-300):
            i, c = np.unravel_index(int(np.argmax(np.abs(lv - ref) / (ref + 1e-300))), ref.shape)
            ck.fail("lifecycle/%s/%s-is-not-the-density-of-the-current-parameters" % (tag, nm),
                    "%s[%d,%d] = %r but the Gaussian density of the object's current mean/precision is %r" % (nm, i, c, float(lv[i, c]), float(ref[i, c])),
                    dict(rep, sample=x[i].tolist(), component=int(c), means=np.asarray(g.means).tolist(), precisions=np.asarray(g.precisions).tolist()))
    if not np.allclose(l1, l2, rtol=1e-10, atol=1e-300):
        ck.fail("lifecycle/%s/two-implementations-differ" % tag, "unweighted_likelihood and unweighted_likelihood_ differ on the same object", rep)
    if weighted:
        like = np.asarray(g.likelihood(x))
        if not np.allclose(like, ref * g.weights, rtol=1e-8, atol=1e-300):
            ck.fail("lifecycle/%s/likelihood-is-not-weights-times-density" % tag, "likelihood(x) is not weights * density of the current parameters", rep)
        mix = np.asarray(g.mixture_likelihood(x))
        if not np.allclose(mix, (ref * g.weights).sum(1), rtol=1e-8, atol=1e-300):
            ck.fail("lifecycle/%s/mixture_likelihood" % tag, "mixture_likelihood(x) is not the mixture density of the current parameters", rep)
        z = g.map_label(x)
        want = np.argmax(ref * g.weights, 1)
        amb = np.sort(ref * g.weights, 1)
        clear = (amb[:, -1] - (amb[:, -2] if k > 1 else 0)) > 1e-9 * amb[:, -1]
        if np.any((z != want) & clear):
            ck.fail("lifecycle/%s/map_label-is-not-argmax-of-current-density" % tag, "map_label differs from the arg-max of weights * current density", rep)
    repeat_oracles(ck, g, x, tag, rep)


def eqv(u, v):
    """structural equality of attribute values (arrays bitwise, NaN == NaN)"""
    if isinstance(u, np.ndarray) or isinstance(v, np.ndarray):
        if not (isinstance(u, np.ndarray) and isinstance(v, np.ndarray)) or u.shape != v.shape or u.dtype != v.dtype:
            return False
        if u.dtype == object:
            return all(eqv(a, b) for a, b in zip(u.ravel(), v.ravel()))
        return bool(np.array_equal(u, v, equal_nan=u.dtype.kind in "fc"))
    if isinstance(u, (list, tuple)):
        return type(u) is type(v) and len(u) == len(v) and all(eqv(a, b) for a, b in zip(u, v))
    if isinstance(u, dict):
        return isinstance(v, dict) and u.keys() == v.keys() and all(eqv(u[k], v[k]) for k in u)
    if isinstance(u, float) and isinstance(v, float) and u != u and v != v:
        return True
    try:
        return type(u) is type(v) and bool(u == v)
    except Exception:
        return u is v


def repeat_oracles(ck, g, x, tag, rep):
    """Evaluation methods are observers: called twice on the same object with the same arguments they must
    return the same value, leave every attribute of the object (parameters, hyper-parameters, caches) and
    their arguments unchanged."""
    import copy
    n = x.shape[0]
    calls = []
    for nm in ("unweighted_likelihood", "unweighted_likelihood_", "likelihood", "mixture_likelihood", "average_log_like",
               "_Estep", "map_label", "likelihood_under_the_prior"):
        if hasattr(g, nm):
            calls.append((nm, (lambda nm=nm: getattr(g, nm)(x.copy())), None))
    try:
        like = np.asarray(g.likelihood(x.copy()))
    except Exception:
        like = None
    if like is not None and like.ndim == 2:
        for nm in ("pop", "bic"):
            if hasattr(g, nm) and type(g).__name__ in ("GMM", "VBGMM"):
                calls.append((nm, (lambda nm=nm: getattr(g, nm)(like.copy())), None))
        z = np.argmax(like[:, :max(g.k, 1)], 1).astype(np.int_)
        if hasattr(g, "evidence") and type(g).__name__ in ("GMM", "VBGMM"):
            calls.append(("evidence", (lambda: g.evidence(x.copy())), None))
        if type(g).__name__ == "BGMM" and hasattr(g, "prior_means"):
            calls.append(("probability_under_prior", (lambda: g.probability_under_prior()), None))
            calls.append(("conditional_posterior_proba", (lambda: g.conditional_posterior_proba(x.copy(), z.copy())), None))
            from nipy.algorithms.clustering import bgmm as _b
            perm = _b.generate_perm(g.k)
            calls.append(("conditional_posterior_proba(perm)", (lambda: g.conditional_posterior_proba(x.copy(), z.copy(), perm.copy())), None))
            calls.append(("bayes_factor", (lambda: g.bayes_factor(x.copy(), np.stack([z, z], 1))), None))
        if type(g).__name__ in ("IMM", "MixedIMM"):
            pl = np.full(n, 0.125)
            calls.append(("likelihood(x, plike)", (lambda: g.likelihood(x.copy(), pl.copy())), None))
    cls = type(g).__name__
    for nm, f, _ in calls:
        before = copy.deepcopy(g.__dict__)
        try:
            with np.errstate(all="ignore"):
                r1 = f()
        except Exception:
            continue                      # not applicable in this state (e.g. k == 0); exactness is checked elsewhere
        mid = copy.deepcopy(g.__dict__)
        with np.errstate(all="ignore"):
            r2 = f()
        after = g.__dict__
        changed = sorted(k for k in set(before) | set(mid) if not eqv(before.get(k), mid.get(k)))
        changed2 = sorted(k for k in set(mid) | set(after) if not eqv(mid.get(k), after.get(k)))
        r = dict(rep, method=nm, state=tag)
        if changed or changed2:
            a = (changed or changed2)[0]
            ck.fail("repeat/%s/%s/modifies-attribute" % (cls, nm),
                    "%s.%s modified the object's attribute(s) %s (e.g. %s: %r -> %r); an evaluation must leave parameters, hyper-parameters and caches unchanged" % (
                        cls, nm, changed or changed2, a, before.get(a) if changed else mid.get(a), mid.get(a) if changed else after.get(a)),
                    dict(r, attributes=changed or changed2))
        if not eqv(np.asarray(r1), np.asarray(r2)):
            with np.errstate(all="ignore"):
                dev = float(np.nanmax(np.abs(np.asarray(r1, dtype=float) - np.asarray(r2, dtype=float)) / (np.abs(np.asarray(r1, dtype=float)) + 1e-300)))
            ck.fail("repeat/%s/%s/second-call-differs" % (cls, nm),
                    "%s.%s called twice on the same object with the same arguments returned different values (max relative difference %.3g)" % (cls, nm, dev),
                    dict(r, first=np.asarray(r1).tolist(), second=np.asarray(r2).tolist()))


def imm_prior_predictive(x0, xe):
    """density of a new point under the Normal-Wishart prior IMM.set_priors derives from the data x0
    (mean m, shrinkage 0.01, dof dim+2, scale diag(1/var)): multivariate Student-t with nu = dof - dim + 1"""
    import scipy.stats as st
    dim = x0.shape[1]
    m = x0.mean(0)
    var = np.maximum(1e-15, ((x0 - m) ** 2).mean(0))
    a, tau = dim + 2.0, 0.01 / 1.01
    nu = a - dim + 1
    return st.multivariate_t(loc=m, shape=np.diag(var) / (tau * nu), df=nu).pdf(xe)


def rand_params(rng, ptype, k, dim):
    g = rand_gmm(rng, ptype, k, dim)
    return g.means.copy(), g.precisions.copy() / 2.0, g.weights.copy()


def bgmm_prior_density(b):
    import scipy.stats as st
    ref = float(st.dirichlet(b.prior_weights).pdf(b.weights)) if b.k > 1 else 1.0
    for c in range(b.k):
        ref *= float(st.multivariate_normal(b.prior_means[c], np.linalg.inv(b.precisions[c] * b.prior_shrinkage[c])).pdf(b.means[c]))
        ref *= float(st.wishart(df=b.prior_dof[c], scale=b.prior_scale[c]).pdf(b.precisions[c]))
    return ref


def relabelled(b, pj):
    from nipy.algorithms.clustering import bgmm
    b2 = bgmm.BGMM(b.k, b.dim, np.asarray(b.means)[pj].copy(), np.asarray(b.precisions)[pj].copy(), np.asarray(b.weights)[pj].copy())
    b2.set_priors(b.prior_means, b.prior_weights, b.prior_scale, b.prior_dof, b.prior_shrinkage)
    return b2


def lifecycle(ck):
    from nipy.algorithms.clustering.gmm import GMM
    from nipy.algorithms.clustering import bgmm
    from nipy.algorithms.clustering.imm import IMM
    rng = ck.rng("lifecycle")
    N = ck.n(24, 160)
    for ci in range(N):
        dim = 1 + ci % 3
        k = 2 + (ci // 3) % 3
        n = 12 + int(rng.integers(0, 10))
        cent = rng.integers(-5, 6, (k, dim)).astype(float)
        zt = np.concatenate([np.arange(k), rng.integers(0, k, n - k)])
        x = cent[zt] + rng.normal(size=(n, dim))
        xe = rng.integers(-4, 5, (5, dim)).astype(float)
        np.random.seed(int(rng.integers(0, 2 ** 31)))          # the samplers use numpy's global generator
        for cls in ("GMM-full", "GMM-diag", "BGMM", "VBGMM"):
            ptype = "diag" if cls == "GMM-diag" else "full"
            m0, p0, w0 = rand_params(rng, ptype, k, dim)
            m1, p1, w1 = rand_params(rng, ptype, k, dim)
            if cls.startswith("GMM"):
                g = GMM(k, dim, ptype, m0.copy(), p0.copy(), w0.copy())
            elif cls == "BGMM":
                g = bgmm.BGMM(k, dim, m0.copy(), p0.copy(), w0.copy())
            else:
                g = bgmm.VBGMM(k, dim, m0.copy(), p0.copy(), w0.copy())
            rep = {"class": cls, "k": k, "dim": dim, "x": x.tolist(), "eval_points": xe.tolist(), "case": ci,
                   "initial": {"means": m0.tolist(), "precisions": p0.tolist(), "weights": w0.tolist()},
                   "plugged": {"means": m1.tolist(), "precisions": p1.tolist(), "weights": w1.tolist()}}
            weighted = cls != "VBGMM"     # VBGMM.likelihood is the variational E-step, not weights * density
            if not cls.startswith("GMM"):
                g.guess_priors(x)         # plugin() checks the shapes of the priors
            ck.count(("life", cls, ci), bucket="lifecycle:%s" % cls)
            density_oracles(ck, g, xe, "%s/fresh" % cls, dict(rep, sequence=["construct"]), weighted)
            g.plugin(m1.copy(), p1.copy(), w1.copy())
            density_oracles(ck, g, xe, "%s/after-plugin" % cls, dict(rep, sequence=["construct", "plugin"]), weighted)
            if cls.startswith("GMM"):
                g.guess_regularizing(x)
                g._Mstep(x, g.likelihood(x) + 1e-30)
                density_oracles(ck, g, xe, "%s/after-update" % cls, dict(rep, sequence=["construct", "plugin", "guess_regularizing", "_Mstep"]), weighted)
                g.plugin(m0.copy(), p0.copy(), w0.copy())
                density_oracles(ck, g, xe, "%s/after-update-then-plugin" % cls, dict(rep, sequence=["construct", "plugin", "_Mstep", "plugin"]), weighted)
                continue
            if cls == "VBGMM":
                continue
            # BGMM: the documented work-flow  guess_priors; initialize; sample(mem=1); plugin(cent, prec, w)
            b = g
            b.initialize(x)
            density_oracles(ck, b, xe, "BGMM/after-initialize", dict(rep, sequence=["guess_priors", "initialize"]))
            w, cen, prec, pz = b.sample(x, niter=4, mem=1)
            density_oracles(ck, b, xe, "BGMM/after-sample", dict(rep, sequence=["guess_priors", "initialize", "sample"]))
            for stage, seq in (("after-sample", ["guess_priors", "initialize", "sample"]),):
                got, ref = float(b.probability_under_prior()), bgmm_prior_density(b)
                if abs(got - ref) > 1e-7 * abs(ref):
                    ck.fail("lifecycle/BGMM/%s/probability_under_prior" % stage, "probability_under_prior = %r, prior density of the current parameters = %r" % (got, ref), dict(rep, sequence=seq))
            b.plugin(cen.copy(), prec.copy(), w.copy())
            seq = ["guess_priors", "initialize", "sample(mem=1)", "plugin(cent, prec, w)"]
            density_oracles(ck, b, xe, "BGMM/after-sample-then-plugin", dict(rep, sequence=seq))
            got, ref = float(b.probability_under_prior()), bgmm_prior_density(b)
            if abs(got - ref) > 1e-7 * abs(ref):
                ck.fail("lifecycle/BGMM/after-sample-then-plugin/probability_under_prior",
                        "after sample + plugin, probability_under_prior = %r but the prior density of the current parameters is %r "
                        "(ratio %r)" % (got, ref, got / ref), dict(rep, sequence=seq))
            z = pz[:, -1]
            got = float(b.conditional_posterior_proba(x, z))
            ref = float(relabelled(b, np.arange(k)).conditional_posterior_proba(x, z))
            if abs(got - ref) > 1e-7 * abs(ref):
                ck.fail("lifecycle/BGMM/after-sample-then-plugin/conditional_posterior_proba",
                        "after sample + plugin, conditional_posterior_proba = %r but a freshly built model with the same parameters and priors gives %r" % (got, ref),
                        dict(rep, sequence=seq, z=z.tolist()))
        # IMM: constant prior density, after sampling, on whatever components it holds
        im = IMM(.5, dim)
        im.set_priors(x)
        im.set_constant_densities(prior_dens=0.01)
        im.sample(x, niter=3, init=True)
        ck.count(("life", "IMM", ci), bucket="lifecycle:IMM")
        if im.k > 0:
            density_oracles(ck, im, xe, "IMM/after-sample", {"class": "IMM", "dim": dim, "x": x.tolist(), "case": ci, "sequence": ["set_priors", "sample"]}, weighted=False)
        # IMM with the prior predictive density of a new cluster (no constant density): fresh, evaluated repeatedly, after sampling
        im = IMM(.5, dim)
        im.set_priors(x)
        repi = {"class": "IMM", "dim": dim, "x": x.tolist(), "eval_points": xe.tolist(), "case": ci}
        want = imm_prior_predictive(x, xe)
        ck.count(("life", "IMM-prior", ci), bucket="lifecycle:IMM-prior-predictive")
        for stage in ("after-set_priors", "second-evaluation", "after-sample"):
            if stage == "after-sample":
                im.sample(x, niter=2, init=True)
            got = np.asarray(im.likelihood_under_the_prior(xe.copy()))
            ratio = got / want
            if not np.allclose(ratio, ratio[0], rtol=1e-9):
                ck.fail("imm-prior-predictive/not-the-student-t-shape",
                        "IMM.likelihood_under_the_prior is not proportional to the Student-t prior predictive of the hyper-parameters set by set_priors: ratios %s" % ratio.tolist(),
                        dict(repi, sequence=stage))
            elif abs(ratio[0] - 1) > 1e-9:
                ck.fail("imm-prior-predictive/not-normalised",
                        "IMM.likelihood_under_the_prior = %r x the Student-t prior predictive density (dim %d): it does not integrate to one" % (float(ratio[0]), dim),
                        dict(repi, sequence=stage, ratio=float(ratio[0])))
            repeat_oracles(ck, im, xe, "IMM/%s" % stage, repi)
        if dim == 1:
            im = IMM(.5, 1)
            im.set_priors(x)
            sd = float(x.std())
            u = np.linspace(-12.0, 12.0, 4001)                  # t = mean + sd sinh(u): heavy (1/t^3) tails
            t = x.mean() + sd * np.sinh(u)
            mass = quad(np.asarray(im.likelihood_under_the_prior(t[:, None])) * sd * np.cosh(u), u)
            if abs(mass - 1) > 2e-3:
                ck.fail("imm-prior-predictive/mass-1d", "IMM.likelihood_under_the_prior integrates to %r over the line (quadrature)" % mass, dict(repi, mass=mass))
        # ---- relabelling: conditional posterior under a permutation = conditional posterior of the relabelled model
        kk = 3 + ci % 2
        m0, p0, w0 = rand_params(rng, "full", kk, dim)
        w0 = (np.arange(1, kk + 1) + rng.random(kk)) / 10.0
        w0 = w0 / w0.sum()
        b = bgmm.BGMM(kk, dim, m0.copy(), p0.copy(), w0.copy())
        pm = m0 + rng.integers(-1, 2, (kk, dim))
        b.set_priors(pm, np.arange(1, kk + 1) / 2.0, np.array([rand_spd_int(rng, dim) / 4.0 + np.eye(dim) for _ in range(kk)]),
                     dim + 1.0 + np.arange(kk), 0.5 + np.arange(kk) / 4.0)
        nn = 4 * kk + 3
        zz = np.concatenate([np.repeat(np.arange(kk), np.arange(1, kk + 1)), rng.integers(0, kk, nn - kk * (kk + 1) // 2)]) \
            if nn >= kk * (kk + 1) // 2 else rng.integers(0, kk, nn)
        xx = m0[zz] + rng.normal(size=(len(zz), dim))
        perm = bgmm.generate_perm(kk)
        pp = np.asarray(b.conditional_posterior_proba(xx, zz, perm))
        base = float(b.conditional_posterior_proba(xx, zz))
        ck.count(("relabel", kk, dim, ci), bucket="conditional-posterior-relabelling:k%d" % kk)
        repp = {"k": kk, "dim": dim, "means": m0.tolist(), "precisions": p0.tolist(), "weights": w0.tolist(), "x": xx.tolist(), "z": zz.tolist(),
                "prior_means": pm.tolist(), "case": ci}
        for j, pj in enumerate(perm):
            ref = float(relabelled(b, pj).conditional_posterior_proba(xx, zz))
            inv_is_self = bool(np.array_equal(np.argsort(pj), pj))
            if not (abs(pp[j] - ref) <= 1e-8 * abs(ref) + 1e-300):
                ck.fail("conditional-posterior/relabelling-inconsistent/%s" % ("involution" if inv_is_self else "non-involutive-permutation"),
                        "conditional_posterior_proba(x, z, perm)[%s] = %r but the model relabelled by %s has conditional posterior %r" % (pj.tolist(), float(pp[j]), pj.tolist(), ref),
                        dict(repp, perm=pj.tolist()))
            if np.array_equal(pj, np.arange(kk)) and abs(pp[j] - base) > 1e-10 * abs(base):
                ck.fail("conditional-posterior/identity-permutation-differs", "perm = identity differs from perm = None", repp)
        # ---- VBGMM._Mstep with DIFFERENT priors per component: definition, and relabelling by every permutation
        pri = dict(pm=pm.astype(float), pw=np.arange(1, kk + 1) / 2.0,
                   ps=np.array([rand_spd_int(rng, dim) / 4.0 + (1 + c) * np.eye(dim) for c in range(kk)]),
                   pd=dim + 1.0 + np.arange(kk), psh=0.5 + np.arange(kk) / 4.0)
        lk = rng.integers(0, 9, (len(zz), kk)).astype(float) + 0.125
        lk = (lk.T / lk.sum(1)).T

        def vb_mstep(order):
            v = bgmm.VBGMM(kk, dim)
            v.set_priors(pri["pm"][order].copy(), pri["pw"][order].copy(), pri["ps"][order].copy(), pri["pd"][order].copy(), pri["psh"][order].copy())
            v._Mstep(xx.copy(), lk[:, order].copy())
            return {"means": np.asarray(v.means), "scale": np.asarray(v.scale), "weights": np.asarray(v.weights), "dof": np.asarray(v.dof),
                    "shrinkage": np.asarray(v.shrinkage)}
        ident = np.arange(kk)
        base_fit = vb_mstep(ident)
        ck.count(("vb-mstep", kk, dim, ci), bucket="vbgmm-mstep-per-component-priors:k%d" % kk)
        repv = {"k": kk, "dim": dim, "x": xx.tolist(), "like": lk.tolist(), "prior_means": pri["pm"].tolist(), "prior_weights": pri["pw"].tolist(),
                "prior_scale": pri["ps"].tolist(), "prior_dof": pri["pd"].tolist(), "prior_shrinkage": pri["psh"].tolist(), "case": ci}
        # definition (normal-Wishart update, re-stated): per component c
        for c in range(kk):
            pop_c = lk[:, c].sum()
            em = lk[:, c] @ xx / pop_c
            dxc = xx - em
            cov = np.linalg.inv(pri["ps"][c]) + (dxc.T * lk[:, c]) @ dxc + np.outer(em - pri["pm"][c], em - pri["pm"][c]) * pri["psh"][c] * pop_c / (pri["psh"][c] + pop_c)
            want = {"means": (lk[:, c] @ xx + pri["pm"][c] * pri["psh"][c]) / (pri["psh"][c] + pop_c), "scale": np.linalg.inv(cov),
                    "weights": pri["pw"][c] + pop_c, "dof": pri["pd"][c] + pop_c, "shrinkage": pri["psh"][c] + pop_c}
            for key in want:
                if not np.allclose(base_fit[key][c], want[key], rtol=1e-9, atol=1e-12):
                    ck.fail("vbgmm-mstep/per-component-priors/%s-not-the-normal-wishart-update" % key,
                            "VBGMM._Mstep %s of component %d = %s, normal-Wishart update with that component's own prior = %s" % (
                                key, c, np.asarray(base_fit[key][c]).tolist(), np.asarray(want[key]).tolist()), dict(repv, component=c))
        for pj in perm:
            got = vb_mstep(pj)
            for key in got:
                if not np.allclose(got[key], base_fit[key][pj], rtol=1e-9, atol=1e-12):
                    ck.fail("vbgmm-mstep/per-component-priors/relabelling-inconsistent",
                            "VBGMM._Mstep with components (memberships and priors) relabelled by %s: %s is not the relabelled result" % (pj.tolist(), key),
                            dict(repv, perm=pj.tolist()))
                    break
    ck.section("lifecycle", cases=N)


# ------------------------------------------------------------------ value magnitudes: units of the data
def scale_class(c):
    c = np.abs(np.asarray(c, dtype=float))
    if np.all(c == c[0]):
        return "uniform-small" if c[0] < 1 else "uniform-large"
    return "per-axis-mixed"


def magnitudes(ck):
    from nipy.algorithms.clustering.gmm import GMM
    from nipy.algorithms.clustering import bgmm
    rng = ck.rng("magnitudes")
    terms, meta = [], []
    N = ck.n(18, 120)
    for ci in range(N):
        dim = 1 + ci % 3
        k = 2 + (ci // 3) % 2
        ptype = "diag" if ci % 2 else "full"
        n = 30
        zt = np.concatenate([np.arange(k), rng.integers(0, k, n - k)])
        cent = rng.integers(-5, 6, (k, dim)).astype(float)
        x = cent[zt] + np.round(rng.normal(size=(n, dim)) * 8) / 8.0
        zi = zt.copy()
        zi[::7] = (zi[::7] + 1) % k
        l0 = np.zeros((n, k))
        l0[np.arange(n), zi] = 1

        def fit(data, niter):
            g = GMM(k, dim, ptype)
            g.guess_regularizing(data)
            pri = (g.prior_means.copy(), g.prior_scale.copy())
            g.update(data, l0.copy())
            for _ in range(niter):
                g.update(data, g._Estep(data))
            like = g.likelihood(data)
            return g, like / like.sum(1, keepdims=True), pri
        scales = [np.full(dim, 2.0 ** -40), np.full(dim, 1e-9), np.full(dim, 2.0 ** -12), np.full(dim, 2.0 ** 40), np.full(dim, 1e6)]
        if dim > 1:
            scales += [np.array([1e-9] + [1.0] * (dim - 1)), np.array([2.0 ** -30] + [2.0 ** 20] * (dim - 1)),
                       np.array([1e3] + [1e-4] * (dim - 1))]
        for niter, wf in ((0, "mstep"), (3, "em")):
            g1, r1, pri1 = fit(x, niter)
            for c in scales:
                cls = scale_class(c)
                ck.count(("mag", ptype, wf, ci, c.tobytes()), bucket="magnitudes:%s:%s:%s" % (ptype, wf, cls))
                try:
                    g2, r2, pri2 = fit(x * c, niter)
                except Exception as e:      # e.g. SVD failure on non-finite covariances
                    ck.fail("scale-equivariance/%s/%s/%s" % (ptype, wf, cls),
                            "GMM(%s) on data rescaled by %s raised %s: %s (the unscaled fit succeeds)" % (ptype, c.tolist(), type(e).__name__, e),
                            {"prec_type": ptype, "k": k, "dim": dim, "workflow": wf, "em_iterations": niter, "scale": c.tolist(), "x": x.tolist(),
                             "initial_labels": zi.tolist()})
                    continue
                ep = g1.precisions / (c ** 2 if ptype == "diag" else np.outer(c, c))
                with np.errstate(all="ignore"):
                    e_mean = float(np.max(np.abs(g2.means - g1.means * c) / np.abs(c)))
                    e_prec = float(np.max(np.abs(g2.precisions / ep - 1)))
                    e_w = float(np.max(np.abs(g2.weights - g1.weights)))
                    e_resp = float(np.max(np.abs(r1 - r2)))
                errs = {"mean": e_mean, "precision_rel": e_prec, "weight": e_w, "membership": e_resp}
                same_map = bool(np.array_equal(g1.map_label(x), g2.map_label(x * c)))
                if not (max(e_mean, e_prec, e_w, e_resp) < 1e-6) or not same_map:      # (nan -> failure)
                    ck.fail("scale-equivariance/%s/%s/%s" % (ptype, wf, cls),
                            "GMM(%s) fitted on data rescaled by %s is not the rescaled fit: errors %s, same MAP labels: %s" % (ptype, c.tolist(), errs, same_map),
                            {"prec_type": ptype, "k": k, "dim": dim, "workflow": wf, "em_iterations": niter, "scale": c.tolist(), "x": x.tolist(),
                             "initial_labels": zi.tolist(), "errors": errs})
                if wf == "mstep":
                    # guess_regularizing itself, against the Coq model (no variance floor), on the rescaled data
                    xs = x * c
                    KF = float(np.exp(2.0 / dim * np.log(k)))
                    pm, ps = pri2
                    for j in range(dim):
                        sj = ps[0][j, j] if ptype == "full" else ps[0][j]
                        terms.append("qrel %s (gr_mean_x %s) %s && qrel %s (gr_scale_x %s %s) %s" % (
                            cq(F(1, 10 ** 9)), cql(fl(xs[:, j])), cq(float(pm[0][j])), cq(F(1, 10 ** 9)), cq(KF), cql(fl(xs[:, j])), cq(float(sj))))
                        meta.append(("guess_regularizing", {"prec_type": ptype, "axis": j, "scale": c.tolist(), "x_axis": xs[:, j].tolist(),
                                                            "prior_mean": float(pm[0][j]), "prior_scale": float(sj)}))
                    # the Bayesian variant derives its prior the same way
                    if ptype == "full":
                        b1, b2 = bgmm.BGMM(k, dim), bgmm.BGMM(k, dim)
                        b1.guess_priors(x)
                        b2.guess_priors(xs)
                        if not (np.allclose(b2.prior_means, b1.prior_means * c, rtol=1e-9, atol=0) and
                                np.allclose(b2.prior_scale, b1.prior_scale / np.outer(c, c), rtol=1e-9, atol=0)):
                            ck.fail("scale-equivariance/BGMM.guess_priors/%s" % cls, "BGMM.guess_priors on rescaled data is not the rescaled prior", {"scale": c.tolist(), "x": x.tolist()})
    # ---- translations by large offsets (data far from the origin compared with their spread), every estimator
    from nipy.algorithms.segmentation.segmentation import Segmentation
    N2 = ck.n(12, 80)
    for ci in range(N2):
        dim = 1 + ci % 3
        k = 2 + (ci // 3) % 2
        n = 24
        empty = (ci % 4 == 3)
        labs = np.arange(k - 1) if empty else np.arange(k)        # optionally one component without any sample
        zt = np.concatenate([labs, rng.choice(labs, n - len(labs))])
        cent = rng.integers(-5, 6, (k, dim)).astype(float)
        x = cent[zt] + np.round(rng.normal(size=(n, dim)) * 8) / 8.0         # multiples of 1/8: x + 2^30 is exact
        l0 = np.zeros((n, k))
        l0[np.arange(n), zt] = 1

        def gmm_fit(data, ptype, niter):
            g = GMM(k, dim, ptype)
            g.guess_regularizing(data)
            g.update(data, l0.copy())
            for _ in range(niter):
                g.update(data, g._Estep(data))
            like = g.likelihood(data)
            return {"means": g.means, "precisions": g.precisions, "weights": g.weights, "memberships": like / like.sum(1, keepdims=True)}

        def vb_fit(data, ptype, niter):
            v = bgmm.VBGMM(k, dim)
            v.guess_priors(data)
            v._Mstep(data, l0.copy())
            for _ in range(niter):
                l = v._Estep(data)
                v._Mstep(data, (l.T / np.maximum(l.sum(1), 1e-300)).T)
            return {"means": v.means, "precisions": v.scale, "weights": v.weights, "dof": v.dof, "shrinkage": v.shrinkage}
        ests = [("GMM-diag", gmm_fit, "diag"), ("GMM-full", gmm_fit, "full"), ("VBGMM", vb_fit, "full")]
        for e in (20, 27, 30):
            t = 2.0 ** e * rng.choice([-1.0, 1.0], dim)
            for name, f, ptype in ests:
                for niter, wf in ((0, "mstep"), (2, "em")):
                    ck.count(("transl", name, wf, ci, e), bucket="translation:%s:%s:2^%d%s" % (name, wf, e, ":empty-component" if empty else ""))
                    rep = {"estimator": name, "workflow": wf, "k": k, "dim": dim, "offset": t.tolist(), "x": x.tolist(), "labels": zt.tolist(),
                           "empty_component": bool(empty)}
                    with np.errstate(all="ignore"):
                        a = f(x, ptype, niter)
                        try:
                            b = f(x + t, ptype, niter)
                        except Exception as ex:
                            ck.fail("translation-equivariance/%s/%s/offset=2^%d" % (name, wf, e), "%s on data translated by %s raised %s: %s" % (name, t.tolist(), type(ex).__name__, ex), rep)
                            continue
                    errs = {}
                    for key in a:
                        want = a[key] + t if key == "means" else a[key]
                        scale_ = 1.0 if key in ("means", "weights", "memberships") else float(np.max(np.abs(a[key])))
                        with np.errstate(all="ignore"):
                            errs[key] = float(np.max(np.abs(b[key] - want)) / scale_)
                    # the translated data carry an absolute rounding error ~ 2^e * 1e-16 into the centred quantities;
                    # EM iterations amplify it (soft memberships of overlapping clusters): tolerance scaled with the offset
                    tol = max(1e-7, 2.0 ** e * (1e-14 if wf == "mstep" else 2e-12))
                    if not (max(errs.values()) < tol):
                        ck.fail("translation-equivariance/%s/%s/offset=2^%d" % (name, wf, e),
                                "%s fitted on data translated by %s is not the translated fit (means + offset, everything else unchanged): errors %s" % (name, t.tolist(), errs),
                                dict(rep, errors=errs))
        # Segmentation.vm_step (class means / variances from the posterior maps)
        shape = (3, 3, 3)
        data = np.round(rng.normal(size=shape) * 8) / 8.0 * 10
        mu0 = np.array([-5.0, 5.0])
        ppm = rng.integers(1, 8, shape + (2,)).astype(float)
        ppm = ppm / ppm.sum(-1, keepdims=True)
        for e in (20, 27, 30):
            t = 2.0 ** e
            res = []
            for off in (0.0, t):
                S = Segmentation(data + off, ppm=ppm.copy(), beta=0.2, ngb_size=6)
                S.vm_step()
                res.append((S.mu.ravel() - off, S.sigma.ravel()))
            ck.count(("transl", "seg", ci, e), bucket="translation:Segmentation.vm_step:2^%d" % e)
            em = float(np.max(np.abs(res[0][0] - res[1][0])))
            es = float(np.max(np.abs(res[0][1] - res[1][1]) / np.abs(res[0][1])))
            if not (em < 1e-4 and es < 1e-4):
                ck.fail("translation-equivariance/Segmentation.vm_step/offset=2^%d" % e,
                        "Segmentation.vm_step on intensities translated by 2^%d: class means error %.3g, class variances relative error %.3g "
                        "(variances %s vs %s)" % (e, em, es, res[1][1].tolist(), res[0][1].tolist()),
                        {"data": data.tolist(), "ppm": ppm.tolist(), "offset": t})
    if ck.build is not None and ck.build.ok:
        res = ck.coq_bools(HDR, terms, shard=120, name="magn")
        ck.cov["traces_validated_against_impl"] += len(res)
        for ok, (kind, rep) in zip(res, meta):
            if not ok:
                ck.fail("magnitudes-model-vs-impl/%s" % kind, "Coq model of guess_regularizing (prior mean = column mean, prior scale = KF / column variance) disagrees "
                        "with the implementation on data of this magnitude", rep)
    ck.section("magnitudes", cases=N, model_terms=len(terms))


# ------------------------------------------------------------------ Segmentation.vm_step / normalized_external_field (matrix)
HDR_SEG = HDR + "From NV.Generated Require Import SegFrags.\nFrom NV.C13 Require Import SegModel.\n"


def cqmat_q(M):
    return clist([cql(fl(r)) for r in M])


def segfit(ck):
    """Segmentation.vm_step against SegModel.vm_class (weighted mean, centred weighted scatter, Z floor) and the oracles
    of the equivariance theorems on the implementation; normalized_external_field against SegModel.nef_matrix."""
    from nipy.algorithms.segmentation.segmentation import Segmentation
    rng = ck.rng("segfit")
    N = ck.n(36, 300)
    terms, meta = [], []
    tol = F(1, 10 ** 11)
    for ci in range(N):
        K = int(rng.integers(1, 4))
        nch = int(rng.integers(1, 4)) if ci % 3 else 1
        sp = [(2, 2, 2), (3, 2, 2), (2, 2, 3), (2, 3, 2)][ci % 4]
        shape = sp if nch == 1 else sp + (nch,)
        data = rng.integers(-24, 25, shape).astype(float) / [1.0, 4.0][ci % 2]
        mask = None
        if ci % 3 == 1:
            mask = rng.random(sp) < 0.7
            mask[(0,) * 3] = True
        # posterior maps: rows k/16 on the simplex; classes without any mass (population 0) in every fourth case
        raw = rng.integers(0, 5, sp + (K,)).astype(float)
        empty = K > 1 and ci % 4 == 3
        if empty:
            raw[..., 0] = 0
        raw[..., K - 1] += (raw.sum(-1) == 0)
        ppm = np.floor(16 * raw / raw.sum(-1, keepdims=True)) / 16
        ppm[..., K - 1] += 1 - ppm.sum(-1)
        S = Segmentation(data, mask=mask, ppm=ppm.copy(), beta=0.2, ngb_size=6)
        S.vm_step()
        m = S.mask
        chans = S.data.T                         # (nch, nvox)
        rep = {"data": data.tolist(), "ppm": ppm.tolist(), "mask": None if mask is None else mask.astype(int).tolist()}
        ck.count(("vm", data.tobytes(), ppm.tobytes(), None if mask is None else mask.tobytes()),
                 bucket="vm_step:nch=%d:%s" % (nch, "empty-class" if empty else "all-classes-populated"))
        for i in range(K):
            P = ppm[..., i][m].ravel()
            mu_i, sg_i = S.mu[i], S.sigma[i]
            if not (finite(mu_i) and finite(sg_i)):
                ck.fail("vm_step/non-finite", "Segmentation.vm_step: class %d mean %s covariance %s" % (i, mu_i.tolist(), sg_i.tolist()), dict(rep, cls=i))
                continue
            terms.append("vm_class_near %s %s %s %s %s" % (cq(tol), cql(fl(P)), cqmat_q(chans), cql(fl(mu_i)), cqmat_q(sg_i)))
            meta.append(("vm_step-class", dict(rep, cls=i)))
            # definition oracles (independent of Coq)
            Zs = max(P.sum(), 1e-50)
            wm = (chans * P).sum(1) / Zs
            ws = ((chans.T - wm).T * P) @ (chans.T - wm) / Zs
            if np.max(np.abs(mu_i - wm)) > 1e-11 or np.max(np.abs(sg_i - ws)) > 1e-10:
                ck.fail("vm_step/not-the-weighted-moments/%s" % ("empty-class" if P.sum() == 0 else "populated"),
                        "class %d: mean %s covariance %s but weighted mean %s centred weighted scatter %s" % (
                            i, mu_i.tolist(), sg_i.tolist(), wm.tolist(), ws.tolist()), dict(rep, cls=i))
            if np.max(np.abs(sg_i - sg_i.T)) > 1e-12 or np.min(np.diag(sg_i)) < 0:
                ck.fail("vm_step/covariance-not-symmetric-nonneg", "class %d covariance %s" % (i, sg_i.tolist()), dict(rep, cls=i))
        # theorem oracles on the implementation: per-channel translation (integers: exact data) and power-of-two scaling
        off = rng.integers(-40, 41, nch).astype(float)
        sc = np.array([2.0 ** int(e) for e in rng.integers(-6, 7, nch)])
        pops = np.array([ppm[..., i][m].sum() for i in range(K)])
        St = Segmentation(data + (off if nch > 1 else off[0]), mask=mask, ppm=ppm.copy(), beta=0.2, ngb_size=6)
        St.vm_step()
        Ss = Segmentation(data * (sc if nch > 1 else sc[0]), mask=mask, ppm=ppm.copy(), beta=0.2, ngb_size=6)
        Ss.vm_step()
        for i in range(K):
            if pops[i] > 0 and (np.max(np.abs(St.mu[i] - S.mu[i] - off)) > 1e-10 or np.max(np.abs(St.sigma[i] - S.sigma[i])) > 1e-9):
                ck.fail("vm_step/translation-equivariance/small-offset", "class %d: data + %s gives mean %s (was %s) covariance %s (was %s)" % (
                    i, off.tolist(), St.mu[i].tolist(), S.mu[i].tolist(), St.sigma[i].tolist(), S.sigma[i].tolist()), dict(rep, cls=i, offset=off.tolist()))
            if not (np.allclose(Ss.mu[i], S.mu[i] * sc, rtol=1e-13, atol=0) and np.allclose(Ss.sigma[i], S.sigma[i] * np.outer(sc, sc), rtol=1e-13, atol=0)):
                ck.fail("vm_step/per-channel-scaling-equivariance/power-of-two", "class %d: data * %s gives mean %s (was %s) covariance %s (was %s)" % (
                    i, sc.tolist(), Ss.mu[i].tolist(), S.mu[i].tolist(), Ss.sigma[i].tolist(), S.sigma[i].tolist()), dict(rep, cls=i, scale=sc.tolist()))
        # relabelling the classes permutes the fitted parameters; frozen classes keep theirs
        perm = rng.permutation(K)
        Sp = Segmentation(data, mask=mask, ppm=ppm[..., perm].copy(), beta=0.2, ngb_size=6)
        Sp.vm_step()
        if not (np.array_equal(Sp.mu, S.mu[perm]) and np.array_equal(Sp.sigma, S.sigma[perm])):
            ck.fail("vm_step/relabelling-not-a-permutation", "classes relabelled by %s: fitted parameters are not the permuted ones" % perm.tolist(), dict(rep, perm=perm.tolist()))
        if K > 1:
            Sf = Segmentation(data, mask=mask, ppm=ppm.copy(), beta=0.2, ngb_size=6)
            Sf.vm_step(freeze=(0,))
            if not (np.all(Sf.mu[0] == 0) and np.all(Sf.sigma[0] == 0) and np.array_equal(Sf.mu[1:], S.mu[1:]) and np.array_equal(Sf.sigma[1:], S.sigma[1:])):
                ck.fail("vm_step/freeze", "vm_step(freeze=(0,)) changed the frozen class or fitted the others differently", rep)
        # normalized_external_field with the fitted parameters, whole matrix, exp oracle at the exact per-voxel shifted arguments
        if nch == 1 and ci % 2 == 0 and np.all(S.sigma.ravel() > 0):
            if ci % 4 == 0:
                S.data[0, 0] += 64.0 * float(np.sqrt(S.sigma.max()))          # an outlier w.r.t. every class
            with np.errstate(all="ignore"):
                lef = S.log_external_field()
                nef = S.normalized_external_field()
            tbl = []
            for r in lef:
                mx = max(fl(r))
                tbl += [(a - mx, math.exp(float(a - mx))) for a in fl(r)]
            terms.append("qmat_near %s (nef_matrix (qlookup %s) %s) %s" % (
                cq(tol), ctbl(tbl), cqmat_q(lef), cqmat_q(np.nan_to_num(nef, nan=-1.0, posinf=-1.0, neginf=-1.0))))
            meta.append(("nef-matrix", dict(rep, lef=lef.tolist())))
            if not (finite(nef) and np.max(np.abs(nef.sum(1) - 1)) < 1e-12 and nef.min() >= 0):
                ck.fail("nef/row-sum/after-vm_step", "normalized_external_field with fitted parameters: rows not on the simplex: %s" % nef.tolist(), dict(rep, lef=lef.tolist()))
    if ck.build is not None and ck.build.ok:
        res = ck.coq_bools(HDR_SEG, terms, shard=150, name="segfit")
        ck.cov["traces_validated_against_impl"] += len(res)
        for ok, (kind, rep) in zip(res, meta):
            if not ok:
                ck.fail("segfit-model-vs-impl/%s" % kind, "Coq model (%s) disagrees with the implementation" % kind, rep)
    ck.section("segfit", cases=N, model_terms=len(terms))


def run(ck):
    ck.cov["rule"] = (
        "mrf: random grids 1..3^3 (thorough: up to 4), K 1..3, masks, point orders, U in {Potts, symmetric int, asymmetric int}, "
        "dyadic ppm, ref styles {simplex k/16, dyadic, zero rows, 1e-305 rows}, beta in {0,.25,1}, ngb in {6,26}; "
        "distinct by all array bytes. posteriors: dyadic likelihood matrices incl. rows below the 1e-15 floor; GMMs with "
        "dims 1..4, k 1..6, integer means, precisions L L^T / integer diag, power-of-two weights, duplicated components "
        "(ties), outliers at 1000+; GGM/GGGM with integer parameters and far points; vMF precisions 0.5..2000; "
        "2x2x2 segmentations with 1-2 channels, one outlier voxel at 24..2e4 class sd, masks, beta 0 / > 0; "
        "segfit: Segmentation.vm_step on grids 2x2x2..2x3x2, 1-3 channels, 1-3 classes, dyadic data, k/16 posterior maps, "
        "classes of population 0, per-channel translations / power-of-two scalings, relabelling, freeze")
    ck.trust.append("oracle contracts: exp(x) >= 0 (ve_step, normalized_external_field), exp(0) = 1 (normalized_external_field), "
                    "exp(x) > 0 (vMF; violated in floating point only by overflow, reported as a finding); densities fed to the "
                    "posterior models are the implementation's own _gam_dens/_gaus_dens/unweighted_likelihood values")
    ck.trust.append("exp oracle values in the ve_step correspondence come from Python's math.exp on the exactly computed argument; "
                    "the C code calls libm exp on the floating-point argument (difference covered by the 1e-12 tolerance)")
    ck.coq_build()
    ck.overlay()
    import time
    for fn in (mrf, posteriors, gauss, bgmm_helpers, brainseg, lifecycle, magnitudes, segfit):
        t0 = time.time()
        fn(ck)
        ck.section(fn.__name__, wall_s=round(time.time() - t0, 1))
