"""Catalogue of public routines exercised by C01-C19, used by the C20 check.

Each entry: name -> builder(rng, variant) returning (callable, args tuple, kwargs dict).
`variant` selects the memory layout / boundary form of the array arguments:
  plain | fortran | view (non-contiguous, negative stride) | readonly | singleton | empty | extreme |
  tview (axes reversed inside a padded parent) | midsingle (a single-element axis that is not trailing, tview layout) |
  dtype-int64 | dtype-int32 | dtype-float32 | dtype-uint8 (every array argument stored in that dtype) |
  negstride (negative strides on every axis)
A builder may raise Skip when a variant makes no sense for the routine.
All argument objects must be reachable from (args, kwargs) so that they are snapshotted.
"""
import numpy as np


class Skip(Exception):
    pass


VARIANTS = ["plain", "fortran", "view", "readonly", "singleton", "empty", "extreme", "tview", "midsingle",
            "dtype-int64", "dtype-int32", "dtype-float32", "dtype-uint8", "negstride"]
# layouts whose arrays are views into a larger padded parent buffer: the worker calls these twice with
# different padding values (results must not depend on the padding = no reads outside the view) and checks
# that the padding is intact afterwards (no writes outside the view)
PADDED = ("view", "tview", "midsingle")
FILL = [0]            # padding value used by lay() for the padded layouts (set by the worker)
PARENTS = []          # (parent buffer, boolean mask of the cells that belong to the view, fill value)


def _fill_value(dtype, fill):
    if np.dtype(dtype) == np.bool_:
        return bool(fill)
    if np.dtype(dtype).kind in "iu":
        return int(fill) % 100 if np.dtype(dtype).kind == "u" else int(fill)
    return fill


def lay(a, variant):
    """Give array `a` the memory layout requested by `variant` (same values)."""
    a = np.array(a)
    if variant == "plain":
        return a
    if variant.startswith("dtype-"):        # same values (as far as representable) stored in another dtype
        dt = np.dtype(variant[6:])
        if a.dtype == object:
            return a
        with np.errstate(all="ignore"):
            return (np.abs(a) if dt.kind == "u" and a.dtype != np.bool_ else a).astype(dt)
    if variant == "fortran":
        return np.asfortranarray(a)
    if variant == "negstride":              # same values seen through negative strides on every axis
        if a.ndim == 0:
            return a
        rev = tuple(slice(None, None, -1) for _ in a.shape)
        return np.ascontiguousarray(a[rev])[rev]
    if variant == "view":
        fv = _fill_value(a.dtype, FILL[0])
        big = np.full(tuple(2 * s for s in a.shape), fv, dtype=a.dtype)
        sl = tuple(slice(None, None, 2) for _ in a.shape)
        big[sl] = a
        if a.ndim:
            m = np.zeros(big.shape, dtype=bool); m[sl] = True
            PARENTS.append((big, m, fv))
        v = big[sl]
        if a.ndim >= 1 and a.shape[0] > 1:
            v = v[::-1][::-1]   # same values, exercised through two negative-stride views
        return v
    if variant in ("tview", "midsingle"):
        # axes reversed (neither C nor Fortran order) inside a padded parent, stride 2, offset 1
        if a.ndim == 0:
            return a
        fv = _fill_value(a.dtype, FILL[0])
        big = np.full(tuple(2 * s + 1 for s in a.shape[::-1]), fv, dtype=a.dtype)
        sl = tuple(slice(1, None, 2) for _ in a.shape)
        big[sl] = a.transpose()
        m = np.zeros(big.shape, dtype=bool); m[sl] = True
        PARENTS.append((big, m, fv))
        return big[sl].transpose()
    if variant == "readonly":
        b = a.copy()
        b.setflags(write=False)
        return b
    return a


def shape_for(variant, shape):
    if variant == "singleton":
        return tuple(1 for _ in shape)
    if variant == "empty":
        return (0,) + tuple(shape[1:])
    if variant == "midsingle":      # a single-element axis that is NOT trailing
        if len(shape) >= 3:
            return (shape[0], 1) + tuple(shape[2:])
        if len(shape) == 2:
            return (1, shape[1])
    return shape


def data(rng, variant, shape, kind="float", lo=-5, hi=6):
    shape = shape_for(variant, shape)
    a = rng.integers(lo, hi, shape)
    if kind == "float":
        a = a.astype(np.float64)
        if variant == "extreme" and a.size:
            a = a * 1e150
            a.flat[0] = np.nan
            if a.size > 1:
                a.flat[1] = np.inf
    return lay(a, variant)


def _cmap(n=3):
    from nipy.core.api import AffineTransform
    return AffineTransform.from_params("ijk"[:n], "xyz"[:n], np.diag([2., 3, 4, 1][:n] + [1.]))


def _img(rng, variant, shape=(4, 5, 3)):
    from nipy.core.api import Image
    d = data(rng, variant, shape)
    if d.ndim != 3 or 0 in d.shape:
        raise Skip()
    return Image(d, _cmap(3))


CATALOGUE = {}


def entry(name):
    def deco(f):
        CATALOGUE[name] = f
        return f
    return deco


# ------------------------------------------------------------------ core.reference
@entry("AffineTransform.__call__")
def _(rng, v):
    return _cmap(3), (data(rng, v, (6, 3)),), {}


@entry("AffineTransform.renamed_domain(dict)")
def _(rng, v):
    return _cmap(3).renamed_domain, ({0: "a", "k": "c"},), {}


@entry("AffineTransform.renamed_range(dict)")
def _(rng, v):
    return _cmap(3).renamed_range, ({1: "b"},), {}


@entry("AffineTransform.reordered_domain(list)")
def _(rng, v):
    return _cmap(3).reordered_domain, ([2, 0, 1],), {}


@entry("compose/product/inverse")
def _(rng, v):
    from nipy.core.reference.coordinate_map import compose, product
    a, b = _cmap(3), _cmap(3).renamed_domain({"i": "x", "j": "y", "k": "z"}).renamed_range({"x": "u", "y": "v", "z": "w"})

    def f(a, b):
        return compose(b, a), product(a, b), a.inverse()
    return f, (a, b), {}


@entry("shifted_domain_origin")
def _(rng, v):
    from nipy.core.reference.coordinate_map import shifted_domain_origin
    return shifted_domain_origin, (_cmap(3), data(rng, v if v in ("plain", "readonly", "view") else "plain", (3,)), "o"), {}


@entry("drop_io_dim/append_io_dim")
def _(rng, v):
    from nipy.core.reference.coordinate_map import drop_io_dim, append_io_dim
    cm = _cmap(3)

    def f(cm):
        return drop_io_dim(cm, "k"), append_io_dim(cm, "t", "t", 1, 2)
    return f, (cm,), {}


# ------------------------------------------------------------------ core.image
@entry("Image.__getitem__/reordered_axes/rollimg")
def _(rng, v):
    from nipy.core.image.image import rollimg, iter_axis
    img = _img(rng, v)

    def f(img):
        return img[1:, ::-1, 0], img.reordered_axes([2, 0, 1]), rollimg(img, -1), list(iter_axis(img, 0))[:1]
    return f, (img,), {}


@entry("as_xyz_image/xyz_affine")
def _(rng, v):
    from nipy.core.image.image_spaces import as_xyz_image, xyz_affine
    from nipy.core.api import Image
    from nipy.core.reference.spaces import vox2mni
    d = data(rng, v, (3, 4, 2))
    if 0 in d.shape:
        raise Skip()
    img = Image(d, vox2mni(np.diag([2., 3, 4, 1]))).reordered_axes([2, 0, 1])
    return (lambda im: (as_xyz_image(im), xyz_affine(im))), (img,), {}


@entry("nipy2nifti/nifti2nipy")
def _(rng, v):
    from nipy.core.api import Image
    from nipy.core.reference.spaces import vox2mni
    from nipy.io.nifti_ref import nipy2nifti, nifti2nipy
    d = data(rng, v, (3, 4, 2))
    if 0 in d.shape:
        raise Skip()
    img = Image(d, vox2mni(np.diag([2., 3, 4, 1])))
    return (lambda im: nifti2nipy(nipy2nifti(im))), (img,), {}


# ------------------------------------------------------------------ resampling / smoothing
@entry("resample")
def _(rng, v):
    from nipy.algorithms.resample import resample
    img = _img(rng, v)
    return resample, (img, img.coordmap, np.eye(4), img.shape), {"order": 1}


@entry("ImageInterpolator.evaluate")
def _(rng, v):
    from nipy.algorithms.interpolation import ImageInterpolator
    img = _img(rng, "plain")
    pts = data(rng, v, (3, 5))
    return (lambda im, p: ImageInterpolator(im, order=1).evaluate(p)), (img, pts), {}


@entry("LinearFilter.smooth")
def _(rng, v):
    from nipy.algorithms.kernel_smooth import LinearFilter
    img = _img(rng, v, (5, 6, 4))
    return (lambda im: LinearFilter(im.coordmap, im.shape, fwhm=3.).smooth(im)), (img,), {}


@entry("registration.resample")
def _(rng, v):
    from nipy.algorithms.registration import resample
    from nipy.algorithms.registration.affine import Affine
    from nipy.core.api import Image
    from nipy.core.reference.spaces import vox2mni
    d = data(rng, v, (4, 5, 3))
    if 0 in d.shape:
        raise Skip()
    img = Image(d, vox2mni(np.eye(4)))
    return (lambda im: resample(im, Affine(), reference=im)), (img,), {}


# ------------------------------------------------------------------ registration kernels
@entry("_joint_histogram")
def _(rng, v):
    from nipy.algorithms.registration._registration import _joint_histogram
    from nipy.algorithms.registration.histogram_registration import HistogramRegistration
    from nipy.algorithms.registration.affine import Affine
    from nipy.core.api import Image
    from nipy.core.reference.spaces import vox2mni
    d = data(rng, v, (4, 5, 3), lo=0, hi=6)
    if 0 in d.shape:
        raise Skip()
    img = Image(d, vox2mni(np.eye(4)))

    def f(im):
        R = HistogramRegistration(im, im, from_bins=4, to_bins=4, interp="pv")
        return R.eval(Affine())
    return f, (img,), {}


@entry("HistogramRegistration with unequal bin counts, every similarity and interpolation, random affine")
def _(rng, v):
    from nipy.algorithms.registration.histogram_registration import HistogramRegistration
    from nipy.algorithms.registration.affine import Affine
    from nipy.core.api import Image
    from nipy.core.reference.spaces import vox2mni
    if v in ("empty", "singleton", "midsingle", "extreme"):
        raise Skip()
    d1 = data(rng, v, (5, 6, 4), lo=0, hi=60)
    d2 = data(rng, v, (5, 6, 4), lo=0, hi=60)
    im1, im2 = Image(d1, vox2mni(np.eye(4))), Image(d2, vox2mni(np.diag([1.1, 0.9, 1., 1.])))
    fb, tb = (int(x) for x in rng.choice([2, 3, 5, 8, 17, 32, 40], 2, replace=False))   # never equal
    sims = ["cc", "cr", "crl1", "mi", "nmi", "pmi", "dpmi"]
    sim = sims[int(rng.integers(0, len(sims)))]
    interp = ["pv", "tri", "rand"][int(rng.integers(0, 3))]
    T = Affine(np.concatenate([rng.uniform(-1.5, 1.5, 3), rng.uniform(-0.2, 0.2, 3), rng.uniform(-0.1, 0.1, 3), rng.uniform(-0.05, 0.05, 3)]))

    def f(im1, im2):
        out = []
        for a, b in ((fb, tb), (tb, fb)):
            R = HistogramRegistration(im1, im2, from_bins=a, to_bins=b, similarity=sim, interp=interp)
            out.append(R.eval(T))
            out.append(R.eval(Affine()))
        return out
    return f, (im1, im2), {}


@entry("PolyAffine.apply / compose: points on, near and far from every centre; tiny, zero and huge kernel widths")
def _(rng, v):
    from nipy.algorithms.registration.polyaffine import PolyAffine
    from nipy.algorithms.registration.affine import Affine
    if v in ("empty",):
        raise Skip()
    nc = int(rng.integers(1, 4))
    centers = data(rng, v if v in ("plain", "fortran", "view", "tview", "readonly") else "plain", (nc, 3))
    affs = [Affine(np.concatenate([rng.uniform(-2, 2, 3), rng.uniform(-0.3, 0.3, 3), rng.uniform(-0.1, 0.1, 6)])) for _ in range(nc)]
    pts = data(rng, v, (9, 3))
    if pts.ndim == 2 and pts.shape[0] >= 6 and v != "extreme":
        pts = np.array(pts)
        pts[0] = np.array(centers)[0]                 # exactly on a centre
        pts[1] = np.array(centers)[0] + 1e-9
        pts[2] = [400., -300., 250.]                  # far (> 38 sigma) from every centre: every exp underflows
        pts[3] = [1e6, 1e6, -1e6]
        pts = lay(pts, v)
    sig = [float(x) for x in rng.choice([0.0, 1e-300, 1e-3, 1.0, 5.0, 1e3, 1e300], 3)]

    def f(centers, pts):
        out = []
        for sigma in (sig, 1.0, 0.0, 1e300):
            P = PolyAffine(centers, affs, sigma)
            out.append(P.apply(pts))
            out.append(P.compose(Affine()).apply(pts) if hasattr(P, "compose") else None)
        return out
    return f, (centers, pts), {}


@entry("_joint_histogram kernel: coordinates on, across and far beyond both grid borders, pv/tri/rand")
def _(rng, v):
    from nipy.algorithms.registration._registration import _joint_histogram
    if v in ("empty", "singleton", "midsingle"):
        raise Skip()
    ci, cj = 3, 8
    dims = (3, 4, 3)
    # high-contrast target (mostly the two extreme bins): extrapolating weights then leave the bin range
    J = np.where(rng.random(dims) < 0.7, rng.choice([0, cj - 1], dims), rng.integers(0, cj, dims)).astype(np.short)
    Jp = -np.ones(tuple(s + 2 for s in dims), dtype=np.short)
    Jp[1:-1, 1:-1, 1:-1] = J
    n = 300
    I = lay(rng.integers(-1, ci, (n, 1, 1)).astype(np.short), v if v in ("view", "tview", "fortran", "readonly") else "plain")
    # coordinates in the (unpadded) target grid: the kernel accepts the open range (-1, dim).  Per point: in-grid
    # coordinates with ONE axis across the lower or the upper border, lattice points incl. the borders, all axes
    # anywhere, or on / far beyond the limits
    T = np.empty((n, 3))
    for p in range(n):
        sc = int(rng.integers(0, 6))
        for k, s_ in enumerate(dims):
            T[p, k] = rng.uniform(0, s_ - 1)                       # inside the grid
        ax = int(rng.integers(0, 3)); s_ = dims[ax]
        if sc == 0:
            T[p, ax] = rng.uniform(-1, 0)
        elif sc == 1:
            T[p, ax] = rng.uniform(s_ - 1, s_)
        elif sc == 2:
            T[p] = [int(rng.integers(-2, d_ + 2)) for d_ in dims]
        elif sc == 3:
            T[p] = [rng.uniform(-1.5, d_ + 0.5) for d_ in dims]
        elif sc == 4:
            T[p, ax] = rng.choice([-3.5, -1.0, -1 + 1e-9, -1e-9, s_ - 1e-9, float(s_), s_ + 3.5])
    if v == "extreme":
        T[0] = [1e300, -1e300, 1e18]
        T[1] = [np.inf, 0, 0]
        T[2] = [-np.inf, 1, 1]
        T[3] = [2 ** 31, 2 ** 31 + 0.5, -2 ** 31 - 0.5]
    guard = 32
    buf = np.full(guard + ci * cj + guard, float(FILL[0]))
    m = np.zeros(buf.shape, dtype=bool); m[guard:guard + ci * cj] = True
    PARENTS.append((buf, m, float(FILL[0])))

    def f(I, Jp, T):
        out = []
        for interp in (0, 1, -1):
            H = buf[guard:guard + ci * cj].reshape(ci, cj)
            H[:] = 0
            _joint_histogram(H, I.flat, Jp, T, interp)
            out.append(H.copy())
        return out
    return f, (I, Jp, T), {}


@entry("_cspline_transform/_cspline_sample3d")
def _(rng, v):
    from nipy.algorithms.registration._registration import _cspline_transform, _cspline_sample3d
    d = data(rng, v, (4, 5, 3))
    X = data(rng, "plain", (6,), lo=0, hi=3)

    def f(d, X):
        c = _cspline_transform(d)
        return _cspline_sample3d(np.zeros(6), c, X, X, X)
    return f, (d, X), {}


@entry("Affine transforms")
def _(rng, v):
    from nipy.algorithms.registration.affine import Affine, Rigid
    p = data(rng, v if v in ("plain", "readonly", "view", "fortran") else "plain", (12,)) * 0.1
    pts = data(rng, v, (5, 3))

    def f(p, pts):
        a = Affine(); a.param = np.array(p); r = Rigid(); r.param = np.array(p[:6])
        return a.compose(r).apply(pts), a.inv().apply(pts), a.as_affine()
    return f, (p, pts), {}


# ------------------------------------------------------------------ statistics
@entry("quantile")
def _(rng, v):
    from nipy.algorithms.statistics import quantile
    # one array per axis (the known in-place selection reorders values within the lanes of the axis it is given)
    shapes = [(7, 3), (8, 4), (6, 5, 2)]
    cases = [(data(rng, v, sh, lo=-2, hi=3), ax) for sh in shapes for ax in range(len(sh))]   # ties on purpose

    def f(cases):
        out = []
        for x, axis in cases:
            if axis >= np.ndim(x):
                continue
            for ratio in (0.0, 0.25, 0.5, 0.9, 1.0):
                for interp in (False, True):
                    out.append(quantile(x, ratio, interp=interp, axis=axis))
        return out
    return f, (cases,), {}


@entry("median")
def _(rng, v):
    from nipy.algorithms.statistics import median
    shapes = [(7, 3), (8, 4), (6, 5, 2)]
    cases = [(data(rng, v, sh, lo=-2, hi=3), ax) for sh in shapes for ax in range(len(sh))]
    return (lambda cases: [median(x, axis=a) for x, a in cases if a < np.ndim(x)]), (cases,), {}


@entry("histogram")
def _(rng, v):
    from nipy.algorithms.statistics.histogram import histogram
    x = lay(data(rng, v, (20,), kind="int", lo=0, hi=9).astype(np.uintp), v)
    return histogram, (x,), {}


@entry("intvol.EC3d/Lips3d")
def _(rng, v):
    from nipy.algorithms.statistics import intvol
    m = data(rng, v, (3, 4, 3), kind="int", lo=0, hi=2)
    if 0 in m.shape:
        raise Skip()
    coords = np.indices(m.shape).astype(np.float64)

    def f(m, coords):
        return intvol.EC3d(m), intvol.Lips3d(coords, m)
    return f, (m, coords), {}


@entry("OLSModel/ARModel fit")
def _(rng, v):
    from nipy.algorithms.statistics.models.regression import OLSModel, ARModel
    X = data(rng, v, (9, 3)); Y = data(rng, v, (9, 4))
    if v in ("singleton", "empty", "extreme"):
        raise Skip()
    X = np.array(X); X[:, 0] = 1; X[:3, 1] = [1, 2, 4]; X[:3, 2] = [0, 1, 0]
    X = lay(X, v)

    def f(X, Y):
        r = OLSModel(X).fit(Y)
        r2 = ARModel(X, 0.3).fit(Y)
        return r.theta, r.resid, r2.theta
    return f, (X, Y), {}


@entry("yule_walker")
def _(rng, v):
    from nipy.algorithms.statistics.models.regression import yule_walker
    return yule_walker, (data(rng, v, (12,)),), {"order": 2}


@entry("fmri.glm.GeneralLinearModel")
def _(rng, v):
    from nipy.modalities.fmri.glm import GeneralLinearModel
    if v in ("singleton", "empty", "extreme"):
        raise Skip()
    X = np.array(data(rng, "plain", (10, 3))); X[:, 0] = 1; X[:4, 1] = [1, 2, 4, 8]; X[:4, 2] = [0, 1, 0, 2]
    X = lay(X, v); Y = data(rng, v, (10, 5))

    def f(X, Y):
        g = GeneralLinearModel(X); g.fit(Y, model="ar1")
        c = g.contrast(np.array([0., 1, 0]))
        return c.stat(), c.p_value(), c.z_score()
    return f, (X, Y), {}


@entry("fdr/z_score")
def _(rng, v):
    from nipy.algorithms.statistics.empirical_pvalue import fdr, fdr_threshold
    from nipy.algorithms.statistics.utils import z_score
    p = np.abs(data(rng, v, (15,))) / 8.0
    if v == "extreme":
        raise Skip()

    def f(p):
        return fdr(p), (fdr_threshold(p) if p.size else None), z_score(p)
    return f, (p,), {}


@entry("estimate_mean/estimate_varatio")
def _(rng, v):
    from nipy.algorithms.statistics.onesample import estimate_mean, estimate_varatio
    Y = data(rng, v, (6, 4)); sd = np.abs(data(rng, v, (6, 4))) + 1; df = lay(np.arange(1., Y.shape[0] + 1), v if v != "extreme" else "plain")

    def f(Y, sd, df):
        return estimate_mean(Y, sd), estimate_varatio(Y, sd, df=df)
    return f, (Y, sd, df), {}


@entry("rft densities")
def _(rng, v):
    from nipy.algorithms.statistics import rft
    x = data(rng, v, (5,), lo=0, hi=5)
    return (lambda x: (rft.Gaussian().density(x, 2), rft.TStat(dfd=10).density(x, 1))), (x,), {}


# ------------------------------------------------------------------ design
@entry("compute_regressor/make_dmtx")
def _(rng, v):
    from nipy.modalities.fmri.hemodynamic_models import compute_regressor
    from nipy.modalities.fmri.design_matrix import make_dmtx
    from nipy.modalities.fmri.experimental_paradigm import EventRelatedParadigm
    if v in ("singleton", "empty", "extreme"):
        raise Skip()
    ft = lay(np.arange(0., 300, 2), v)
    on = lay(np.array([2., 2., 10., 20.]), v); du = lay(np.zeros(4), v); am = lay(np.array([1., 2, 1, 1]), v)

    def f(ft, on, du, am):
        reg, names = compute_regressor((on, du, am), "canonical", ft)
        par = EventRelatedParadigm(["a", "a", "b", "b"], on)
        return reg, make_dmtx(ft, par, drift_model="cosine").matrix
    return f, (ft, on, du, am), {}


@entry("events/blocks lambdify")
def _(rng, v):
    from nipy.modalities.fmri.utils import events, blocks, lambdify_t
    if v in ("singleton", "empty", "extreme"):
        raise Skip()
    on = lay(np.array([1., 3, 7]), v); am = lay(np.array([1., 2, 3]), v); t = lay(np.arange(0., 10, .5), v)
    return (lambda on, am, t: (lambdify_t(blocks(list(zip(on, on + 1)), am))(t),)), (on, am, t), {}


# ------------------------------------------------------------------ graph / clustering
@entry("knn/eps_nn/dijkstra/cc/mst")
def _(rng, v):
    from nipy.algorithms.graph.graph import knn, eps_nn, mst
    X = data(rng, v, (8, 2))
    if v == "extreme":
        raise Skip()

    def f(X):
        g = knn(X, 2); h = eps_nn(X, 3.); m = mst(X)
        return g.dijkstra(0), g.cc(), h.E, m.E, g.to_coo_matrix().toarray()
    return f, (X,), {}


@entry("WeightedGraph(edges, weights) ops")
def _(rng, v):
    from nipy.algorithms.graph.graph import WeightedGraph
    if v in ("singleton", "empty", "extreme"):
        raise Skip()
    e = lay(np.array([[0, 1], [1, 0], [1, 2], [2, 1], [3, 3]]), v); w = lay(np.array([1., 1, 2, 2, 5]), v)

    def f(e, w):
        g = WeightedGraph(4, e, w)
        return g.symmeterize().weights, g.subgraph(np.array([True, True, False, True])).E, g.cut_redundancies().E, g.dijkstra(0), g.floyd()
    return f, (e, w), {}


@entry("Forest queries")
def _(rng, v):
    from nipy.algorithms.graph.forest import Forest
    if v in ("singleton", "empty", "extreme"):
        raise Skip()
    p = lay(np.array([0, 0, 1, 1, 0]), v)

    def f(p):
        fo = Forest(5, p)
        return fo.get_children(), fo.depth_from_leaves(), fo.reorder_from_leaves_to_roots(), fo.subforest(np.array([True, True, False, True, True])).parents
    return f, (p,), {}


@entry("kmeans/voronoi")
def _(rng, v):
    from nipy.algorithms.clustering.utils import kmeans, voronoi
    X = data(rng, v, (9, 2))
    if v in ("empty", "extreme"):
        raise Skip()
    lab = lay(np.arange(X.shape[0]) % 2, v if v != "singleton" else "plain")
    return (lambda X, lab: (kmeans(X, nbclusters=2, Labels=lab, maxiter=3), voronoi(X, X[:2]))), (X, lab), {}


@entry("ward")
def _(rng, v):
    from nipy.algorithms.clustering.hierarchical_clustering import ward
    from nipy.algorithms.graph.graph import knn
    if v in ("singleton", "empty", "extreme"):
        raise Skip()
    X = lay(np.array([[0., 0], [1, 0], [3, 1], [6, 2], [7, 7], [2, 5], [9, 1]]) + rng.integers(0, 2), v)
    return (lambda X: ward(knn(np.array(X), 2), X).parents), (X,), {}


@entry("GMM likelihood")
def _(rng, v):
    from nipy.algorithms.clustering.gmm import GMM
    if v in ("empty",):
        raise Skip()
    X = data(rng, v, (8, 2))
    means = lay(np.array([[0., 0], [2, 2]]), v if v not in ("singleton", "extreme") else "plain")
    prec = lay(np.array([[1., 1], [2, 2]]), v if v not in ("singleton", "extreme") else "plain")
    w = lay(np.array([.5, .5]), v if v not in ("singleton", "extreme") else "plain")

    def f(X, means, prec, w):
        g = GMM(2, 2, "diag", means, prec, w)
        return g.likelihood(X), g.map_label(X)
    return f, (X, means, prec, w), {}


# ------------------------------------------------------------------ array-level analyses
@entry("time_slice_diffs")
def _(rng, v):
    from nipy.algorithms.diagnostics.timediff import time_slice_diffs
    return time_slice_diffs, (data(rng, v, (3, 4, 2, 5)),), {}


@entry("pca")
def _(rng, v):
    from nipy.algorithms.utils.pca import pca
    if v in ("singleton", "empty", "extreme"):
        raise Skip()
    return pca, (data(rng, v, (3, 4, 2, 6)),), {"axis": -1, "ncomp": 2}


@entry("compute_mask/largest_cc/intersect_masks")
def _(rng, v):
    from nipy.labs.mask import compute_mask, largest_cc, intersect_masks
    if v in ("singleton", "empty", "extreme"):
        raise Skip()
    d = data(rng, v, (5, 5, 4), lo=0, hi=50)
    m1 = lay(np.array(d) > 10, v); m2 = lay(np.array(d) > 20, v)
    return (lambda d, m1, m2: (compute_mask(d), largest_cc(m1), intersect_masks([m1, m2], threshold=0.5))), (d, m1, m2), {}


@entry("slice_generator/parcels")
def _(rng, v):
    from nipy.core.utils.generators import slice_generator, parcels
    d = data(rng, v, (3, 4), kind="int", lo=0, hi=3)
    return (lambda d: (list(slice_generator(d, axis=0)), list(parcels(d)))), (d,), {}


# ------------------------------------------------------------------ labs
@entry("labs.bindings blas")
def _(rng, v):
    from nipy.labs.bindings import blas_dgemm, blas_ddot, blas_dnrm2
    if v in ("empty",):
        raise Skip()
    A = data(rng, v, (3, 3)); B = data(rng, v, (3, 3)); C = data(rng, v, (3, 3)); x = data(rng, v, (4,))
    return (lambda A, B, C, x: (blas_dgemm(0, 0, 1., A, B, 0., C), blas_ddot(x, x), blas_dnrm2(x))), (A, B, C, x), {}


@entry("labs.bindings wrapper/array (fff_array views, 1-d..4-d)")
def _(rng, v):
    from nipy.labs.bindings import wrapper, array as farr
    if v in ("empty",):
        raise Skip()
    shapes = [(5,), (3, 4), (3, 2, 4), (2, 3, 2, 3)]
    Xs = [data(rng, v, sh) for sh in shapes]
    Ys = [lay(np.array(X) + 1, v) for X in Xs]

    def f(Xs, Ys):
        out = []
        for X, Y in zip(Xs, Ys):
            out.append(wrapper.pass_array(X))
            out.append(farr.array_add(X, Y)); out.append(farr.array_sub(X, Y))
            out.append(farr.array_mul(X, Y)); out.append(farr.array_div(X, Y))
            if X.ndim == 1:
                out.append(wrapper.pass_vector(X)); out.append(wrapper.copy_vector(X, 0)); out.append(wrapper.copy_vector(X, 1))
            if X.ndim == 2:
                out.append(wrapper.pass_matrix(X))
            for ax in range(X.ndim):
                out.append(wrapper.copy_via_iterators(X, ax)); out.append(wrapper.sum_via_iterators(X, ax))
                out.append(wrapper.pass_vector_via_iterator(X, ax, 0))
        return out
    return f, (Xs, Ys), {}


@entry("fmri.glm.Contrast(effect, variance) on the caller's arrays: stat/p_value/z_score/+/* with zero, tiny and negative variances")
def _(rng, v):
    from nipy.modalities.fmri.glm import Contrast
    if v in ("empty",):
        raise Skip()
    nvox = 7
    out_args = []
    for dim, ctype in ((1, "t"), (1, "F"), (2, "F"), (2, "tmin-conjunction")):
        eff = data(rng, v, (dim, nvox))
        if eff.ndim != 2:
            raise Skip()
        dim_, nv = eff.shape
        A = rng.normal(size=(dim_, dim_, nv)) + (2 * np.eye(dim_))[:, :, None]
        var = np.einsum("ikv,jkv->ijv", A, A)
        if nv > 3 and dim_ == 1:
            var[..., 0] = 0.0            # constant voxel
            var[..., 1] = 1e-60          # below the numerical floor
            var[0, 0, 2] = -1e-17        # rounding residue
        var = lay(var, v) if v not in ("singleton", "midsingle", "extreme") else var
        out_args.append((eff, var, ctype))

    def f(cases):
        out = []
        for eff, var, ctype in cases:
            try:
                c = Contrast(eff, var, dof=9, contrast_type=ctype)
                out += [c.stat(), c.p_value(), c.z_score(), c.stat(baseline=0.5)]
                c2 = Contrast(eff, var, dof=5, contrast_type=ctype)
                s = c + c2
                out += [s.stat(), (c * 2.0).z_score()]
            except (ValueError, np.linalg.LinAlgError) as e:
                out.append(type(e).__name__)
        return out
    return f, (out_args,), {}


@entry("statistics.utils.multiple_mahalanobis(effect, covariance)")
def _(rng, v):
    from nipy.algorithms.statistics.utils import multiple_mahalanobis
    if v in ("empty", "extreme"):
        raise Skip()
    x = data(rng, v, (3, 6))
    if x.ndim != 2:
        raise Skip()
    A = rng.normal(size=(x.shape[0], x.shape[0], x.shape[1])) + (2 * np.eye(x.shape[0]))[:, :, None]
    K = lay(np.einsum("ikv,jkv->ijv", A, A), v if v not in ("singleton", "midsingle") else "plain")
    return (lambda x, K: (multiple_mahalanobis(x, K), multiple_mahalanobis(x, K))), (x, K), {}


@entry("labs.bindings array ops on operands of different shapes (must be refused, memory intact)")
def _(rng, v):
    from nipy.labs.bindings import array as farr
    if v in ("empty", "singleton", "midsingle"):
        raise Skip()
    pairs = [((5,), (5, 4)), ((5, 1), (5, 4)), ((3, 4), (3, 4, 6)), ((2, 3, 4), (2, 3, 4, 9)), ((4,), (6,)), ((3, 4), (4, 3)), ((2, 3, 2), (2, 3))]
    ops = []
    for sa, sb in pairs:
        ops.append((data(rng, v, sa), data(rng, v, sb)))

    def f(ops):
        out = []
        for A, B in ops:
            for fn in (farr.array_add, farr.array_sub, farr.array_mul, farr.array_div):
                for X, Y in ((A, B), (B, A)):
                    try:
                        out.append(np.asarray(fn(X, Y)).shape)
                    except Exception as e:   # a refusal is the expected outcome
                        out.append(type(e).__name__)
        return out
    return f, (ops,), {}


@entry("labs.group.onesample.stat")
def _(rng, v):
    from nipy.labs.group import onesample
    if v in ("empty",):
        raise Skip()
    Y = data(rng, v, (8, 3))
    return (lambda Y: (onesample.stat(Y, id="student", axis=0), onesample.stat(Y, id="wilcoxon", axis=0))), (Y,), {}


@entry("segmentation ve_step")
def _(rng, v):
    from nipy.algorithms.segmentation import Segmentation
    if v in ("singleton", "empty", "extreme"):
        raise Skip()
    d = np.abs(data(rng, v, (4, 4, 3))) + 1
    mu = lay(np.array([1., 4.]), v); sigma = lay(np.array([1., 1.]), v)

    def f(d, mu, sigma):
        S = Segmentation(d, mu=mu, sigma=sigma, beta=0.5)
        S.run(niters=1)
        return S.ppm
    return f, (d, mu, sigma), {}


# ------------------------------------------------------------------ objects built from caller arrays, used repeatedly
@entry("fwhm2sigma/sigma2fwhm(ndarray)")
def _(rng, v):
    from nipy.algorithms.kernel_smooth import fwhm2sigma, sigma2fwhm
    w = lay(np.array([5., 7., 9.]), v if v in ("plain", "fortran", "view", "readonly") else "plain")
    return (lambda w: (fwhm2sigma(w), sigma2fwhm(w), fwhm2sigma(w))), (w,), {}


@entry("LinearFilter(fwhm=ndarray) used twice")
def _(rng, v):
    from nipy.algorithms.kernel_smooth import LinearFilter
    if v in ("singleton", "empty", "extreme"):
        raise Skip()
    img = _img(rng, "plain", (5, 6, 4))
    w = lay(np.array([3., 4., 5.]), v)

    def f(im, w):
        a = LinearFilter(im.coordmap, im.shape, fwhm=w).smooth(im)
        b = LinearFilter(im.coordmap, im.shape, fwhm=w).smooth(im)
        return a, b
    return f, (img, w), {}


@entry("ARModel(design, rho ndarray).iterative_fit")
def _(rng, v):
    from nipy.algorithms.statistics.models.regression import ARModel
    if v in ("singleton", "empty", "extreme"):
        raise Skip()
    X = np.array(data(rng, "plain", (12, 2))); X[:, 0] = 1; X[:, 1] = np.arange(12)
    Y = data(rng, "plain", (12,))
    rho = lay(np.array([0.25, 0.125]), v)
    rho0 = np.array(0.25)        # 0-d array: documented "int or array-like"

    def f(X, Y, rho, rho0):
        m = ARModel(X, rho); m.iterative_fit(Y, niter=2)
        m0 = ARModel(X, rho0); m0.fit(Y)
        return m.rho, m0.rho
    return f, (X, Y, rho, rho0), {}


@entry("Field(field=array) morphology on a copy of the caller's field")
def _(rng, v):
    from nipy.algorithms.graph.field import field_from_coo_matrix_and_data
    import scipy.sparse as sps
    if v in ("singleton", "empty", "extreme"):
        raise Skip()
    A = sps.coo_matrix(np.array([[0, 1, 0, 0], [1, 0, 1, 0], [0, 1, 0, 1], [0, 0, 1, 0]], float))
    d = data(rng, v, (4, 1))

    def f(A, d):
        F = field_from_coo_matrix_and_data(A, np.array(d))
        F.dilation(); F.erosion()
        return F.get_local_maxima(), F.custom_watershed()
    return f, (A, d), {}


@entry("Field on graphs whose last vertices have no edge: dilation / opening / closing / local maxima (compiled kernels)")
def _(rng, v):
    from nipy.algorithms.graph.field import Field
    if v in ("empty", "singleton", "midsingle"):
        raise Skip()
    V = 60
    # edges only among the first vertices, in both directions: the highest-numbered vertices are isolated
    a = rng.integers(0, 12, 40); b = rng.integers(0, 12, 40)
    keep = a != b
    edges = np.vstack([np.concatenate([a[keep], b[keep]]), np.concatenate([b[keep], a[keep]])]).T
    weights = np.ones(len(edges))
    d = data(rng, v, (V, 2))

    def f(edges, weights, d):
        out = []
        for fast in (True, False):
            F = Field(V, edges.copy(), weights.copy(), np.array(d, dtype=float))
            F.dilation(1, fast=fast); out.append(F.get_field().copy())
            F.opening(1); F.closing(1); out.append(F.get_field().copy())
            out.append(F.get_local_maxima(refdim=0))
        return out
    return f, (edges, weights, d), {}


@entry("spatial_models SubDomains / HierarchicalROI built on the caller's label and parent arrays")
def _(rng, v):
    from nipy.labs.spatial_models.discrete_domain import domain_from_binary_array
    from nipy.labs.spatial_models.mroi import SubDomains
    from nipy.labs.spatial_models.hroi import HierarchicalROI
    if v in ("empty", "singleton", "midsingle", "extreme"):
        raise Skip()
    dom = domain_from_binary_array(np.ones((3, 3, 2)))
    lab0 = np.array([-1, 2, 5, 9, 9, 2, 5, -1, 2, 9, 5, 5, 2, -1, 9, 2, 5, 9])     # not consecutive, not 0-based
    label = lay(lab0, v if v.startswith("dtype-") or v in ("view", "negstride", "readonly", "fortran") else "plain")
    parents = lay(np.array([0, 0, 1]), v if v.startswith("dtype-") else "plain")

    def f(label, parents):
        out = []
        sd = SubDomains(dom, label)
        out += [sd.k, sd.get_size()]
        h = HierarchicalROI(dom, label, parents)
        out += [h.k, h.get_size()]
        return out
    return f, (label, parents), {}


@entry("GeneralLinearModel contrast state machine")
def _(rng, v):
    from nipy.modalities.fmri.glm import Contrast
    if v in ("empty",):
        raise Skip()
    e = data(rng, v, (1, 6)); var = np.abs(data(rng, v, (1, 1, 6))) + 1

    def f(e, var):
        c = Contrast(e, var, dof=10)
        return c.p_value(0.), c.stat(1.), c.z_score(1.), (2 * c).stat(), (c + c).z_score()
    return f, (e, var), {}


@entry("MixedEffectsModel fit twice")
def _(rng, v):
    from nipy.algorithms.statistics.mixed_effects_stat import MixedEffectsModel
    if v in ("singleton", "empty", "extreme"):
        raise Skip()
    Y = data(rng, v, (6, 3)); V1 = np.abs(data(rng, v, (6, 3))) + 1
    X = np.ones((6, 1))

    def f(Y, V1, X):
        m = MixedEffectsModel(X, n_iter=2)
        m.fit(Y, V1); m.fit(Y, V1)
        return m.beta_, m.V2
    return f, (Y, V1, X), {}


@entry("_cspline_sample1d/2d/3d all boundary modes, coordinates far outside the grid")
def _(rng, v):
    from nipy.algorithms.registration._registration import (_cspline_transform, _cspline_sample1d,
                                                            _cspline_sample2d, _cspline_sample3d)
    if v in ("empty",):
        raise Skip()
    d1 = data(rng, v, (5,)); d2 = data(rng, v, (4, 3)); d3 = data(rng, v, (3, 4, 2))

    def grid(n):
        return np.arange(-2.0 * n - 1, 3.0 * n + 1, 0.5)

    # the coefficient arrays are handed to the samplers in the layout of the variant too (a frame of a 4-d
    # coefficient array, a cropped or reversed view ...): the samplers must honour the strides they are given
    lv = v if v in ("fortran", "view", "tview", "negstride", "readonly") else "plain"
    cs = [lay(np.array(_cspline_transform(np.array(d, dtype=float))), lv) for d in (d1, d2, d3)]

    def f(d1, d2, d3, cs):
        out = []
        for mode in ("zero", "nearest", "reflect"):
            for use_given in (False, True):
                c1 = cs[0] if use_given else _cspline_transform(d1); x = grid(d1.shape[0])
                out.append(_cspline_sample1d(np.zeros(x.size), c1, x, mode=mode))
                c2 = cs[1] if use_given else _cspline_transform(d2); x = grid(d2.shape[0]); y = np.resize(grid(d2.shape[1]), x.size)
                out.append(_cspline_sample2d(np.zeros(x.size), c2, x, y, mx=mode, my=mode))
                c3 = cs[2] if use_given else _cspline_transform(d3); x = grid(d3.shape[0]); y = np.resize(grid(d3.shape[1]), x.size); z = np.resize(grid(d3.shape[2]), x.size)
                out.append(_cspline_sample3d(np.zeros(x.size), c3, x, y, z, mx=mode, my=mode, mz=mode))
        return out
    return f, (d1, d2, d3, cs), {}
