"""C06 - contrast statistics, p-values, z-scores and FDR are mutually consistent.

Sections
  fdr        empirical_pvalue.fdr / fdr_threshold / gaussian_fdr*: exact correspondence with the Gallina
             model (coq/C06/Model.v, evaluated by vm_compute) on p-vectors for which every float operation of
             the implementation is exact (p = m*lcm(1..n)/2^B, zeros, ones, ties); tolerance 1e-12 through the
             model on arbitrary floats; Benjamini-Hochberg spec, range, monotonicity, tie and permutation
             oracles evaluated directly on the implementation.
  contrast   fmri.glm.Contrast and labs.glm.contrast: exact correspondence of stat (t, one-row F, tmin),
             __add__, __rmul__, the z_score clip; scipy tails as oracles; F row-space invariance, F = t^2,
             scale invariance, monotone finite z in the extreme tails; the two implementations agree.
  results    models.model.LikelihoodModelResults.Tcontrast / Fcontrast / t / vcov on integer designs.
  grid       labs.glm contrasts / glm(Y, X, axis) on voxel arrays of every shape class (flat, square, rectangular,
             cube, box, singleton axes; time axis anywhere): equal to the flat evaluation, exact first principles,
             and the whole-grid conjunction statistic through ModelGrid.g_tmin_grid.
"""
import math
from fractions import Fraction

import numpy as np

from ..kit import cq, cql, cnat, cnatl, clist, frac

HDR = ("From Coq Require Import List Bool QArith Qminmax.\nFrom NV.Lib Require Import Harness.\n"
       "From NV.C06 Require Import Model Exec.\nOpen Scope Q_scope.\n")

TOL = Fraction(1, 10 ** 12)


# ------------------------------------------------------------------ helpers
def lcm_upto(n):
    L = 1
    for k in range(1, n + 1):
        L = L * k // math.gcd(L, k)
    return L


def bh_exact(p):
    """Benjamini-Hochberg step-up values from the definition (no sorting): exact rationals."""
    p = [frac(x) for x in p]
    n = len(p)
    vals = sorted(set(p))
    cand = {v: min(Fraction(1), n * v / sum(1 for w in p if w <= v)) for v in vals}     # min(1, n v / #{p_j <= v})
    out = []
    for u in p:
        out.append(min(cand[v] for v in vals if v >= u))
    return out


def features(p):
    """structural class of a p-vector (kept coarse: it becomes part of failure signatures)"""
    p = list(p)
    if len(p) == 1:
        return "n=1"
    return "ties" if len(set(p)) < len(p) else "distinct"


def bucket_of(p):
    p = list(p)
    f = ["n=1"] if len(p) == 1 else []
    if len(set(p)) < len(p):
        f.append("ties")
    if any(x == 0 for x in p):
        f.append("zeros")
    if any(x == 1 for x in p):
        f.append("ones")
    return "+".join(f) if f else "generic"


def coptq(x):
    return "None" if x is None else "(Some %s)" % cq(x)


# ------------------------------------------------------------------ FDR
def gen_exact_p(rng, n, B=40):
    """p-vector on which n*p/(k+1) is exact in binary64 for every rank k <= n (or >= 1, where min(1,.) hides rounding)."""
    L = lcm_upto(n)
    top = (1 << B) // L
    kind = rng.integers(0, 5)
    if kind == 0:      # generic
        m = rng.integers(0, top + 1, n)
    elif kind == 1:    # heavy ties
        pool = rng.integers(0, top + 1, max(1, n // 3))
        m = rng.choice(pool, n)
    elif kind == 2:    # small p-values (the interesting regime: q < 1)
        m = rng.integers(0, max(2, top // (4 * n)), n)
    elif kind == 3:    # already sorted / reverse sorted
        m = np.sort(rng.integers(0, top + 1, n))
        if rng.random() < 0.5:
            m = m[::-1]
    else:              # mixture of tiny and large
        m = np.where(rng.random(n) < 0.5, rng.integers(0, 50, n), rng.integers(0, top + 1, n))
    p = [Fraction(int(v) * L, 1 << B) for v in m]
    for i in range(n):   # sprinkle exact zeros and ones
        r = rng.random()
        if r < 0.06:
            p[i] = Fraction(0)
        elif r < 0.12:
            p[i] = Fraction(1)
    return p


def fdr_section(ck):
    from nipy.algorithms.statistics import empirical_pvalue as ep
    import scipy.stats as sps
    rng = ck.rng("fdr")
    build_ok = ck.build is not None and ck.build.ok

    def call(p):
        try:
            return np.asarray(ep.fdr(np.array(p, dtype=float)), dtype=float), None
        except ValueError:
            return None, "ValueError"

    cases = []          # (p as Fractions, exact?)
    # exhaustive small grid: n <= 4 over {0, 1/8, 1/4, 1/2, 1} scaled for exactness (n<=4: lcm 12)
    grid = [Fraction(0), Fraction(3, 64), Fraction(3, 16), Fraction(3, 8), Fraction(3, 4), Fraction(1)]
    import itertools
    for n in range(1, ck.n(4, 5)):
        for tup in itertools.product(grid, repeat=n):
            cases.append((list(tup), True))
    nexact = ck.n(500, 6000)
    for _ in range(nexact):
        n = int(rng.integers(1, 17))
        cases.append((gen_exact_p(rng, n), True))
    nfloat = ck.n(150, 800)
    for _ in range(nfloat):
        n = int(rng.integers(1, ck.n(60, 120)))
        kind = rng.integers(0, 4)
        if kind == 0:
            x = rng.random(n)
        elif kind == 1:
            x = rng.random(n) ** 6
        elif kind == 2:
            x = sps.norm.sf(rng.normal(1.0, 2.0, n))
        else:
            x = np.round(rng.random(n), 1)          # ties on a coarse grid (inexact divisions)
        cases.append(([frac(float(v)) for v in x], False))

    terms, meta = [], []
    for p, exact in cases:
        pf = [float(v) for v in p]
        assert all(frac(a) == b for a, b in zip(pf, p))
        out, err = call(pf)
        feat = features(p)
        ck.count(("fdr", tuple(p)), nontrivial=len(p) > 1, bucket="fdr:%s:%s" % ("exact" if exact else "float", bucket_of(p)))
        if err is not None or out is None:
            ck.fail("fdr/raises-on-valid", "fdr raised %s on a valid p-vector %s" % (err, pf), {"p": pf})
            continue
        n = len(p)
        if out.shape != (n,):
            ck.fail("fdr/shape", "fdr output shape %s for n=%d" % (out.shape, n), {"p": pf})
            continue
        if 3 <= n <= 5 and feat == "ties" and (not exact or n == 5):
            ck.sample({"call": "fdr(%s)" % pf, "out": out.tolist()}, cap=3)
        # ---- property oracles on the implementation (independent of Coq)
        ref = bh_exact(p)
        o = [frac(float(v)) for v in out]
        bad = [i for i in range(n) if (o[i] != ref[i] if exact else abs(o[i] - ref[i]) > TOL)]
        if bad:
            i = bad[0]
            ck.fail("fdr/not-BH/" + feat,
                    "fdr(p)[%d] = %r but the Benjamini-Hochberg step-up value is %s (p=%s)" % (i, float(out[i]), float(ref[i]), pf),
                    {"p": pf, "out": out.tolist(), "bh": [float(v) for v in ref], "index": i})
        if np.any(out < 0) or np.any(out > 1) or np.any(np.isnan(out)):
            ck.fail("fdr/outside-unit-interval", "fdr(p) leaves [0,1]: %s" % out.tolist(), {"p": pf, "out": out.tolist()})
        if any(o[i] < p[i] - (0 if exact else TOL) for i in range(n)):
            ck.fail("fdr/below-p", "fdr(p) < p somewhere", {"p": pf, "out": out.tolist()})
        # order structure, exactly: p_i <= p_j -> q_i <= q_j ; ties get identical floats
        oi = np.argsort(np.array(pf), kind="stable")
        so = out[oi]
        if np.any(np.diff(so) < 0):
            ck.fail("fdr/not-monotone", "a smaller p-value has a larger fdr value", {"p": pf, "out": out.tolist()})
        # permutation equivariance, exactly
        perm = rng.permutation(n)
        out2, _ = call([pf[k] for k in perm])
        if out2 is None or not np.array_equal(out2, out[perm]):
            ck.fail("fdr/not-permutation-equivariant", "fdr(p[perm]) != fdr(p)[perm]",
                    {"p": pf, "perm": perm.tolist(), "out": out.tolist(), "out_perm": None if out2 is None else out2.tolist()})
        # ---- correspondence term
        if exact:
            terms.append("option_eqb qlist_eqb (fdr %s) (Some %s)" % (cql(p), cql(o)))
        else:
            terms.append("fdr_close %s %s %s" % (cq(TOL), cql(p), cql(o)))
        meta.append((pf, out.tolist(), exact, feat))

    # invalid inputs: must raise ValueError (model: None)
    invalid = [[], [-0.25], [0.5, 1.5], [0.25, -2.0 ** -40, 0.5], [1.0 + 2.0 ** -40]]
    for pf in invalid:
        out, err = call(pf)
        ck.count(("fdr-invalid", tuple(pf)), nontrivial=True, bucket="fdr:invalid")
        if err != "ValueError":
            ck.fail("fdr/invalid-accepted", "fdr accepted an invalid p-vector %s" % pf, {"p": pf})
        terms.append("option_eqb qlist_eqb (fdr %s) None" % cql([frac(v) for v in pf]))
        meta.append((pf, None, True, "invalid"))
    out, err = call([0.5, float("nan")])
    if err != "ValueError":
        ck.fail("fdr/invalid-accepted", "fdr accepted NaN", {"p": [0.5, "nan"]})

    if build_ok:
        res = ck.coq_bools(HDR, terms, name="fdr")
        ck.cov["traces_validated_against_impl"] += len(res)
        for ok, (pf, out, exact, feat) in zip(res, meta):
            if not ok:
                mv = ck.coq_show(HDR, "option_map (map Qred) (fdr %s)" % cql([frac(v) for v in pf]))
                ck.fail("fdr/model-vs-impl/" + feat,
                        "Gallina model of fdr and the implementation disagree (%s): p=%s impl=%s model=%s" % (
                            "exact" if exact else "tol 1e-12", pf, out, mv[:600]),
                        {"p": pf, "impl": out, "model": mv})
                break
    ck.section("fdr", exact_cases=sum(1 for c in cases if c[1]), float_cases=sum(1 for c in cases if not c[1]),
               invalid=len(invalid) + 1, model_terms=len(terms))

    fdr_threshold_section(ck, ep, sps, build_ok)


def fdr_threshold_section(ck, ep, sps, build_ok):
    rng = ck.rng("fdr-threshold")
    terms, meta = [], []
    N = ck.n(400, 4000)
    for it in range(N):
        n = int(rng.integers(1, 17))
        # alpha = n * a / 2^10 so that alpha / n and (alpha / n) * k are exact
        a = int(rng.integers(1, max(2, 1024 // n)))
        if rng.random() < 0.3:
            a = int(rng.integers(1, 8))
        alpha = Fraction(n * a, 1024)
        onlattice = it % 2 == 0
        if onlattice:
            p = gen_exact_p(rng, n)
        else:
            # dyadic grid with values planted exactly ON the step-up line a*(k+1)/1024 (strict vs non-strict comparison)
            p = [Fraction(int(v), 1024) for v in rng.integers(0, min(1025, 2 * a * n + 2), n)]
            for _ in range(int(rng.integers(1, 4))):
                k = int(rng.integers(0, n))
                if a * (k + 1) <= 1024:
                    p[int(rng.integers(0, n))] = Fraction(a * (k + 1), 1024)
        pf = [float(v) for v in p]
        try:
            th = float(ep.fdr_threshold(np.array(pf), float(alpha)))
        except Exception as e:  # noqa
            ck.fail("fdr_threshold/raises", "fdr_threshold raised %r" % e, {"p": pf, "alpha": float(alpha)})
            continue
        feat = features(p)
        ck.count(("fdrth", tuple(p), alpha), nontrivial=True, bucket="fdr_threshold:" + bucket_of(p))
        # oracle: BH step-up threshold = largest sorted p below its line, else alpha/n
        sp = sorted(p)
        crit = [sp[k] for k in range(n) if sp[k] < alpha / n * (k + 1)]
        want = max(crit) if crit else alpha / n
        if frac(th) != want:
            ck.fail("fdr_threshold/not-BH-threshold/" + ("critical" if crit else "empty"),
                    "fdr_threshold(p, %s) = %r, step-up threshold is %s" % (float(alpha), th, float(want)),
                    {"p": pf, "alpha": float(alpha), "got": th, "want": float(want)})
        # consistency with fdr: (alpha <= 1, some rejection) p_i <= threshold <-> fdr_i < alpha
        if crit and alpha <= 1 and onlattice:
            q = np.asarray(ep.fdr(np.array(pf)))
            lhs = np.array(pf) <= th
            rhs = q < float(alpha)
            if not np.array_equal(lhs, rhs):
                ck.fail("fdr_threshold/inconsistent-with-fdr/" + feat,
                        "{p <= fdr_threshold(p, alpha)} differs from {fdr(p) < alpha}",
                        {"p": pf, "alpha": float(alpha), "threshold": th, "fdr": q.tolist()})
        terms.append("option_eqb Qeq_bool (fdr_threshold %s %s) (Some %s)" % (cql(p), cq(alpha), cq(frac(th))))
        meta.append((pf, float(alpha), th))
    # gaussian wrappers: same composition through the normal tail
    for it in range(ck.n(40, 400)):
        n = int(rng.integers(1, 40))
        x = rng.normal(0.5, 2.0, n)
        ck.count(("gfdr", tuple(x.tolist())), nontrivial=True, bucket="gaussian_fdr")
        g = np.asarray(ep.gaussian_fdr(x))
        want = np.asarray(ep.fdr(sps.norm.sf(x)))
        if g.shape != want.shape or not np.array_equal(g, want):
            ck.fail("gaussian_fdr/not-fdr-of-sf", "gaussian_fdr(x) != fdr(norm.sf(x))", {"x": x.tolist()})
        # larger variate -> smaller (or equal) FDR
        oi = np.argsort(x, kind="stable")
        if np.any(np.diff(g[oi]) > 0):
            ck.fail("gaussian_fdr/not-antitone-in-x", "a larger normal variate has a larger FDR", {"x": x.tolist(), "fdr": g.tolist()})
        alpha = float(rng.choice([0.01, 0.05, 0.2]))
        gt = float(ep.gaussian_fdr_threshold(x, alpha))
        wt = float(sps.norm.isf(ep.fdr_threshold(sps.norm.sf(x), alpha)))
        if not (gt == wt):
            ck.fail("gaussian_fdr_threshold/not-isf-of-threshold", "gaussian_fdr_threshold != isf(fdr_threshold(sf(x)))",
                    {"x": x.tolist(), "alpha": alpha, "got": gt, "want": wt})
    if build_ok:
        res = ck.coq_bools(HDR, terms, name="fdrth")
        ck.cov["traces_validated_against_impl"] += len(res)
        for ok, (pf, alpha, th) in zip(res, meta):
            if not ok:
                mv = ck.coq_show(HDR, "option_map Qred (fdr_threshold %s %s)" % (cql([frac(v) for v in pf]), cq(frac(alpha))))
                ck.fail("fdr_threshold/model-vs-impl", "model and implementation of fdr_threshold disagree: p=%s alpha=%s impl=%r model=%s" % (pf, alpha, th, mv),
                        {"p": pf, "alpha": alpha, "impl": th, "model": mv})
                break
    ck.section("fdr_threshold", cases=len(terms))


# ------------------------------------------------------------------ contrasts
HDRC = HDR + "From NV.Generated Require Import ZClip.\n"
DOFS = [1.0, 2.0, 5.0, 1e3, 1e10, 1e12]
TINY2 = 2.0 ** -166          # a floor whose square root (2^-83) is exact; the default 1e-50 is used in the tolerance oracles


class _Rec:
    """Recording proxy for a scipy.stats namespace / distribution: logs (dist, fn, args, result)."""

    def __init__(self, real, log, name=None):
        self._real, self._log, self._name = real, log, name

    def __getattr__(self, a):
        obj = getattr(self._real, a)
        if self._name is None:            # namespace level: sps.t, sps.f, ...
            return _Rec(obj, self._log, a)
        name, log = self._name, self._log

        def wrapped(*args, **kw):
            out = obj(*args, **kw)
            log.append((name, a, tuple(np.array(x, dtype=float, copy=True) for x in args), np.array(out, dtype=float, copy=True)))
            return out
        return wrapped


def ctbl(pairs):
    return clist(["(%s, %s)" % (cq(a), cq(b)) for a, b in pairs])


def cmatq(M):
    return clist([cql(list(r)) for r in M])


def mk_fmri(fg, e, V, dof, typ, **kw):
    e = np.asarray(e, dtype=float)
    V = np.asarray(V, dtype=float)
    return fg.Contrast(e.reshape(e.shape[0], -1).copy(), V.reshape(V.shape[0], V.shape[1], -1).copy(), dof=dof,
                       contrast_type=typ, **kw)


def mk_labs(lg, e, V, dof, typ, tiny=None, dofmax=None):
    e = np.asarray(e, dtype=float)
    V = np.asarray(V, dtype=float)
    dim = e.shape[0]
    kw = {}
    if tiny is not None:
        kw["tiny"] = tiny
    if dofmax is not None:
        kw["dofmax"] = dofmax
    c = lg.contrast(dim, {"tmin-conjunction": "tmin"}.get(typ, typ), **kw)
    c.effect = e.reshape(dim, -1).copy()
    c.variance = V.reshape(dim, dim, -1).copy()
    c.dof = float(dof)
    return c


def gen_t_voxel(rng):
    """(e, b, v, sd, t) with every float operation of (e-b)/sqrt(max(v,tiny)) exact."""
    kind = rng.integers(0, 6)
    t0 = Fraction(int(rng.integers(-4095, 4096)), 16)
    if kind == 0:                       # zero variance: the floor is active
        v = Fraction(0)
        sd = frac(TINY2 ** 0.5)
    elif kind == 1:                     # variance exactly at the floor
        v = frac(TINY2)
        sd = frac(TINY2 ** 0.5)
    elif kind == 2:                     # tiny standard error, huge statistic (up to ~2^150)
        sd = Fraction(1, 2 ** int(rng.integers(40, 81)))
        v = sd * sd
        t0 = t0 * 2 ** int(rng.integers(0, 70))
    elif kind == 3:                     # huge standard error, tiny statistic
        sd = Fraction(2 ** int(rng.integers(40, 200)))
        v = sd * sd
        t0 = t0 / 2 ** int(rng.integers(0, 200))
    else:
        sd = Fraction(int(rng.integers(1, 1024)), 2 ** int(rng.integers(0, 8)))
        v = sd * sd
    b = Fraction(0) if rng.random() < 0.6 else Fraction(int(rng.integers(-64, 65)), 8) * sd
    e = b + t0 * sd
    return e, b, v, sd, t0


def contrast_section(ck):
    import nipy.modalities.fmri.glm as fg
    import nipy.labs.glm.glm as lg
    import nipy.algorithms.statistics.utils as ut
    import scipy.stats as sps
    import sympy
    rng = ck.rng("contrast")
    build_ok = ck.build is not None and ck.build.ok
    terms, meta = [], []

    def add_term(term, sig, what, replay):
        terms.append(term)
        meta.append((sig, what, replay))

    impls = [("fmri", lambda *a, **k: mk_fmri(fg, *a, **k), "stat", "p_value", "z_score"),
             ("labs", lambda *a, **k: mk_labs(lg, *a, **k), "stat", "pvalue", "zscore")]

    # ---- A. stat(): t, one-row F, tmin-conjunction; exact
    NA = ck.n(250, 2500)
    for it in range(NA):
        typ = ["t", "F", "tmin-conjunction"][it % 3]
        dim = 1 if typ != "tmin-conjunction" else int(rng.integers(2, 4))
        vox = [gen_t_voxel(rng) for _ in range(dim)]
        b = vox[0][1]
        # common baseline for all rows: rebuild effects around b
        es = [b + t0 * sd for (_, _, _, sd, t0) in vox]
        vs = [v for (_, _, v, _, _) in vox]
        sds = [sd for (_, _, _, sd, _) in vox]
        ts = [t0 for (_, _, _, _, t0) in vox]
        if any(frac(float(x)) != x for x in es + vs + [b]):
            continue
        V = [[vs[i] if i == j else Fraction(int(rng.integers(-999, 1000)), 8) for j in range(dim)] for i in range(dim)]
        tbl = sorted({(max(v, frac(TINY2)), frac(float(np.sqrt(float(max(v, frac(TINY2))))))) for v in vs})
        want = {"t": ts[0], "F": ts[0] * ts[0], "tmin-conjunction": min(ts)}[typ]
        feat = "%s/%s" % (typ, "floor-active" if any(v < frac(TINY2) for v in vs) else "floor-inactive")
        for name, mk, fstat, fp, fz in impls:
            c = mk([[float(x)] for x in es], [[[float(x)] for x in r] for r in V], 10.0, typ, tiny=TINY2)
            try:
                st = np.asarray(getattr(c, fstat)(float(b)), dtype=float).ravel()
            except Exception as ex:  # noqa
                ck.fail("stat/raises/%s/%s" % (name, typ), "%s stat raised %r" % (name, ex), {"effect": [float(x) for x in es], "type": typ})
                continue
            ck.count(("stat", name, typ, tuple(es), tuple(vs), b), nontrivial=True, bucket="stat:%s:%s" % (name, feat))
            got = frac(float(st[0])) if st.size == 1 and np.isfinite(st[0]) else None
            rep = {"impl": name, "type": typ, "effect": [float(x) for x in es], "variance": [[float(x) for x in r] for r in V],
                   "baseline": float(b), "tiny": TINY2, "stat": st.tolist(), "expected": float(want)}
            # oracle (statement): t * sd = effect - baseline, F1 = t^2, tmin = min t_i  (exact on this lattice)
            if got != want:
                ck.fail("stat/not-effect-over-sd/%s/%s" % (name, feat),
                        "%s %s statistic %s, expected (effect-baseline)/sd -> %s" % (name, typ, st.tolist(), float(want)), rep)
            if got is not None:
                if typ == "tmin-conjunction":
                    term = "sqrt_tbl_ok %s && option_eqb Qeq_bool (g_tmin (Qops %s) %s %s %s %s) (Some %s)" % (
                        ctbl(tbl), ctbl(tbl), cql(es), cmatq(V), cq(b), cq(frac(TINY2)), cq(got))
                else:
                    fn = "g_tstat" if typ == "t" else "g_f1stat"
                    term = "sqrt_tbl_ok %s && Qeq_bool (%s (Qops %s) %s %s %s %s) %s" % (
                        ctbl(tbl), fn, ctbl(tbl), cq(es[0]), cq(b), cq(vs[0]), cq(frac(TINY2)), cq(got))
                add_term(term, "stat/model-vs-impl/%s/%s" % (name, typ), "model and %s disagree on the %s statistic" % (name, typ), rep)
        if it < 3:
            ck.sample({"call": "Contrast(effect=%s, variance=%s, type=%s, tiny=2^-166).stat(%s)" % (
                [float(x) for x in es], [[float(x) for x in r] for r in V], typ, float(b)), "expected": float(want)})

    # ---- B. __add__ / __rmul__ : exact on dyadic data
    NB = ck.n(150, 1500)
    for it in range(NB):
        dim = int(rng.integers(1, 4))
        typ = "t" if dim == 1 and rng.random() < 0.5 else ("F" if rng.random() < 0.6 or dim == 1 else "tmin-conjunction")

        def rnd(shape):
            return rng.integers(-2 ** 20, 2 ** 20, shape) / 2.0 ** int(rng.integers(0, 12))
        e1, e2 = rnd((dim, 1)), rnd((dim, 1))
        V1, V2 = rnd((dim, dim, 1)), rnd((dim, dim, 1))
        d1, d2 = float(rng.choice(DOFS)), float(rng.choice(DOFS))
        k = float(rng.integers(1, 64)) / 2.0 ** int(rng.integers(0, 5)) * (-1 if rng.random() < 0.2 else 1)
        for name, mk, fstat, fp, fz in impls:
            a, bb = mk(e1, V1, d1, typ), mk(e2, V2, d2, typ)
            ck.count(("addmul", name, it), nontrivial=True, bucket="add-mul:%s:dim%d" % (name, dim))
            for op, res, model in (("add", a + bb, "c_add %s %s"), ("rmul", k * a, "c_scale %s %%s" % cq(frac(k))), ("mul", a * k, "c_scale %s %%s" % cq(frac(k)))):
                def lit(ee, VV, dd):
                    return "(mkC %s %s %s)" % (cql([frac(x) for x in np.asarray(ee).reshape(dim)]),
                                               cmatq([[frac(x) for x in r] for r in np.asarray(VV).reshape(dim, dim)]), cq(frac(dd)))
                rt = res.contrast_type if name == "fmri" else res.type
                at = a.contrast_type if name == "fmri" else a.type
                rep = {"impl": name, "op": op, "dim": dim, "type": typ, "k": k, "effect1": e1.tolist(), "effect2": e2.tolist(),
                       "variance1": V1.tolist(), "variance2": V2.tolist(), "dof": [d1, d2],
                       "result": {"effect": np.asarray(res.effect).tolist(), "variance": np.asarray(res.variance).tolist(), "dof": res.dof}}
                # oracle (statement): effects, variances, dof add; scalar: e*k, V*k^2, dof unchanged
                if op == "add":
                    okk = (np.array_equal(res.effect, e1 + e2) and np.array_equal(res.variance, V1 + V2) and res.dof == d1 + d2)
                else:
                    okk = (np.array_equal(res.effect, e1 * k) and np.array_equal(res.variance, V1 * k * k) and res.dof == d1)
                if not okk or rt != at or res.dim != dim:
                    ck.fail("algebra/%s/%s" % (op, name), "%s %s does not combine effect/variance/dof as stated" % (name, op), rep)
                args = (lit(e1, V1, d1), lit(e2, V2, d2)) if op == "add" else (lit(e1, V1, d1),)
                add_term("c_eqb (%s) %s" % (model % args, lit(res.effect, res.variance, res.dof)),
                         "algebra/model-vs-impl/%s/%s" % (op, name), "model and %s disagree on %s" % (name, op), rep)

    # ---- C. p_value / z_score pipeline with recorded scipy calls
    NC = ck.n(120, 1200)
    lo_f, hi_f = 1e-300, 1.0 - 1e-16
    for it in range(NC):
        typ = ["t", "F", "tmin-conjunction", "F"][it % 4]
        dim = 1 if typ == "t" else (int(rng.integers(1, 4)) if typ == "F" else int(rng.integers(2, 4)))
        n = int(rng.integers(1, 6))
        dof = float(rng.choice(DOFS))
        dofmax = None if rng.random() < 0.6 else float(rng.choice([3.0, 100.0, 1e11]))
        A = rng.integers(-3, 4, (dim, dim + 1, n)).astype(float)
        V = np.einsum("ikn,jkn->ijn", A, A) + np.eye(dim)[:, :, None] * rng.integers(1, 4)
        scale = 10.0 ** rng.integers(-3, 4, n)
        e = rng.integers(-40, 41, (dim, n)).astype(float) * scale
        if rng.random() < 0.25:
            e = e * 10.0 ** float(rng.integers(20, 150)) * (1 if rng.random() < 0.5 else -1)
        base = 0.0 if rng.random() < 0.7 else float(rng.integers(-3, 4))
        for name, mk, fstat, fp, fz in impls:
            log = []
            mod = fg if name == "fmri" else lg
            saved = (mod.sps, ut.norm)
            mod.sps, ut.norm = _Rec(sps, log), _Rec(sps.norm, log, "norm")
            try:
                kw = {} if dofmax is None else {"dofmax": dofmax}
                c = mk(e, V, dof, typ, **kw)
                p = np.array(getattr(c, fp)(base), dtype=float).ravel()
                z = np.array(getattr(c, fz)(base), dtype=float).ravel()
                st = np.array(c.stat_ if name == "fmri" else c._stat, dtype=float).ravel()
            except Exception as ex:  # noqa
                ck.fail("pipeline/raises/%s/%s" % (name, typ), "%s p/z raised %r" % (name, ex), {"type": typ, "dim": dim, "dof": dof})
                continue
            finally:
                mod.sps, ut.norm = saved
            ck.count(("pipe", name, it), nontrivial=True, bucket="pipeline:%s:%s" % (name, typ))
            dmax = 1e10 if dofmax is None else dofmax
            rep = {"impl": name, "type": typ, "dim": dim, "dof": dof, "dofmax": dmax, "effect": e.tolist(), "variance": V.tolist(),
                   "baseline": base, "stat": st.tolist(), "p": p.tolist(), "z": z.tolist()}
            tails = [l for l in log if l[0] in ("t", "f")]
            quant = [l for l in log if l[0] == "norm"]
            want_tail = ("f", "sf") if typ == "F" else ("t", "sf")
            if len(tails) != 1 or (tails[0][0], tails[0][1]) != want_tail:
                ck.fail("pipeline/wrong-tail/%s/%s" % (name, typ), "%s p-value of a %s contrast calls %s, expected scipy.stats.%s.%s" % (
                    name, typ, [(l[0], l[1]) for l in tails], want_tail[0], want_tail[1]), rep)
            else:
                targs = tails[0][2]
                dofarg = float(np.ravel(targs[-1])[0])
                add_term("Qeq_bool (g_eff_dof (Qops []) %s %s) %s" % (cq(frac(dof)), cq(frac(dmax)), cq(frac(dofarg))),
                         "pipeline/model-vs-impl/dof/%s" % name, "degrees of freedom passed to the tail function differ from min(dof, dofmax)", rep)
                if dofarg != min(dof, dmax):
                    ck.fail("pipeline/dof-not-capped/%s" % name, "%s passes dof=%r to the tail function, expected min(%r, %r)" % (name, dofarg, dof, dmax), rep)
                if typ == "F" and float(np.ravel(targs[1])[0]) != dim:
                    ck.fail("pipeline/F-numerator-dof/%s" % name, "numerator dof %r != number of rows %d" % (float(np.ravel(targs[1])[0]), dim), rep)
            # independent numerical oracle for p and z
            de = min(dof, dmax)
            pw = sps.f.sf(st, dim, de) if typ == "F" else sps.t.sf(st, de)
            zw = sps.norm.isf(np.clip(pw, lo_f, hi_f))
            if not np.allclose(p, pw, rtol=1e-10, atol=1e-300) or np.any(p < 0) or np.any(p > 1):
                ck.fail("pipeline/p-not-tail-probability/%s/%s" % (name, typ), "%s p-value %s differs from the %s upper tail %s" % (name, p.tolist(), want_tail[0], pw.tolist()), rep)
            if not np.allclose(z, zw, rtol=1e-10, atol=1e-12) or not np.all(np.isfinite(z)):
                ck.fail("pipeline/z-not-normal-quantile/%s/%s" % (name, typ), "%s z-score %s differs from norm.isf(clip(p)) %s" % (name, z.tolist(), zw.tolist()), rep)
            if len(quant) != 1 or quant[0][1] != "isf":
                ck.fail("pipeline/wrong-quantile/%s" % name, "z-score calls %s" % [(l[0], l[1]) for l in quant], rep)
            else:
                qa = np.ravel(quant[0][2][0])
                for pi, ai in zip(p[:3], qa[:3]):
                    add_term("Qeq_bool (g_clip (Qops []) z_lo z_hi %s) %s" % (cq(frac(float(pi))), cq(frac(float(ai)))),
                             "pipeline/model-vs-impl/clip/%s" % name, "argument of norm.isf differs from clip(p, z_lo, z_hi)", rep)
                if np.any(qa < lo_f) or np.any(qa > hi_f) or np.any(qa <= 0) or np.any(qa >= 1):
                    ck.fail("pipeline/clip-outside-finite-domain/%s" % name, "norm.isf is called outside [1e-300, 1-1e-16]: %s" % qa.tolist(), rep)
    # NaN statistic -> p = .5, z = 0 (fmri.glm.Contrast documents this)
    c = mk_fmri(fg, [[np.nan, 1.0]], [[[1.0, 1.0]]], 10.0, "t")
    p, z = c.p_value(), c.z_score()
    ck.count(("nan",), nontrivial=True, bucket="pipeline:fmri:nan")
    if not (np.ravel(p)[0] == 0.5 and np.ravel(z)[0] == 0.0 and np.isfinite(np.ravel(z)[1])):
        ck.fail("pipeline/nan-branch/fmri", "NaN statistic does not map to p=.5, z=0: p=%s z=%s" % (p.tolist(), z.tolist()), {"effect": ["nan", 1.0]})

    # ---- D. extreme tails: z finite and monotone in the statistic, p in [0,1] and antitone
    npts = 1000
    tgrid = np.concatenate([-np.logspace(150, -150, npts), [0.0], np.logspace(-150, 150, npts)])
    fgrid = np.concatenate([[0.0], np.logspace(-300, 300, 2 * npts)])
    for dof in DOFS:
        for typ, dim, grid in [("t", 1, tgrid), ("F", 1, fgrid), ("F", 3, fgrid), ("tmin-conjunction", 2, tgrid)]:
            for name, mk, fstat, fp, fz in impls:
                if typ == "F":
                    # diagonal unit covariance: F = sum e_i^2 / dim ; put the whole statistic in the first row
                    e = np.zeros((dim, grid.size)); e[0] = np.sqrt(grid * dim)
                else:
                    e = np.tile(grid, (dim, 1))
                    if dim > 1:
                        e[1:] = np.abs(e[1:]) + 1e200     # the minimum is the first row
                V = np.tile(np.eye(dim)[:, :, None], (1, 1, grid.size))
                c = mk(e, V, dof, typ)
                st = np.ravel(getattr(c, fstat)()); p = np.ravel(getattr(c, fp)()); z = np.ravel(getattr(c, fz)())
                ck.count(("tails", name, typ, dim, dof), nontrivial=True, bucket="tails:%s:%s" % (name, typ))
                order = np.argsort(st, kind="stable")
                sig = "%s/%s" % (name, typ)
                rep = {"impl": name, "type": typ, "dim": dim, "dof": dof, "grid": "log-spaced 1e-150..1e150 (t) / 1e-300..1e300 (F)"}
                if not np.all(np.isfinite(z)):
                    i = int(np.where(~np.isfinite(z))[0][0])
                    ck.fail("tails/z-not-finite/" + sig, "z-score %r at statistic %r, dof %r" % (z[i], st[i], dof), dict(rep, stat=float(st[i]), p=float(p[i])))
                if np.any(np.diff(z[order]) < 0):
                    i = int(np.where(np.diff(z[order]) < 0)[0][0])
                    ck.fail("tails/z-not-monotone/" + sig, "z decreases from %r to %r while the statistic grows from %r to %r (dof %r)" % (
                        z[order][i], z[order][i + 1], st[order][i], st[order][i + 1], dof), dict(rep, stat=[float(st[order][i]), float(st[order][i + 1])]))
                if np.any(p < 0) or np.any(p > 1) or np.any(np.isnan(p)) or np.any(np.diff(p[order]) > 0):
                    ck.fail("tails/p-not-antitone-in-unit-interval/" + sig, "p-values leave [0,1] or increase with the statistic (dof %r)" % dof, rep)
    # oracle contracts of theorem z_score_finite_and_monotone, sampled: norm.isf finite and antitone on [z_lo, z_hi]
    pg = np.concatenate([np.logspace(-300, -1e-3, 1000), 1.0 - np.logspace(-1e-3, -16, 1000), [lo_f, hi_f]])
    pg = np.sort(np.clip(pg, lo_f, hi_f))
    zz = sps.norm.isf(pg)
    ck.count(("contract", "isf"), nontrivial=True, bucket="oracle-contract")
    if not np.all(np.isfinite(zz)) or np.any(np.diff(zz) > 0):
        ck.fail("oracle-contract/norm.isf", "scipy.stats.norm.isf is not finite/antitone on [1e-300, 1-1e-16]", {"kind": "oracle-contract"})
    for dof in DOFS:
        pt = sps.t.sf(tgrid, min(dof, 1e10))
        pf3 = sps.f.sf(fgrid, 3, min(dof, 1e10))
        if np.any(np.diff(pt) > 0) or np.any(np.diff(pf3) > 0) or pt.min() < 0 or pt.max() > 1 or pf3.min() < 0 or pf3.max() > 1:
            ck.fail("oracle-contract/sf", "scipy t.sf / f.sf not antitone in [0,1] at dof %r" % dof, {"kind": "oracle-contract", "dof": dof})

    # ---- E. multi-row F: exact value, one-row F = t^2, row-space invariance, positive scaling, labs == fmri
    NE = ck.n(150, 1500)
    for it in range(NE):
        dim = int(rng.integers(1, 5))
        Li = None
        rr = rng.random()
        if rr < 0.4:
            # V = L L^t with an integer lower-triangular L, positive diagonal: the Cholesky factor is exactly L
            Li = np.tril(rng.integers(-3, 4, (dim, dim)))
            Li[np.arange(dim), np.arange(dim)] = rng.integers(1, 5, dim)
            Vi = Li @ Li.T
        else:
            A = rng.integers(-3, 4, (dim, dim + 1))
            Vi = A @ A.T + np.diag(rng.integers(1, 4, dim))
            if rr > 0.8:
                Vi = np.abs(Vi)
                Vi = Vi @ Vi.T + np.eye(dim, dtype=int)       # all entries positive
        ei = rng.integers(-30, 31, dim)
        sc = Fraction(1, 2 ** int(rng.integers(0, 6)))
        e = [Fraction(int(x)) * sc for x in ei]
        Vq = [[Fraction(int(x)) for x in r] for r in Vi]
        Wq = [[Fraction(int(x.p), int(x.q)) for x in row] for row in sympy.Matrix(Vi.tolist()).inv().tolist()]
        b = Fraction(0) if rng.random() < 0.7 else Fraction(int(rng.integers(-4, 5)), 2)
        d = [x - b for x in e]
        Fx = sum(d[i] * Wq[i][j] * d[j] for i in range(dim) for j in range(dim)) / dim
        neg = bool(np.any(Vi < 0))
        res = {}
        for name, mk, fstat, fp, fz in impls:
            c = mk([[float(x)] for x in e], [[[float(x)] for x in r] for r in Vq], 20.0, "F")
            st = float(np.ravel(getattr(c, fstat)(float(b)))[0])
            res[name] = st
            ck.count(("F", name, it), nontrivial=dim > 1, bucket="F:%s:dim%d:%s" % (name, dim, "negcov" if neg else "poscov"))
            rep = {"impl": name, "effect": [float(x) for x in e], "variance": Vi.tolist(), "baseline": float(b), "F": st, "exact": float(Fx)}
            if abs(frac(st) - Fx) > Fraction(1, 10 ** 10) * max(1, abs(Fx)):
                if name == "labs" and dim > 1 and neg:
                    ck.fail("F/labs-negative-covariance", "labs.glm contrast F = %r but e' V^-1 e / q = %r (= fmri.glm.Contrast) for a covariance matrix with a negative entry" % (st, float(Fx)), rep)
                else:
                    ck.fail("F/not-mahalanobis-over-q/%s/dim%d" % (name, dim), "%s F = %r, expected e' V^-1 e / q = %r" % (name, st, float(Fx)), rep)
            add_term("is_inverse_q %s %s && qrelclose %s (fstat_q %s %s %s) %s" % (
                cmatq(Vq), cmatq(Wq), cq(Fraction(1, 10 ** 10)), cql(e), cq(b), cmatq(Wq), cq(frac(st))),
                "F/model-vs-impl/%s" % name, "model and %s disagree on the multi-row F statistic" % name, rep)
            if name == "labs" and Li is not None:
                # labs route as coded (fff_mahalanobis): Cholesky factor L, forward substitution L y = d, sum of squares / dim
                y = []
                for r_ in range(dim):
                    y.append((d[r_] - sum(Fraction(int(Li[r_, c_])) * y[c_] for c_ in range(r_))) / int(Li[r_, r_]))
                Lq = [[Fraction(int(x)) for x in r] for r in Li]
                add_term("labs_solve_ok %s %s %s %s %s && qrelclose %s (labs_fstat_q %s) %s" % (
                    cmatq(Vq), cmatq(Lq), cql(y), cql(e), cq(b), cq(Fraction(1, 10 ** 10)), cql(y), cq(frac(st))),
                    "F/model-vs-impl/labs-cholesky", "Cholesky-route model (dpotrf, dtrsv, ssd / dim) and labs disagree on the multi-row F statistic", rep)
        if len(res) == 2 and abs(res["fmri"] - res["labs"]) > 1e-10 * max(1.0, abs(res["fmri"])):
            ck.fail("F/labs-differs-from-fmri/" + ("negcov" if neg else "poscov"), "labs F = %r, fmri F = %r on the same effect/variance" % (res["labs"], res["fmri"]),
                    {"effect": [float(x) for x in e], "variance": Vi.tolist(), "baseline": float(b), "labs": res["labs"], "fmri": res["fmri"]})
        # unimodular recombination of the rows (fmri; labs when covariances stay positive)
        M = np.eye(dim, dtype=int)
        for _ in range(int(rng.integers(1, 5))):
            i, j = rng.integers(0, dim, 2)
            if i != j:
                M[i] += int(rng.integers(-2, 3)) * M[j]
        M = M[rng.permutation(dim)]
        if rng.random() < 0.5:
            M[int(rng.integers(0, dim))] *= -1
        if b == 0:
            e2 = M @ np.array([float(x) for x in e])
            V2 = M @ Vi.astype(float) @ M.T
            for name, mk, fstat, fp, fz in impls:
                c2 = mk(e2[:, None], V2[:, :, None], 20.0, "F")
                s2 = float(np.ravel(getattr(c2, fstat)())[0])
                if abs(s2 - res[name]) > 1e-9 * max(1.0, abs(res[name])):
                    ck.fail("F/not-rowspace-invariant/%s/dim%d" % (name, dim), "%s F changes from %r to %r under the unimodular recombination %s" % (name, res[name], s2, M.tolist()),
                            {"impl": name, "effect": [float(x) for x in e], "variance": Vi.tolist(), "M": M.tolist(), "F": res[name], "F_recombined": s2})
            # positive scaling: t/F, p, z unchanged (variance far above the floor)
            k = float(rng.integers(1, 50)) / 4.0
            for name, mk, fstat, fp, fz in impls:
                c0 = mk([[float(x)] for x in e], [[[float(x)] for x in r] for r in Vq], 20.0, "F" if dim > 1 else "t")
                ck_ = k * c0
                a0 = [np.ravel(getattr(c0, f)()) for f in (fstat, fp, fz)]
                a1 = [np.ravel(getattr(ck_, f)()) for f in (fstat, fp, fz)]
                if not all(np.allclose(x, y, rtol=1e-9, atol=1e-300) for x, y in zip(a0, a1)):
                    ck.fail("scale/not-invariant/%s" % name, "statistic/p/z change under multiplication by %r" % k,
                            {"impl": name, "k": k, "effect": [float(x) for x in e], "variance": Vi.tolist(),
                             "before": [x.tolist() for x in a0], "after": [x.tolist() for x in a1]})
    # scaling when the variance is below the floor (zero variance is in the property's quantifier)
    for name, mk, fstat, fp, fz in impls:
        c0 = mk([[1e-26]], [[[0.0]]], 20.0, "t")
        c1 = 100.0 * c0
        t0, t1 = float(np.ravel(getattr(c0, fstat)())[0]), float(np.ravel(getattr(c1, fstat)())[0])
        ck.count(("scale-floor", name), nontrivial=True, bucket="scale:floor-active")
        if abs(t0 - t1) > 1e-9 * abs(t0):
            ck.fail("scale/variance-below-tiny", "effect 1e-26 with zero variance: t = %r, after 100 * contrast t = %r (%s)" % (t0, t1, name),
                    {"impl": name, "effect": 1e-26, "variance": 0.0, "k": 100.0, "t": t0, "t_scaled": t1})

    # ---- F. memory layouts: Fortran-ordered, strided and transposed-view effect / variance arrays give the same
    #         statistics as contiguous copies, and the caller's arrays are never modified
    NL = ck.n(60, 600)
    for it in range(NL):
        typ = ["t", "F", "F", "tmin-conjunction"][it % 4]
        dim = 1 if typ == "t" else (int(rng.integers(1, 4)) if typ == "F" else int(rng.integers(2, 4)))
        n = int(rng.integers(1, 7))
        A = rng.integers(-3, 4, (dim, dim + 1, n)).astype(float)
        V0 = np.ascontiguousarray(np.einsum("ikn,jkn->ijn", A, A) + np.eye(dim)[:, :, None] * rng.integers(1, 4))
        e0 = np.ascontiguousarray(rng.integers(-40, 41, (dim, n)).astype(float) / 4.0)
        base = 0.0 if rng.random() < 0.5 else float(rng.integers(-3, 4)) / 2.0

        def variants():
            yield "fortran", np.asfortranarray(e0), np.asfortranarray(V0)
            eb = np.zeros((dim, 2 * n)); eb[:, ::2] = e0
            Vb = np.zeros((dim, dim, 2 * n)); Vb[:, :, ::2] = V0
            yield "strided", eb[:, ::2], Vb[:, :, ::2]
            yield "transposed-view", np.ascontiguousarray(e0.T).T, np.ascontiguousarray(V0.transpose(2, 0, 1)).transpose(1, 2, 0)
            Vr = np.ascontiguousarray(V0[::-1, ::-1])
            yield "negative-strides", np.ascontiguousarray(e0[::-1])[::-1], Vr[::-1, ::-1]
        for name, mk, fstat, fp, fz in impls:
            cref = mk(e0, V0, 12.0, typ)
            ref = [np.ravel(np.array(getattr(cref, f)(base), dtype=float)) for f in (fstat, fp, fz)]
            for vname, ev, Vv in variants():
                ek, Vk = ev.copy(), Vv.copy()
                ck.count(("layout", name, vname, it), nontrivial=True, bucket="layout:%s:%s" % (name, vname))
                rep = {"impl": name, "type": typ, "dim": dim, "layout": vname, "effect": e0.tolist(), "variance": V0.tolist(), "baseline": base,
                       "effect_strides": list(ev.strides), "variance_strides": list(Vv.strides)}
                try:
                    if name == "fmri":
                        c = fg.Contrast(ev, Vv, dof=12.0, contrast_type=typ)
                    else:
                        c = lg.contrast(dim, {"tmin-conjunction": "tmin"}.get(typ, typ))
                        c.effect, c.variance, c.dof = ev, Vv, 12.0
                    got = [np.ravel(np.array(getattr(c, f)(base), dtype=float)) for f in (fstat, fp, fz)]
                    c2 = 2.0 * c
                    c3 = c + c
                    got2 = np.ravel(np.array(getattr(c3, fstat)(base), dtype=float))
                except Exception as ex:  # noqa
                    ck.fail("layout/raises/%s/%s" % (name, vname), "%s %s contrast on %s arrays raised %r" % (name, typ, vname, ex), rep)
                    continue
                if not all(x.shape == y.shape and np.allclose(x, y, rtol=1e-10, atol=1e-300) for x, y in zip(got, ref)):
                    ck.fail("layout/value-differs/%s/%s" % (name, vname),
                            "%s %s contrast: stat/p/z on %s arrays differ from the contiguous copy: %s vs %s" % (name, typ, vname, [x.tolist() for x in got], [x.tolist() for x in ref]), rep)
                if not (np.array_equal(ev, ek) and np.array_equal(Vv, Vk)):
                    ck.fail("layout/input-mutated/%s/%s" % (name, vname),
                            "%s %s contrast: the caller's %s effect/variance array was modified by stat/p_value/z_score/*/+" % (name, typ, vname),
                            dict(rep, variance_after=np.asarray(Vv).tolist()))

    if build_ok:
        res = ck.coq_bools(HDRC, terms, name="contrast")
        ck.cov["traces_validated_against_impl"] += len(res)
        for ok, (sig, what, rep) in zip(res, meta):
            if not ok:
                ck.fail(sig, what, rep)
    ck.section("contrast", stat_cases=NA, algebra_cases=NB, pipeline_cases=NC, F_cases=NE, tail_points=int(tgrid.size), model_terms=len(terms))


# ------------------------------------------------------------------ LikelihoodModelResults
def _pos_recipr(x):
    x = np.asarray(x, dtype=float)
    out = np.zeros(x.shape)
    out[x > 0] = 1.0 / x[x > 0]
    return out


def _same(a, b, rtol=1e-10):
    a, b = np.asarray(a, dtype=float), np.asarray(b, dtype=float)
    return a.shape == b.shape and np.allclose(a, b, rtol=rtol, atol=1e-300)


def results_options(ck, r, C, rng, rep, terms, meta):
    """Rarely used arguments of LikelihoodModelResults: every subset of store=, dispersion= None / python float /
    numpy scalar / per-voxel array, invcov=, other=, column= - each result against first principles computed from
    r.theta, r.cov and the EFFECTIVE dispersion (the caller's when given, r.dispersion otherwise), and against
    the default full-store call with the same dispersion."""
    import itertools
    theta, cov = np.asarray(r.theta, dtype=float), np.asarray(r.cov, dtype=float)
    selfd = np.asarray(r.dispersion, dtype=float)
    multi = theta.ndim == 2
    nv = theta.shape[1] if multi else 1
    p = theta.shape[0]
    c = C[0]
    kinds = [("none", None), ("python-float", float(rng.integers(1, 9)) / 4.0), ("numpy-scalar", np.float64(rng.integers(1, 9)) / 2.0)]
    if multi:
        kinds.append(("per-voxel", rng.integers(1, 9, nv).astype(float) / 4.0))
    else:
        kinds.append(("0-d-array", np.array(float(rng.integers(1, 9)) / 4.0)))
    full = ("t", "effect", "sd")
    subsets = [s_ for L in range(0, 4) for s_ in itertools.combinations(full, L)]
    eff_ref = c @ theta
    v = float(c @ cov @ c)
    for kind, d in kinds:
        de = selfd if d is None else np.asarray(d, dtype=float)
        sd_ref = np.sqrt(v * de)
        t_ref = eff_ref * _pos_recipr(sd_ref)
        ref = {"t": t_ref, "effect": eff_ref, "sd": sd_ref}
        try:
            Tfull = r.Tcontrast(c, dispersion=d)
        except Exception as ex:  # noqa
            ck.fail("results/Tcontrast-options/raises/dispersion-%s" % kind, "Tcontrast(c, dispersion=%r) raised %r" % (d, ex), dict(rep, dispersion=repr(d)))
            continue
        for st in subsets:
            for as_type in (tuple, list):
                if as_type is list and len(st) != 1:
                    continue
                ck.count(("Topt", kind, st, as_type.__name__, rep["it"]), nontrivial=True, bucket="results-options:T:%s:%s" % (kind, "+".join(st) or "empty"))
                rp = dict(rep, store=list(st), dispersion=None if d is None else np.asarray(d).tolist(), dispersion_kind=kind)
                try:
                    T = r.Tcontrast(c, store=as_type(st), dispersion=d)
                except Exception as ex:  # noqa
                    ck.fail("results/Tcontrast-options/raises/dispersion-%s" % kind, "Tcontrast(c, store=%r, dispersion=%s) raised %r" % (st, kind, ex), rp)
                    continue
                sub = "full-store" if set(st) == set(full) else ("t-without-sd" if "t" in st and "sd" not in st else "subset")
                for f in full:
                    got = getattr(T, f)
                    if f not in st:
                        if got is not None:
                            ck.fail("results/Tcontrast-options/not-requested-field-stored", "store=%r but .%s is not None" % (st, f), rp)
                        continue
                    if got is None:
                        ck.fail("results/Tcontrast-options/requested-field-missing/%s" % f, "store=%r but .%s is None" % (st, f), rp)
                        continue
                    if not _same(np.squeeze(got), np.squeeze(np.broadcast_to(ref[f], np.broadcast_shapes(np.shape(ref[f]), np.shape(got))))):
                        ck.fail("results/Tcontrast-options/%s-wrong/%s/dispersion-%s" % (f, sub, kind),
                                "Tcontrast(c, store=%r, dispersion=%s).%s = %s, expected %s (effective dispersion %s)" % (
                                    st, kind, f, np.asarray(got).tolist(), np.asarray(ref[f]).tolist(), np.asarray(de).tolist()),
                                dict(rp, got=np.asarray(got).tolist(), expected=np.asarray(ref[f]).tolist()))
                    elif not np.array_equal(np.asarray(got), np.asarray(getattr(Tfull, f))):
                        ck.fail("results/Tcontrast-options/store-dependent/%s/dispersion-%s" % (f, kind),
                                ".%s differs between store=%r and the default store for the same dispersion" % (f, st), rp)
                if T.df_den != r.df_resid:
                    ck.fail("results/Tcontrast-options/df_den", "df_den %r != df_resid %r" % (T.df_den, r.df_resid), rp)
                # model comparison, voxel 0
                if as_type is tuple:
                    d0 = None if d is None else float(np.ravel(de)[0])
                    s0 = float(np.ravel(selfd)[0])
                    de0 = s0 if d0 is None else d0
                    vd = frac(v) * frac(de0)
                    sdv = frac(float(np.sqrt(v * de0)))

                    def first(x):
                        return None if x is None else frac(float(np.ravel(np.asarray(x, dtype=float))[0]))
                    tol = Fraction(1, 10 ** 9)
                    terms.append("sqrt_tbl_close %s %s && tres_close %s (g_Tcontrast (Qops %s) %s %s %s %s %s %s %s) %s %s %s" % (
                        cq(tol), ctbl([(vd, sdv)]), cq(tol), ctbl([(vd, sdv)]),
                        "true" if "t" in st else "false", "true" if "effect" in st else "false", "true" if "sd" in st else "false",
                        cq(frac(float(np.ravel(eff_ref)[0]))), cq(frac(v)), coptq(None if d0 is None else frac(d0)), cq(frac(s0)),
                        coptq(first(T.t)), coptq(first(T.effect)), coptq(first(T.sd))))
                    meta.append(("results/model-vs-impl/Tcontrast-options/%s/dispersion-%s" % (sub, kind),
                                 "model g_Tcontrast and Tcontrast(store=%r, dispersion=%s) disagree" % (st, kind), rp))
        # invalid store entries are rejected
        try:
            r.Tcontrast(c, store=("t", "F"), dispersion=d)
            ck.fail("results/Tcontrast-options/invalid-store-accepted", "store=('t','F') accepted", dict(rep))
        except ValueError:
            pass
        # ---- Fcontrast(dispersion=, invcov=)
        q = C.shape[0]
        ct = C @ theta
        Vc = C @ cov @ C.T
        quad = np.atleast_1d(np.einsum("i...,ij,j...->...", ct, np.linalg.inv(Vc), ct))
        F_ref = quad * _pos_recipr(q * np.atleast_1d(de))
        for use_invcov in (False, True):
            ck.count(("Fopt", kind, use_invcov, rep["it"]), nontrivial=True, bucket="results-options:F:%s:%s" % (kind, "invcov" if use_invcov else "computed"))
            rp = dict(rep, dispersion=None if d is None else np.asarray(d).tolist(), dispersion_kind=kind, invcov=use_invcov)
            try:
                Fr = r.Fcontrast(C, dispersion=d, invcov=np.linalg.inv(Vc) if use_invcov else None)
            except Exception as ex:  # noqa
                ck.fail("results/Fcontrast-options/raises/dispersion-%s" % kind, "Fcontrast(C, dispersion=%r) raised %r" % (d, ex), rp)
                continue
            if not np.allclose(np.atleast_1d(np.asarray(Fr.F, dtype=float)), F_ref, rtol=1e-8) or Fr.df_num != q:
                ck.fail("results/Fcontrast-options/F-wrong/dispersion-%s/%s" % (kind, "invcov" if use_invcov else "computed"),
                        "Fcontrast(C, dispersion=%s).F = %s, expected %s" % (kind, np.asarray(Fr.F).tolist(), F_ref.tolist()), rp)
            covw = Vc[:, :, None] * np.atleast_1d(de)
            if not np.allclose(np.asarray(Fr.covariance).reshape(q, q, -1), covw, rtol=1e-10) or not np.allclose(Fr.effect, ct):
                ck.fail("results/Fcontrast-options/covariance-or-effect-wrong/dispersion-%s" % kind,
                        "Fcontrast(C, dispersion=%s).covariance/.effect differ from C cov C' * dispersion / C theta" % kind, rp)
            if q == 1 and use_invcov is False:
                d0 = None if d is None else float(np.ravel(de)[0])
                s0 = float(np.ravel(selfd)[0])
                terms.append("qrelclose %s (g_Fcontrast1 (Qops []) %s %s %s %s) %s" % (
                    cq(Fraction(1, 10 ** 9)), cq(frac(float(np.ravel(ct)[0]))), cq(1 / frac(float(Vc[0, 0]))),
                    coptq(None if d0 is None else frac(d0)), cq(frac(s0)), cq(frac(float(np.ravel(np.asarray(Fr.F, dtype=float))[0])))))
                meta.append(("results/model-vs-impl/Fcontrast-options/dispersion-%s" % kind, "model g_Fcontrast1 and Fcontrast disagree", rp))
        # ---- vcov(matrix=, other=, column=, dispersion=)
        rp = dict(rep, dispersion=None if d is None else np.asarray(d).tolist(), dispersion_kind=kind)
        D = C[::-1]
        try:
            got_m = np.asarray(r.vcov(matrix=C, dispersion=d)).reshape(q, q, -1)
            got_o = np.asarray(r.vcov(matrix=C, other=D, dispersion=d)).reshape(q, q, -1)
            got_c = np.atleast_1d(np.asarray(r.vcov(column=1, dispersion=d), dtype=float))
        except Exception as ex:  # noqa
            ck.fail("results/vcov-options/raises/dispersion-%s" % kind, "vcov raised %r" % ex, rp)
            continue
        ck.count(("vcov", kind, rep["it"]), nontrivial=True, bucket="results-options:vcov:%s" % kind)
        den = np.atleast_1d(de)
        if not (np.allclose(got_m, Vc[:, :, None] * den, rtol=1e-10) and np.allclose(got_o, (C @ cov @ D.T)[:, :, None] * den, rtol=1e-10)
                and np.allclose(got_c, cov[1, 1] * den, rtol=1e-10)):
            ck.fail("results/vcov-options/wrong/dispersion-%s" % kind, "vcov(matrix=/other=/column=, dispersion=%s) differs from M cov O' * dispersion" % kind, rp)
    # ---- t(column): scalar column, list of columns, all columns - against Tcontrast(e_j)
    tj = [np.atleast_1d(np.asarray(r.Tcontrast(np.eye(p)[j]).t, dtype=float)) for j in range(p)]
    for colkind, col in (("scalar", 1), ("list", [0, p - 1]), ("all", None)):
        ck.count(("tcol", colkind, rep["it"]), nontrivial=True, bucket="results-options:t:%s:%s" % (colkind, "2D-response" if multi else "single"))
        # structural class of the call: a vector of columns on a fit of a 2-D response is one class (raises or mis-broadcasts)
        cls = "vector-column/2D-response-fit" if (multi and colkind != "scalar") else "%s/%s" % (colkind, "2D-response-fit" if multi else "single-response")
        cols = [col] if colkind == "scalar" else (list(range(p)) if col is None else col)
        want = np.array([tj[j] for j in cols])
        try:
            got = np.asarray(r.t(column=col), dtype=float)
        except Exception as ex:  # noqa
            ck.fail("results/t-column/%s" % cls, "results.t(column=%r) raised %s: %s (theta shape %s)" % (col, type(ex).__name__, ex, theta.shape),
                    dict(rep, column=col))
            continue
        if got.size != want.size or not np.allclose(got.ravel(), want.ravel(), rtol=1e-10, atol=1e-300):
            ck.fail("results/t-column/%s" % cls, "results.t(column=%r) = %s differs from Tcontrast(e_j).t = %s (theta shape %s)" % (
                col, got.tolist(), want.tolist(), theta.shape), dict(rep, column=col, got=got.tolist(), expected=want.tolist()))


def results_section(ck):
    from nipy.algorithms.statistics.models.regression import OLSModel
    rng = ck.rng("results")
    build_ok = ck.build is not None and ck.build.ok
    terms, meta = [], []
    N = ck.n(80, 800)
    for it in range(N):
        n, p = int(rng.integers(6, 14)), int(rng.integers(2, 5))
        X = rng.integers(-3, 4, (n, p)).astype(float)
        X[:, 0] = 1.0
        if np.linalg.matrix_rank(X) < p:
            continue
        nv = int(rng.integers(1, 4))
        Y = rng.integers(-20, 21, (n, nv)).astype(float) * 10.0 ** float(rng.integers(-2, 3))
        single = it % 4 == 3                      # single-response fit: 1-D Y, scalar dispersion
        if single:
            Y, nv = Y[:, 0].copy(), 1
        r = OLSModel(X).fit(Y)
        theta, cov, disp = np.asarray(r.theta).reshape(p, nv), np.asarray(r.cov), np.atleast_1d(np.asarray(r.dispersion, dtype=float))
        if np.any(disp <= 0):
            continue
        q = int(rng.integers(1, p + 1))
        while True:
            C = rng.integers(-2, 3, (q, p)).astype(float)
            if np.linalg.matrix_rank(C) == q:
                break
        ck.count(("results", it), nontrivial=True, bucket="results:q%d" % q)
        rep = {"X": X.tolist(), "Y": Y.tolist(), "C": C.tolist()}
        results_options(ck, r, C, rng, dict(rep, it=it), terms, meta)
        # t contrast on the first row
        c = C[0]
        T = r.Tcontrast(c)
        eff, sd, t = (np.atleast_1d(np.asarray(x, dtype=float)) for x in (T.effect, T.sd, T.t))
        v = float(c @ cov @ c)
        if not (np.allclose(eff, c @ theta, rtol=1e-12, atol=1e-12) and np.allclose(sd * sd, v * disp, rtol=1e-10)
                and np.allclose(t * sd, eff, rtol=1e-10, atol=1e-12) and T.df_den == n - p):
            ck.fail("results/t-not-effect-over-sd", "Tcontrast: t*sd != effect, sd^2 != c cov c' * dispersion, or df_den != n-p",
                    dict(rep, effect=eff.tolist(), sd=sd.tolist(), t=t.tolist()))
        tcol = np.atleast_1d(np.asarray(r.t(column=1), dtype=float))
        e1 = np.zeros(p); e1[1] = 1
        if not np.allclose(tcol, np.atleast_1d(r.Tcontrast(e1).t), rtol=1e-10, atol=1e-12):
            ck.fail("results/t-column-vs-Tcontrast", "results.t(column=1) differs from Tcontrast(e_1).t", rep)
        # F contrast: value, one row = t^2, df, row-space invariance
        Fr = r.Fcontrast(C)
        F = np.atleast_1d(np.asarray(Fr.F, dtype=float))
        ct = C @ theta
        Vc = C @ cov @ C.T
        want = np.array([ct[:, k] @ np.linalg.solve(Vc, ct[:, k]) / (q * disp[k]) for k in range(nv)])
        if not np.allclose(F, want, rtol=1e-8) or Fr.df_num != q or Fr.df_den != n - p:
            ck.fail("results/F-not-quadratic-form-over-q/q%d" % q, "Fcontrast F = %s, expected (C theta)' (C cov C')^-1 (C theta) / (q dispersion) = %s; df_num=%r" % (F.tolist(), want.tolist(), Fr.df_num),
                    dict(rep, F=F.tolist(), expected=want.tolist()))
        F1 = np.atleast_1d(np.asarray(r.Fcontrast(c).F, dtype=float))
        if not np.allclose(F1, t * t, rtol=1e-9, atol=1e-300):
            ck.fail("results/F-one-row-not-t-squared", "Fcontrast(c).F = %s but Tcontrast(c).t^2 = %s" % (F1.tolist(), (t * t).tolist()), rep)
        M = np.eye(q)
        for _ in range(3):
            i, j = rng.integers(0, q, 2)
            if i != j:
                M[i] += float(rng.integers(-2, 3)) * M[j]
        M = M[rng.permutation(q)]
        F2 = np.atleast_1d(np.asarray(r.Fcontrast(M @ C).F, dtype=float))
        if not np.allclose(F2, F, rtol=1e-8):
            ck.fail("results/F-not-rowspace-invariant/q%d" % q, "Fcontrast(M C) = %s != Fcontrast(C) = %s for unimodular M" % (F2.tolist(), F.tolist()), dict(rep, M=M.tolist()))
        # model comparison (voxel 0): g_T with the recorded sd as the sqrt oracle (contract checked to 1e-10), g_F1 with 1/v
        vd = frac(v) * frac(float(disp[0]))
        tol = Fraction(1, 10 ** 9)
        terms.append("sqrt_tbl_close %s %s && qrelclose %s (g_T (Qops %s) %s %s %s) %s" % (
            cq(tol), ctbl([(vd, frac(float(sd[0])))]), cq(tol), ctbl([(vd, frac(float(sd[0])))]),
            cq(frac(float((c @ theta)[0]))), cq(frac(v)), cq(frac(float(disp[0]))), cq(frac(float(t[0])))))
        meta.append(("results/model-vs-impl/T", "model g_T and Tcontrast disagree", dict(rep, t=t.tolist())))
        if v > 0:
            terms.append("qrelclose %s (g_F1 (Qops []) %s %s %s) %s" % (
                cq(tol), cq(frac(float((c @ theta)[0]))), cq(1 / frac(v)), cq(frac(float(disp[0]))), cq(frac(float(F1[0])))))
            meta.append(("results/model-vs-impl/F1", "model g_F1 and Fcontrast (one row) disagree", dict(rep, F=F1.tolist())))
    if build_ok:
        res = ck.coq_bools(HDRC, terms, name="results")
        ck.cov["traces_validated_against_impl"] += len(res)
        for ok, (sig, what, rep) in zip(res, meta):
            if not ok:
                ck.fail(sig, what, rep)
    ck.section("results", cases=N, model_terms=len(terms))


# ------------------------------------------------------------------ Contrast objects as state machines
SM_BASES = [0.0, 0.5, -1.0]


def _cexp_lit(c):
    if c[0] == "base":
        return "(CBase %d)" % c[1]
    if c[0] == "mul":
        return "(CMul %s %s)" % (cq(frac(c[1])), _cexp_lit(c[2]))
    return "(CAdd %s %s)" % (_cexp_lit(c[1]), _cexp_lit(c[2]))


def _op_lit(o):
    if o[0] in ("S", "P", "Z"):
        return "(%s %s)" % ({"S": "OStat", "P": "OPval", "Z": "OZ"}[o[0]], cq(frac(o[1])))
    if o[0] == "M":
        return "(OMul %s)" % cq(frac(o[1]))
    return "(OAdd (CBase 1))"


def state_section(ck):
    """Every value a Contrast object reports, after ANY sequence of stat / p_value / z_score calls at
    changing baselines, scalar multiplications and additions, must equal the value a fresh object with the
    same effect / variance / dof reports for that call."""
    import itertools
    import nipy.modalities.fmri.glm as fg
    import nipy.labs.glm.glm as lg
    rng = ck.rng("state")
    build_ok = ck.build is not None and ck.build.ok
    terms, meta = [], []
    impls = [("fmri", lambda e, V, d, t: mk_fmri(fg, e, V, d, t), ("stat", "p_value", "z_score")),
             ("labs", lambda e, V, d, t: mk_labs(lg, e, V, d, t), ("stat", "pvalue", "zscore"))]
    evalops = [(m, b) for m in "SPZ" for b in SM_BASES[:2]]
    maxlen = ck.n(3, 4)
    nrand = ck.n(100, 600)
    nseq = 0
    for (name, mk, meths), (typ, dim) in itertools.product(impls, [("t", 1), ("F", 1), ("F", 2), ("tmin-conjunction", 2)]):
        mname = dict(zip("SPZ", meths))
        seqs = [list(t) for L in range(1, maxlen + 1) for t in itertools.product(evalops, repeat=L)]
        for _ in range(nrand):
            L = int(rng.integers(3, 8))
            sq = []
            for _ in range(L):
                r = rng.random()
                if r < 0.7:
                    sq.append((str(rng.choice(list("SPZ"))), float(rng.choice(SM_BASES))))
                elif r < 0.9:
                    k = float(rng.choice([2.0, 0.5, 3.0, -1.0, -2.0]))
                    sq.append(("M", k, bool(rng.random() < 0.5)))     # k * x or x * k
                else:
                    sq.append(("A",))
            if sq[-1][0] in "MA":
                sq.append((str(rng.choice(list("PZ"))), float(rng.choice(SM_BASES))))
            seqs.append(sq)
        nv = 3

        def rand_content():
            e = np.round(rng.normal(1.0, 2.0, (dim, nv)), 3)
            A = rng.normal(0, 1, (dim, dim + 1, nv))
            V = np.einsum("ikn,jkn->ijn", A, A) + np.eye(dim)[:, :, None] * 0.5
            return e, np.round(V, 3) if dim == 1 else V, float(rng.choice([5.0, 20.0, 1e3]))
        base = {0: rand_content(), 1: rand_content()}

        def arrays(c):
            if c[0] == "base":
                return base[c[1]]
            if c[0] == "mul":
                e, V, d = arrays(c[2])
                return e * c[1], V * c[1] ** 2, d
            (e1, V1, d1), (e2, V2, d2) = arrays(c[1]), arrays(c[2])
            return e1 + e2, V1 + V2, d1 + d2
        fresh_cache = {}

        def fresh(c, b, m):
            key = (repr(c), b, m)
            if key not in fresh_cache:
                e, V, d = arrays(c)
                v = getattr(mk(e, V, d, typ), mname[m])(b)
                fresh_cache[key] = (np.shape(v), np.ravel(np.array(v, dtype=float)))
            return fresh_cache[key]
        for sq in seqs:
            nseq += 1
            x = mk(*base[0], typ)
            partner = mk(*base[1], typ)
            getattr(partner, meths[2])(0.5)          # the partner of `+` has a warm cache of its own
            cur = ("base", 0)
            seen = [cur, ("base", 1)]
            observed = []
            hist = []
            ck.count(("state", name, typ, dim, tuple(sq)), nontrivial=len(sq) > 1, bucket="state:%s:%s%d" % (name, typ, dim))
            for o in sq:
                hist.append(o)
                rep = {"impl": name, "type": typ, "dim": dim, "effect": base[0][0].tolist(), "variance": base[0][1].tolist(), "dof": base[0][2],
                       "partner_effect": base[1][0].tolist(), "partner_variance": base[1][1].tolist(), "partner_dof": base[1][2],
                       "sequence": [list(h) for h in hist],
                       "legend": "S/P/Z b = stat/p_value/z_score(baseline b); M k = multiply by k; A = add the partner (evaluated before)"}
                if o[0] == "M":
                    x = (o[1] * x) if o[2] else (x * o[1])
                    cur = ("mul", o[1], cur)
                    seen.append(cur)
                    observed.append(None)
                    continue
                if o[0] == "A":
                    x = x + partner
                    cur = ("add", cur, ("base", 1))
                    seen.append(cur)
                    observed.append(None)
                    continue
                m, b = o
                try:
                    v = getattr(x, mname[m])(b)
                except IndexError as ex:
                    ck.fail("state/unravelled-stat-cache/%s" % name,
                            "%s %s: %s(%r) raised IndexError after %s (stat() caches an un-ravelled array that is later used as a mask)" % (name, typ, mname[m], b, hist[:-1]), rep)
                    observed.append(None)
                    continue
                except Exception as ex:  # noqa
                    ck.fail("state/raises/%s/%s" % (name, mname[m]), "%s(%r) raised %r after %s" % (mname[m], b, ex, hist[:-1]), rep)
                    observed.append(None)
                    continue
                out = np.ravel(np.array(v, dtype=float))
                shp, want = fresh(cur, b, m)
                if np.shape(v) != shp:
                    ck.fail("state/unravelled-stat-cache/%s" % name,
                            "%s %s: %s(%r) has shape %s after %s, shape %s on a fresh object" % (name, typ, mname[m], b, np.shape(v), hist[:-1], shp), rep)
                matches = []
                for c in seen:
                    for bb in SM_BASES:
                        w = fresh(c, bb, m)[1]
                        if w.shape == out.shape and np.allclose(w, out, rtol=1e-9, atol=1e-12, equal_nan=True):
                            matches.append((c, bb))
                observed.append(matches)
                if (cur, b) not in matches:
                    rep = dict(rep, got=out.tolist(), from_scratch=want.tolist())
                    if any(c == cur for c, bb in matches):
                        bb = [bb for c, bb in matches if c == cur][0]
                        ck.fail("state/stale-baseline/%s/%s" % (name, mname[m]),
                                "%s %s: after %s, %s(%r) returns the value of baseline %r" % (name, typ, hist[:-1], mname[m], b, bb), rep)
                    elif matches:
                        ck.fail("state/stale-after-algebra/%s/%s" % (name, mname[m]),
                                "%s %s: after %s, %s(%r) returns a value computed from another object (%s)" % (name, typ, hist[:-1], mname[m], b, matches[0]), rep)
                    else:
                        ck.fail("state/unexplained-value/%s/%s" % (name, mname[m]),
                                "%s %s: after %s, %s(%r) = %s, from scratch %s" % (name, typ, hist[:-1], mname[m], b, out.tolist(), want.tolist()), rep)
            obs_lit = clist(["None" if ms is None else "(Some %s)" % clist(["(%s, %s)" % (_cexp_lit(c), cq(frac(bb))) for c, bb in ms]) for ms in observed])
            terms.append("machine_agrees %s_stat_drops_pvalue %s %s" % (name, clist([_op_lit(o) for o in sq]), obs_lit))
            meta.append({"impl": name, "type": typ, "dim": dim, "sequence": [list(h) for h in sq], "effect": base[0][0].tolist(),
                         "variance": base[0][1].tolist(), "dof": base[0][2],
                         "observed_tags": [None if ms is None else [[repr(c), bb] for c, bb in ms] for ms in observed]})
    if build_ok:
        res = ck.coq_bools(HDRC, terms, name="state")
        ck.cov["traces_validated_against_impl"] += len(res)
        for ok, rep in zip(res, meta):
            if not ok:
                ck.fail("state/model-vs-impl/%s" % rep["impl"],
                        "the cache machine of Model.v (with the invalidation flag translated from the source) and %s disagree on which (contents, baseline) a returned value belongs to, sequence %s" % (rep["impl"], rep["sequence"]), rep)
    ck.section("state", sequences=nseq, exhaustive_len=maxlen, random_per_class=nrand)


# ------------------------------------------------------------------ fixed effects: sums over any number of sessions / summands
def _ccon(e, V, d, vox=0):
    e, V = np.asarray(e, dtype=float), np.asarray(V, dtype=float)
    dim = e.shape[0]
    return "(mkC %s %s %s)" % (cql([frac(float(e[i, vox])) for i in range(dim)]),
                               cmatq([[frac(float(V[i, j, vox])) for j in range(dim)] for i in range(dim)]), cq(frac(float(d))))


def fixed_effects_section(ck):
    """c1 + c2 + ... + ck for k in {1,2,3,5} (both Contrast classes, every grouping) and FMRILinearModel.contrast over
    1, 2, 3, 5 sessions with and without null session contrasts: effect / variance / dof are the sums over ALL
    (non-null) summands, and stat / p / z are those of a fresh contrast built from the sums."""
    import nibabel as nib
    import nipy.modalities.fmri.glm as fg
    import nipy.labs.glm.glm as lg
    rng = ck.rng("fixed-effects")
    build_ok = ck.build is not None and ck.build.ok
    terms, meta = [], []
    impls = [("fmri", lambda e, V, d, t: mk_fmri(fg, e, V, d, t), ("stat", "p_value", "z_score")),
             ("labs", lambda e, V, d, t: mk_labs(lg, e, V, d, t), ("stat", "pvalue", "zscore"))]
    KS = [1, 2, 3, 5]

    def kcls(k):
        return "k=%d" % k if k <= 2 else "k>=3"
    # ---- (a) sums of k Contrast objects, exact on dyadic data
    NA = ck.n(120, 1200)
    for it in range(NA):
        k = KS[it % 4]
        dim = int(rng.integers(1, 4))
        typ = "t" if dim == 1 and rng.random() < 0.5 else ("F" if dim == 1 or rng.random() < 0.6 else "tmin-conjunction")
        n = int(rng.integers(1, 4))
        parts = []
        live_j = int(rng.integers(0, k))                      # at least one summand has a full-rank variance
        for j in range(k):
            null = j != live_j and rng.random() < 0.2         # a summand with zero effect and variance
            e = np.zeros((dim, n)) if null else rng.integers(-2 ** 12, 2 ** 12, (dim, n)) / 2.0 ** int(rng.integers(0, 8))
            A = rng.integers(-8, 9, (dim, dim + 1, n)) / 4.0
            V = np.zeros((dim, dim, n)) if null else np.einsum("ikn,jkn->ijn", A, A) + np.eye(dim)[:, :, None] / 4.0
            parts.append((e, V, float(rng.choice(DOFS[:4]))))
        es, Vs, ds = sum(p_[0] for p_ in parts), sum(p_[1] for p_ in parts), sum(p_[2] for p_ in parts)
        for name, mk, meths in impls:
            objs = [mk(e, V, d, typ) for e, V, d in parts]
            groupings = {"left": None, "right": None, "tree": None}
            acc = objs[0]
            for o in objs[1:]:
                acc = acc + o
            groupings["left"] = acc
            acc = objs[-1]
            for o in objs[-2::-1]:
                acc = o + acc
            groupings["right"] = acc
            lvl = list(objs)
            while len(lvl) > 1:
                lvl = [lvl[i] + lvl[i + 1] if i + 1 < len(lvl) else lvl[i] for i in range(0, len(lvl), 2)]
            groupings["tree"] = lvl[0]
            ck.count(("csum", name, it), nontrivial=k > 1, bucket="fixed-effects:contrast-sum:%s:k=%d" % (name, k))
            fresh = mk(es, Vs, ds, typ)
            ref = [np.ravel(np.array(getattr(fresh, m)(), dtype=float)) for m in meths]
            for gname, res in groupings.items():
                rep = {"impl": name, "type": typ, "dim": dim, "k": k, "grouping": gname,
                       "effects": [p_[0].tolist() for p_ in parts], "variances": [p_[1].tolist() for p_ in parts], "dofs": [p_[2] for p_ in parts],
                       "result": {"effect": np.asarray(res.effect).tolist(), "variance": np.asarray(res.variance).tolist(), "dof": res.dof}}
                for fld, got, want in (("effect", res.effect, es), ("variance", res.variance, Vs), ("dof", res.dof, ds)):
                    if not np.array_equal(np.asarray(got, dtype=float).reshape(np.shape(want)), want):
                        ck.fail("fixed-effects/contrast-sum/%s/%s/%s" % (name, fld, kcls(k)),
                                "%s: %s of the sum of %d contrasts (%s grouping) is not the sum of the %d %ss" % (name, fld, k, gname, k, fld), rep)
                got = [np.ravel(np.array(getattr(res, m)(), dtype=float)) for m in meths]
                if not all(x.shape == y.shape and np.allclose(x, y, rtol=1e-12, atol=1e-300) for x, y in zip(got, ref)):
                    ck.fail("fixed-effects/contrast-sum/%s/stat-p-z/%s" % (name, kcls(k)),
                            "%s: stat/p/z of the sum of %d contrasts differ from those of a fresh contrast with the summed effect/variance/dof" % (name, k), rep)
                if gname == "left":
                    terms.append("c_eqb (c_sum %s %s) %s" % (_ccon(*parts[0]), clist([_ccon(*p_) for p_ in parts[1:]]), _ccon(res.effect, np.asarray(res.variance).reshape(dim, dim, -1), res.dof)))
                    meta.append(("fixed-effects/model-vs-impl/contrast-sum/%s/%s" % (name, kcls(k)), "model c_sum and %s disagree on the sum of %d contrasts" % (name, k), rep))

    # ---- (b) FMRILinearModel.contrast over K sessions
    NB = ck.n(96, 600)
    shape = (2, 2, 1)
    nvox = 4
    for it in range(NB):
        K = KS[it % 4]
        p = 3
        typ = [None, "t", "F", "tmin-conjunction"][(it // 4) % 4]
        imgs, Xs, Ys = [], [], []
        for sidx in range(K):
            T = int(rng.integers(8, 13))
            while True:
                X = rng.integers(-3, 4, (T, p)).astype(float)
                X[:, 0] = 1.0
                if np.linalg.matrix_rank(X) == p:
                    break
            Y = rng.integers(-20, 21, shape + (T,)).astype(float)
            imgs.append(nib.Nifti1Image(Y, np.eye(4)))
            Xs.append(X)
            Ys.append(Y.reshape(-1, T).T.copy())       # (T, nvox), C order of the 3 spatial axes = mask order
        nullpat = [False] * K
        if K > 1 and it % 3 == 1:                        # some (not all) sessions have a null contrast
            for j in rng.choice(K, size=int(rng.integers(1, K)), replace=False):
                nullpat[int(j)] = True
        cons = []
        for sidx in range(K):
            if typ in (None, "t"):
                con = rng.integers(-2, 3, p).astype(float)
                while not np.any(con):
                    con = rng.integers(-2, 3, p).astype(float)
            else:
                while True:
                    con = rng.integers(-2, 3, (2, p)).astype(float)
                    if np.linalg.matrix_rank(con) == 2:
                        break
            cons.append(np.zeros_like(con) if nullpat[sidx] else con)
        ncls = "with-null-sessions" if any(nullpat) else "no-null-session"
        scls = "sessions=%d" % K if K <= 2 else "sessions>=3"
        ck.count(("fmrilm", it), nontrivial=K > 1, bucket="fixed-effects:FMRILinearModel:%s:%s:%s" % (scls if K <= 2 else "sessions=%d" % K, ncls, typ))
        rep = {"sessions": K, "null_sessions": nullpat, "contrast_type": typ, "contrasts": [c.tolist() for c in cons],
               "designs": [X.tolist() for X in Xs], "data": [Y.tolist() for Y in Ys], "volume_shape": list(shape)}
        try:
            mdl = fg.FMRILinearModel(imgs, Xs, mask=None)
            mdl.fit(do_scaling=False, model="ols")
            outs = mdl.contrast(cons, contrast_type=typ, output_z=True, output_stat=True, output_effects=True, output_variance=True)
        except Exception as ex:  # noqa
            ck.fail("fixed-effects/FMRILinearModel/raises/%s/%s" % (scls, ncls), "FMRILinearModel.contrast raised %r" % ex, rep)
            continue
        # reference: every non-null session estimated on its own, fields summed as arrays, statistics from a fresh Contrast
        sess = []
        for X, Y, con, isnull in zip(Xs, Ys, cons, nullpat):
            if isnull:
                sess.append(None)
                continue
            g = fg.GeneralLinearModel(X)
            g.fit(Y, "ols")
            ci = g.contrast(con, contrast_type=typ)
            sess.append((np.array(ci.effect, dtype=float), np.array(ci.variance, dtype=float), float(ci.dof), ci.contrast_type))
        live = [s_ for s_ in sess if s_ is not None]
        es, Vs, ds = sum(s_[0] for s_ in live), sum(s_[1] for s_ in live), sum(s_[2] for s_ in live)
        dim = es.shape[0]
        fresh = fg.Contrast(es.copy(), Vs.copy(), dof=ds, contrast_type=live[0][3])
        zref, sref = np.ravel(fresh.z_score()), np.ravel(fresh.stat())
        got = [np.asarray(o.get_fdata()) for o in outs]
        gz, gs = got[0].reshape(nvox), got[1].reshape(nvox)
        ge = got[2].reshape(nvox, dim).T
        gv = got[3].reshape(nvox, dim, dim).transpose(2, 1, 0)
        rep = dict(rep, got={"z": gz.tolist(), "stat": gs.tolist(), "effect": ge.tolist(), "variance": gv.tolist()},
                   expected={"z": zref.tolist(), "stat": sref.tolist(), "effect": es.tolist(), "variance": Vs.tolist(), "dof": ds})
        for fld, g_, w_ in (("effect", ge, es), ("variance", gv, Vs), ("stat", gs, sref), ("z", gz, zref)):
            if not np.allclose(g_, w_, rtol=1e-10, atol=1e-12):
                ck.fail("fixed-effects/FMRILinearModel/%s/%s/%s" % (fld, scls, ncls),
                        "FMRILinearModel.contrast over %d sessions (%s): the %s map is not that of the sum of all non-null session contrasts" % (K, ncls, fld), rep)
        sl = clist(["None" if s_ is None else "(Some %s)" % _ccon(s_[0], s_[1], s_[2]) for s_ in sess])
        terms.append("oc_close %s (fixed_effects %s) (Some %s)" % (cq(Fraction(1, 10 ** 10)), sl, _ccon(ge, gv, ds)))
        meta.append(("fixed-effects/model-vs-impl/FMRILinearModel/%s/%s" % (scls, ncls),
                     "model fixed_effects (sum of all non-null sessions) and FMRILinearModel.contrast disagree on effect/variance (voxel 0)", rep))
    if build_ok:
        res = ck.coq_bools(HDRC, terms, name="fixedfx")
        ck.cov["traces_validated_against_impl"] += len(res)
        for ok, (sig, what, rep) in zip(res, meta):
            if not ok:
                ck.fail(sig, what, rep)
    ck.section("fixed_effects", contrast_sums=NA, fmri_linear_models=NB, summands=KS, model_terms=len(terms))

# ------------------------------------------------------------------ voxel arrays of any shape (labs.glm works on N-d arrays)
def _shape_class(shape):
    if len(shape) == 1:
        return "flat"
    if any(x == 1 for x in shape):
        return "singleton-axis"
    if len(set(shape)) == 1:
        return "square" if len(shape) == 2 else "cube"
    return "rect" if len(shape) == 2 else "box"


def _gen_shape(rng, it, singleton=True):
    k = it % (6 if singleton else 5)
    if k == 0:
        return (int(rng.integers(1, 7)),)
    if k == 1:
        n = int(rng.integers(2, 5))
        return (n, n)
    if k == 2:
        n = int(rng.integers(2, 5))
        m = int(rng.integers(2, 5))
        return (n, m if m != n else n + 1)
    if k == 3:
        n = int(rng.integers(2, 4))
        return (n, n, n)
    if k == 4:
        return tuple(int(x) for x in rng.permutation([2, 3, int(rng.integers(2, 4))]))
    return tuple(int(x) for x in rng.permutation([1, int(rng.integers(1, 4))]))


def grid_section(ck):
    """labs.glm contrasts on voxel arrays of every shape class: the statistic of voxel v must not depend on how the
    voxels are laid out (flat list, square / rectangular slice, cube, box, singleton axes)."""
    import nipy.labs.glm.glm as lg
    rng = ck.rng("grid")
    build_ok = ck.build is not None and ck.build.ok
    terms, meta = [], []
    tinyq = frac(TINY2)
    sd_floor = frac(TINY2 ** 0.5)

    # ---- (a) contrast objects with effect (dim, *grid), variance (dim, dim, *grid); exact lattice
    NA = ck.n(60, 600)
    for it in range(NA):
        typ = ["tmin", "t", "tmin", "F", "tmin", "F"][it % 6]
        dim = 1 if typ == "t" else (int(rng.integers(1, 4)) if typ == "F" else int(rng.integers(2, 4)))
        shape = _gen_shape(rng, it // 2 + it)
        cls = _shape_class(shape)
        nvox = int(np.prod(shape))
        b = Fraction(0) if rng.random() < 0.5 else Fraction(int(rng.integers(-64, 65)), 8)
        sd = [[None] * nvox for _ in range(dim)]
        vv = [[None] * nvox for _ in range(dim)]
        tt = [[None] * nvox for _ in range(dim)]
        for i in range(dim):
            for v in range(nvox):
                r = rng.random()
                if b == 0 and r < 0.08:          # zero variance: floor active
                    vv[i][v], sd[i][v] = Fraction(0), sd_floor
                elif b == 0 and r < 0.12:
                    vv[i][v], sd[i][v] = tinyq, sd_floor
                else:
                    s_ = Fraction(int(rng.integers(1, 1024)), 2 ** int(rng.integers(0, 8)))
                    vv[i][v], sd[i][v] = s_ * s_, s_
                tt[i][v] = Fraction(int(rng.integers(-4095, 4096)), 16)
        E = [[b + tt[i][v] * sd[i][v] for v in range(nvox)] for i in range(dim)]
        if any(frac(float(x)) != x for row in E for x in row):
            continue
        multiF = typ == "F" and dim > 1
        if multiF:
            # positive definite covariance at every voxel: V = L L^t with integer lower-triangular L
            Vb = np.zeros((dim, dim, nvox))
            for v in range(nvox):
                L = np.tril(rng.integers(-3, 4, (dim, dim))).astype(float)
                L[np.diag_indices(dim)] = rng.integers(1, 4, dim)
                Vb[:, :, v] = L @ L.T
        else:
            Vb = rng.integers(-999, 1000, (dim, dim, nvox)) / 8.0
            for i in range(dim):
                Vb[i, i, :] = [float(x) for x in vv[i]]
        Ea = np.array([[float(x) for x in row] for row in E])
        cg = lg.contrast(dim, typ, tiny=TINY2)
        cg.effect = Ea.reshape((dim,) + shape).copy()
        cg.variance = Vb.reshape((dim, dim) + shape).copy()
        cg.dof = 10.0
        cf = lg.contrast(dim, typ, tiny=TINY2)
        cf.effect = Ea.copy()
        cf.variance = Vb.copy()
        cf.dof = 10.0
        tname = "F%s" % ("1" if dim == 1 else "n") if typ == "F" else typ
        rep = {"impl": "labs", "type": typ, "dim": dim, "voxel_array_shape": list(shape), "baseline": float(b), "tiny": TINY2,
               "effect": cg.effect.tolist(), "variance": cg.variance.tolist(), "dof": 10.0}
        ck.count(("grid", it, typ, shape), nontrivial=nvox > 1, bucket="grid:%s:%s" % (tname, cls))
        flat = [np.asarray(getattr(cf, f)(float(b)), dtype=float) for f in ("stat", "pvalue", "zscore")]
        try:
            got = [np.asarray(getattr(cg, f)(float(b)), dtype=float) for f in ("stat", "pvalue", "zscore")]
        except Exception as ex:  # noqa
            ck.fail("grid/raises/labs/%s/%s" % (tname, cls),
                    "labs %s contrast on a voxel array of shape %s raised %r; the same voxels as a flat list give stat %s" % (
                        typ, shape, ex, flat[0].tolist()), dict(rep, flat_stat=flat[0].tolist()))
            continue
        rep["stat"] = got[0].tolist()
        rep["flat_stat_reshaped"] = flat[0].reshape(-1).tolist()
        if any(g.shape != f.shape[:-1] + shape for g, f in zip(got, flat)):
            ck.fail("grid/result-shape/labs/%s/%s" % (tname, cls), "labs %s stat/pvalue/zscore shapes %s on a voxel array of shape %s" % (
                typ, [g.shape for g in got], shape), rep)
            continue
        # oracle: the value at voxel v does not depend on the layout of the voxel array
        for g, f, what in zip(got, flat, ("stat", "pvalue", "zscore")):
            same = np.allclose(g.ravel(), f.ravel(), rtol=1e-10, atol=0, equal_nan=True) if multiF else np.array_equal(g.ravel(), f.ravel(), equal_nan=True)
            if not same:
                ck.fail("grid/%s-differs-from-flat/labs/%s/%s" % (what, tname, cls),
                        "labs %s contrast: %s on a voxel array of shape %s differs from the same voxels given as a flat list at %d of %d voxels" % (
                            typ, what, shape, int((~np.isclose(g.ravel(), f.ravel(), rtol=1e-10, atol=0)).sum()), nvox), rep)
        if multiF:
            continue
        # oracle (statement): t = (effect-baseline)/sd voxel by voxel, F1 = t^2, tmin = min over rows (exact on this lattice)
        if typ == "t":
            want = tt[0]
        elif typ == "F":
            want = [x * x for x in tt[0]]
        else:
            want = [min(tt[i][v] for i in range(dim)) for v in range(nvox)]
        gotq = [frac(float(x)) if np.isfinite(x) else None for x in got[0].ravel()]
        if gotq != want:
            bad = [v for v in range(nvox) if gotq[v] != want[v]]
            ck.fail("grid/not-effect-over-sd/labs/%s/%s" % (tname, cls),
                    "labs %s statistic on a voxel array of shape %s is not (effect-baseline)/sd%s at voxels (C order) %s: %s, expected %s" % (
                        typ, shape, " minimised over the rows" if typ == "tmin" else "", bad[:5], [float(got[0].ravel()[v]) for v in bad[:5]],
                        [float(want[v]) for v in bad[:5]]), dict(rep, expected=[float(x) for x in want]))
        if typ == "tmin" and None not in gotq:
            tbl = sorted({(max(x, tinyq), frac(float(np.sqrt(float(max(x, tinyq)))))) for row in vv for x in row})
            Vlit = clist([clist([cql([frac(x) for x in Vb[i, j, :]]) for j in range(dim)]) for i in range(dim)])
            term = "sqrt_tbl_ok %s && list_eqb (option_eqb Qeq_bool) (g_tmin_grid (Qops %s) 0 %s %s %s %s %d) %s" % (
                ctbl(tbl), ctbl(tbl), cmatq(E), Vlit, cq(b), cq(tinyq), nvox, clist(["(Some %s)" % cq(x) for x in gotq]))
            terms.append(term)
            meta.append(("grid/model-vs-impl/labs/tmin/%s" % cls, "g_tmin_grid and labs disagree on the conjunction statistic of a voxel array of shape %s" % (shape,), rep))
        if it < 2:
            ck.sample({"call": "labs contrast(dim=%d, type=%s) on a voxel array of shape %s: stat(%s)" % (dim, typ, shape, float(b)),
                       "stat": got[0].tolist()})

    # ---- (b) the top-level API: glm(Y, X, axis) on N-d data, time axis anywhere; contrasts t / F / tmin
    NB = ck.n(20, 200)
    for it in range(NB):
        shape = _gen_shape(rng, it, singleton=False)
        if any(x == 1 for x in shape):
            # an extent-1 voxel axis (also a one-voxel flat list): glm.fit squeezes it out of s2 but not out of the effect -
            # the recorded C05 finding labs.contrast/stat-shape/voxel-axis-of-extent-1-squeezed-from-s2-not-from-effect,
            # checked there; excluded here exactly like the singleton-axis grids (singleton=False)
            continue
        cls = _shape_class(shape)
        nvox = int(np.prod(shape))
        T, p = int(rng.integers(8, 14)), 3
        ax = int(rng.integers(0, len(shape) + 1))
        X = rng.integers(-4, 5, (T, p)).astype(float)
        if np.linalg.matrix_rank(X) < p:
            continue
        Y2 = rng.integers(-20, 21, (T, nvox)).astype(float) * np.exp(rng.uniform(-2, 2, nvox))
        Y = np.moveaxis(Y2.reshape((T,) + shape), 0, ax).copy()
        C = rng.integers(-2, 3, (2, p)).astype(float)
        if np.linalg.matrix_rank(C) < 2:
            continue
        bl = float(rng.integers(-2, 3)) / 2
        ck.count(("grid-glm", it, shape, ax), nontrivial=True, bucket="grid-glm:%s:axis%d" % (cls, ax))
        mg = lg.glm(Y, X, axis=ax, method="ols")
        mf = lg.glm(Y2, X, axis=0, method="ols")
        trows = None
        for typ, cc in (("t", C[0]), ("F", C[:1]), ("F", C), ("tmin", C)):
            tname = typ if typ != "F" else "F%s" % ("1" if cc.shape[0] == 1 else "n")
            rep = {"impl": "labs", "call": "glm(Y, X, axis=%d, method='ols').contrast(c, type=%r).stat(%s)" % (ax, typ, bl),
                   "voxel_array_shape": list(shape), "axis": ax, "X": X.tolist(), "Y": Y.tolist(), "c": cc.tolist(), "baseline": bl}
            cf = mf.contrast(cc, type=typ)
            flat = [np.asarray(getattr(cf, f)(bl), dtype=float) for f in ("stat", "pvalue", "zscore")]
            if typ == "t":
                trows = [np.asarray(mf.contrast(ci, type="t").stat(bl), dtype=float) for ci in C]
            try:
                cg = mg.contrast(cc, type=typ)
                got = [np.asarray(getattr(cg, f)(bl), dtype=float) for f in ("stat", "pvalue", "zscore")]
            except Exception as ex:  # noqa
                ck.fail("grid/raises/labs-glm/%s/%s" % (tname, cls), "labs glm on data with voxel array shape %s (time axis %d): %s contrast raised %r" % (
                    shape, ax, typ, ex), dict(rep, flat_stat=flat[0].tolist()))
                continue
            rep["stat"] = got[0].tolist()
            rep["flat_stat"] = flat[0].tolist()
            if any(g.shape != f.shape[:-1] + shape for g, f in zip(got, flat)):
                ck.fail("grid/result-shape/labs-glm/%s/%s" % (tname, cls), "labs glm %s contrast: result shapes %s for voxel array shape %s" % (
                    typ, [g.shape for g in got], shape), rep)
                continue
            for g, f, what in zip(got, flat, ("stat", "pvalue", "zscore")):
                if not np.allclose(g.ravel(), f.ravel(), rtol=1e-8, atol=1e-12, equal_nan=True):
                    ck.fail("grid/%s-differs-from-flat/labs-glm/%s/%s" % (what, tname, cls),
                            "labs glm %s contrast: %s for voxel array shape %s (time axis %d) differs from the fit of the same voxels as a (T, n) matrix at %d of %d voxels" % (
                                typ, what, shape, ax, int((~np.isclose(g.ravel(), f.ravel(), rtol=1e-8, atol=1e-12)).sum()), nvox), rep)
            if typ == "tmin" and trows is not None:
                want = np.min(trows, axis=0)
                if not np.allclose(got[0].ravel(), want.ravel(), rtol=1e-8, atol=1e-12):
                    ck.fail("grid/tmin-not-min-of-row-t/labs-glm/%s" % cls,
                            "labs glm conjunction statistic for voxel array shape %s is not the minimum of the row t statistics" % (shape,),
                            dict(rep, min_of_row_t=want.tolist()))

    if build_ok and terms:
        res = ck.coq_bools(HDR + "From NV.C06 Require Import ModelGrid.\n", terms, name="grid")
        ck.cov["traces_validated_against_impl"] += len(res)
        for ok, (sig, what, rep) in zip(res, meta):
            if not ok:
                ck.fail(sig, what, rep)
    ck.section("grid", contrast_objects=NA, glm_fits=NB, model_terms=len(terms),
               shape_classes=["flat", "square", "rect", "cube", "box", "singleton-axis"])


def run(ck):
    ck.cov["rule"] = ("state machine: every stat/p_value/z_score call sequence of length <= 3 (4) over two baselines + random sequences with "
                      "three baselines, scalar multiplication and addition, for both Contrast classes x {t, F1, F2, tmin}; "
                      "fdr: exhaustive p-vectors of length <= 3 (4 thorough) over a 6-point grid + random vectors n<=16 on the "
                      "exactness lattice m*lcm(1..n)/2^40 with planted zeros/ones/ties (exact model comparison) + random float "
                      "vectors n<=60 (120) compared through the model at 1e-12; distinct by the p-vector; non-trivial when n>1")
    import time
    t0 = time.time()
    ck.coq_build()
    ck.overlay()
    t1 = time.time()
    fdr_section(ck)
    t2 = time.time()
    contrast_section(ck)
    results_section(ck)
    t3 = time.time()
    state_section(ck)
    t4 = time.time()
    fixed_effects_section(ck)
    grid_section(ck)
    t5 = time.time()
    ck.section("timing", build_and_overlay_s=round(t1 - t0, 1), fdr_s=round(t2 - t1, 1), contrast_s=round(t3 - t2, 1), state_s=round(t4 - t3, 1), fixed_effects_s=round(t5 - t4, 1))
